#![allow(unused, non_snake_case, non_upper_case_globals)]
use vstd::prelude::*;
verus! {
// ---- include lib/stdspecs.vrs ----
// Specifications of core integer methods that vstd 0.2026.09.13 does not provide (trusted; each mirrors the std documentation).
// Included by every unit so that an edited body that starts using one of them is still decided.
pub assume_specification[ i8::div_euclid ](x: i8, y: i8) -> (r: i8) requires y != 0, !(x == i8::MIN && y == -1), ensures y > 0 ==> r as int == (x as int) / (y as int);
pub assume_specification[ i8::rem_euclid ](x: i8, y: i8) -> (r: i8) requires y != 0, !(x == i8::MIN && y == -1), ensures y > 0 ==> r as int == (x as int) % (y as int), y < 0 ==> r as int == (x as int) % (-(y as int));
pub assume_specification[ i8::abs ](x: i8) -> (r: i8) requires x != i8::MIN, ensures r as int == (if x < 0 { -(x as int) } else { x as int });
pub assume_specification[ i8::signum ](x: i8) -> (r: i8) ensures r == (if x > 0 { 1int } else if x < 0 { -1int } else { 0int });
pub assume_specification[ i8::is_positive ](x: i8) -> (r: bool) ensures r == (x > 0);
pub assume_specification[ i8::is_negative ](x: i8) -> (r: bool) ensures r == (x < 0);
pub assume_specification[ i8::checked_neg ](x: i8) -> (r: Option<i8>) ensures x == i8::MIN ==> r.is_none(), x != i8::MIN ==> r == Some((-x) as i8);
pub assume_specification[ i8::saturating_add ](x: i8, y: i8) -> (r: i8) ensures i8::MIN <= x + y <= i8::MAX ==> r == x + y, x + y > i8::MAX ==> r == i8::MAX, x + y < i8::MIN ==> r == i8::MIN;
pub assume_specification[ i8::saturating_sub ](x: i8, y: i8) -> (r: i8) ensures i8::MIN <= x - y <= i8::MAX ==> r == x - y, x - y > i8::MAX ==> r == i8::MAX, x - y < i8::MIN ==> r == i8::MIN;
pub assume_specification[ i8::saturating_neg ](x: i8) -> (r: i8) ensures x == i8::MIN ==> r == i8::MAX, x != i8::MIN ==> r == -x;
pub assume_specification[ i8::unsigned_abs ](x: i8) -> (r: u8) ensures r as int == (if x < 0 { -(x as int) } else { x as int });
pub assume_specification[ i8::checked_abs ](x: i8) -> (r: Option<i8>) ensures x == i8::MIN ==> r.is_none(), x != i8::MIN ==> r == Some((if x < 0 { -x } else { x as int }) as i8);
pub assume_specification[ i16::div_euclid ](x: i16, y: i16) -> (r: i16) requires y != 0, !(x == i16::MIN && y == -1), ensures y > 0 ==> r as int == (x as int) / (y as int);
pub assume_specification[ i16::rem_euclid ](x: i16, y: i16) -> (r: i16) requires y != 0, !(x == i16::MIN && y == -1), ensures y > 0 ==> r as int == (x as int) % (y as int), y < 0 ==> r as int == (x as int) % (-(y as int));
pub assume_specification[ i16::abs ](x: i16) -> (r: i16) requires x != i16::MIN, ensures r as int == (if x < 0 { -(x as int) } else { x as int });
pub assume_specification[ i16::signum ](x: i16) -> (r: i16) ensures r == (if x > 0 { 1int } else if x < 0 { -1int } else { 0int });
pub assume_specification[ i16::is_positive ](x: i16) -> (r: bool) ensures r == (x > 0);
pub assume_specification[ i16::is_negative ](x: i16) -> (r: bool) ensures r == (x < 0);
pub assume_specification[ i16::checked_neg ](x: i16) -> (r: Option<i16>) ensures x == i16::MIN ==> r.is_none(), x != i16::MIN ==> r == Some((-x) as i16);
pub assume_specification[ i16::saturating_add ](x: i16, y: i16) -> (r: i16) ensures i16::MIN <= x + y <= i16::MAX ==> r == x + y, x + y > i16::MAX ==> r == i16::MAX, x + y < i16::MIN ==> r == i16::MIN;
pub assume_specification[ i16::saturating_sub ](x: i16, y: i16) -> (r: i16) ensures i16::MIN <= x - y <= i16::MAX ==> r == x - y, x - y > i16::MAX ==> r == i16::MAX, x - y < i16::MIN ==> r == i16::MIN;
pub assume_specification[ i16::saturating_neg ](x: i16) -> (r: i16) ensures x == i16::MIN ==> r == i16::MAX, x != i16::MIN ==> r == -x;
pub assume_specification[ i16::unsigned_abs ](x: i16) -> (r: u16) ensures r as int == (if x < 0 { -(x as int) } else { x as int });
pub assume_specification[ i16::checked_abs ](x: i16) -> (r: Option<i16>) ensures x == i16::MIN ==> r.is_none(), x != i16::MIN ==> r == Some((if x < 0 { -x } else { x as int }) as i16);
pub assume_specification[ i32::div_euclid ](x: i32, y: i32) -> (r: i32) requires y != 0, !(x == i32::MIN && y == -1), ensures y > 0 ==> r as int == (x as int) / (y as int);
pub assume_specification[ i32::rem_euclid ](x: i32, y: i32) -> (r: i32) requires y != 0, !(x == i32::MIN && y == -1), ensures y > 0 ==> r as int == (x as int) % (y as int), y < 0 ==> r as int == (x as int) % (-(y as int));
pub assume_specification[ i32::abs ](x: i32) -> (r: i32) requires x != i32::MIN, ensures r as int == (if x < 0 { -(x as int) } else { x as int });
pub assume_specification[ i32::signum ](x: i32) -> (r: i32) ensures r == (if x > 0 { 1int } else if x < 0 { -1int } else { 0int });
pub assume_specification[ i32::is_positive ](x: i32) -> (r: bool) ensures r == (x > 0);
pub assume_specification[ i32::is_negative ](x: i32) -> (r: bool) ensures r == (x < 0);
pub assume_specification[ i32::checked_neg ](x: i32) -> (r: Option<i32>) ensures x == i32::MIN ==> r.is_none(), x != i32::MIN ==> r == Some((-x) as i32);
pub assume_specification[ i32::saturating_add ](x: i32, y: i32) -> (r: i32) ensures i32::MIN <= x + y <= i32::MAX ==> r == x + y, x + y > i32::MAX ==> r == i32::MAX, x + y < i32::MIN ==> r == i32::MIN;
pub assume_specification[ i32::saturating_sub ](x: i32, y: i32) -> (r: i32) ensures i32::MIN <= x - y <= i32::MAX ==> r == x - y, x - y > i32::MAX ==> r == i32::MAX, x - y < i32::MIN ==> r == i32::MIN;
pub assume_specification[ i32::saturating_neg ](x: i32) -> (r: i32) ensures x == i32::MIN ==> r == i32::MAX, x != i32::MIN ==> r == -x;
pub assume_specification[ i32::unsigned_abs ](x: i32) -> (r: u32) ensures r as int == (if x < 0 { -(x as int) } else { x as int });
pub assume_specification[ i32::checked_abs ](x: i32) -> (r: Option<i32>) ensures x == i32::MIN ==> r.is_none(), x != i32::MIN ==> r == Some((if x < 0 { -x } else { x as int }) as i32);
pub assume_specification[ i64::div_euclid ](x: i64, y: i64) -> (r: i64) requires y != 0, !(x == i64::MIN && y == -1), ensures y > 0 ==> r as int == (x as int) / (y as int);
pub assume_specification[ i64::rem_euclid ](x: i64, y: i64) -> (r: i64) requires y != 0, !(x == i64::MIN && y == -1), ensures y > 0 ==> r as int == (x as int) % (y as int), y < 0 ==> r as int == (x as int) % (-(y as int));
pub assume_specification[ i64::abs ](x: i64) -> (r: i64) requires x != i64::MIN, ensures r as int == (if x < 0 { -(x as int) } else { x as int });
pub assume_specification[ i64::signum ](x: i64) -> (r: i64) ensures r == (if x > 0 { 1int } else if x < 0 { -1int } else { 0int });
pub assume_specification[ i64::is_positive ](x: i64) -> (r: bool) ensures r == (x > 0);
pub assume_specification[ i64::is_negative ](x: i64) -> (r: bool) ensures r == (x < 0);
pub assume_specification[ i64::checked_neg ](x: i64) -> (r: Option<i64>) ensures x == i64::MIN ==> r.is_none(), x != i64::MIN ==> r == Some((-x) as i64);
pub assume_specification[ i64::saturating_add ](x: i64, y: i64) -> (r: i64) ensures i64::MIN <= x + y <= i64::MAX ==> r == x + y, x + y > i64::MAX ==> r == i64::MAX, x + y < i64::MIN ==> r == i64::MIN;
pub assume_specification[ i64::saturating_sub ](x: i64, y: i64) -> (r: i64) ensures i64::MIN <= x - y <= i64::MAX ==> r == x - y, x - y > i64::MAX ==> r == i64::MAX, x - y < i64::MIN ==> r == i64::MIN;
pub assume_specification[ i64::saturating_neg ](x: i64) -> (r: i64) ensures x == i64::MIN ==> r == i64::MAX, x != i64::MIN ==> r == -x;
pub assume_specification[ i64::unsigned_abs ](x: i64) -> (r: u64) ensures r as int == (if x < 0 { -(x as int) } else { x as int });
pub assume_specification[ i64::checked_abs ](x: i64) -> (r: Option<i64>) ensures x == i64::MIN ==> r.is_none(), x != i64::MIN ==> r == Some((if x < 0 { -x } else { x as int }) as i64);
pub assume_specification[ i128::div_euclid ](x: i128, y: i128) -> (r: i128) requires y != 0, !(x == i128::MIN && y == -1), ensures y > 0 ==> r as int == (x as int) / (y as int);
pub assume_specification[ i128::rem_euclid ](x: i128, y: i128) -> (r: i128) requires y != 0, !(x == i128::MIN && y == -1), ensures y > 0 ==> r as int == (x as int) % (y as int), y < 0 ==> r as int == (x as int) % (-(y as int));
pub assume_specification[ i128::abs ](x: i128) -> (r: i128) requires x != i128::MIN, ensures r as int == (if x < 0 { -(x as int) } else { x as int });
pub assume_specification[ i128::signum ](x: i128) -> (r: i128) ensures r == (if x > 0 { 1int } else if x < 0 { -1int } else { 0int });
pub assume_specification[ i128::is_positive ](x: i128) -> (r: bool) ensures r == (x > 0);
pub assume_specification[ i128::is_negative ](x: i128) -> (r: bool) ensures r == (x < 0);
pub assume_specification[ i128::checked_neg ](x: i128) -> (r: Option<i128>) ensures x == i128::MIN ==> r.is_none(), x != i128::MIN ==> r == Some((-x) as i128);
pub assume_specification[ i128::saturating_add ](x: i128, y: i128) -> (r: i128) ensures i128::MIN <= x + y <= i128::MAX ==> r == x + y, x + y > i128::MAX ==> r == i128::MAX, x + y < i128::MIN ==> r == i128::MIN;
pub assume_specification[ i128::saturating_sub ](x: i128, y: i128) -> (r: i128) ensures i128::MIN <= x - y <= i128::MAX ==> r == x - y, x - y > i128::MAX ==> r == i128::MAX, x - y < i128::MIN ==> r == i128::MIN;
pub assume_specification[ i128::saturating_neg ](x: i128) -> (r: i128) ensures x == i128::MIN ==> r == i128::MAX, x != i128::MIN ==> r == -x;
pub assume_specification[ i128::unsigned_abs ](x: i128) -> (r: u128) ensures r as int == (if x < 0 { -(x as int) } else { x as int });
pub assume_specification[ i128::checked_abs ](x: i128) -> (r: Option<i128>) ensures x == i128::MIN ==> r.is_none(), x != i128::MIN ==> r == Some((if x < 0 { -x } else { x as int }) as i128);

// ---- include lib/rangeint.vrs ----
// GENERATED by lib/gen_rangeint.py -- the rangeint model (T2).  Do not edit by hand.
use vstd::std_specs::cmp::*;
use vstd::std_specs::ops::*;
use core::cmp::Ordering;

#[derive(Clone, Copy)]
pub struct Constant(pub i64);
#[allow(non_snake_case)]
pub fn C(v: i64) -> (r: ri64) ensures r.val == v { ri64 { val: v } }
#[allow(non_snake_case)]
pub fn C128(v: i64) -> (r: ri128) ensures r.val == v { ri128 { val: v as i128 } }
impl Constant {
    pub fn value(self) -> (r: i64) ensures r == self.0 { self.0 }
    pub fn bound(self) -> (r: i128) ensures r == self.0 { self.0 as i128 }
}
pub open spec fn int_cmp(a: int, b: int) -> Ordering { if a < b { Ordering::Less } else if a > b { Ordering::Greater } else { Ordering::Equal } }
/// truncating division / remainder (Rust `/`, `%` on primitives), b != 0
pub open spec fn tdiv(a: int, b: int) -> int {
    if b > 0 { if a >= 0 { a / b } else { -((-a) / b) } } else { if a >= 0 { -(a / (-b)) } else { (-a) / (-b) } }
}
pub open spec fn trem(a: int, b: int) -> int { a - tdiv(a, b) * b }

pub trait RInto<T>: Sized {
    spec fn rinto_spec(self) -> T;
    spec fn rinto_req(self) -> bool;
    fn rinto(self) -> (r: T) requires self.rinto_req() ensures r == self.rinto_spec();
}
pub trait RFrom<T>: Sized {
    spec fn rfrom_spec(t: T) -> Self;
    spec fn rfrom_req(t: T) -> bool;
    fn rfrom(t: T) -> (r: Self) requires Self::rfrom_req(t) ensures r == Self::rfrom_spec(t);
}


// ------------------------------------------------------------------ ri8
#[derive(Clone, Copy)]
pub struct ri8 { pub val: i8 }
impl ri8 {
    pub fn new_unchecked(val: i8) -> (r: Self) ensures r.val == val { ri8 { val } }
    pub fn get(self) -> (r: i8) ensures r == self.val { self.val }
    pub fn get_unchecked(self) -> (r: i8) ensures r == self.val { self.val }
    pub fn without_bounds(self) -> (r: Self) ensures r == self { self }
    // `T::N::<VAL>()` is rewritten to `T::verif_N(VAL)`: the constant VAL (release: `Self { val: VAL }`, no bound is consulted).
    // (Not modelled with a const generic: Verus 0.2026.09.13 derives `false` from a negative const generic argument.)
    pub const fn verif_N(v: i8) -> (r: Self) ensures r.val == v { ri8 { val: v } }
    #[verifier::external_body]
    pub fn abs(self) -> (r: Self)
        requires self.val > i8::MIN,
        ensures r.val == (if self.val < 0 { -self.val } else { self.val as int })
    { unimplemented!() }
    // real: returns `riN<-1, 1>` of the SAME width
    pub fn signum(self) -> (r: Self) ensures r.val == (if self.val < 0 { -1int } else if self.val > 0 { 1int } else { 0int })
    { if self.val < 0 { ri8 { val: -1 } } else if self.val > 0 { ri8 { val: 1 } } else { ri8 { val: 0 } } }
    pub fn min<R: RInto<Self>>(self, other: R) -> (r: Self)
        requires other.rinto_req(),
        ensures r.val == (if other.rinto_spec().val < self.val { other.rinto_spec().val } else { self.val })
    { let o = other.rinto(); if o.val < self.val { o } else { self } }
    pub fn max<R: RInto<Self>>(self, other: R) -> (r: Self)
        requires other.rinto_req(),
        ensures r.val == (if other.rinto_spec().val > self.val { other.rinto_spec().val } else { self.val })
    { let o = other.rinto(); if o.val > self.val { o } else { self } }
    // truncating
    #[verifier::external_body]
    pub fn div_ceil<R: RInto<Self>>(self, rhs: R) -> (r: Self)
        requires rhs.rinto_req(), rhs.rinto_spec().val != 0, !(self.val == i8::MIN && rhs.rinto_spec().val == -1),
        ensures r.val == tdiv(self.val as int, rhs.rinto_spec().val as int)
    { unimplemented!() }
    #[verifier::external_body]
    pub fn rem_ceil<R: RInto<Self>>(self, rhs: R) -> (r: Self)
        requires rhs.rinto_req(), rhs.rinto_spec().val != 0, !(self.val == i8::MIN && rhs.rinto_spec().val == -1),
        ensures r.val == trem(self.val as int, rhs.rinto_spec().val as int)
    { unimplemented!() }
    // Euclidean (divisor > 0 required here; every use in jiff divides by a positive quantity)
    #[verifier::external_body]
    pub fn div_floor<R: RInto<Self>>(self, rhs: R) -> (r: Self)
        requires rhs.rinto_req(), rhs.rinto_spec().val > 0,
        ensures r.val == (self.val as int) / (rhs.rinto_spec().val as int)
    { unimplemented!() }
    #[verifier::external_body]
    pub fn rem_floor<R: RInto<Self>>(self, rhs: R) -> (r: Self)
        requires rhs.rinto_req(), rhs.rinto_spec().val > 0,
        ensures r.val == (self.val as int) % (rhs.rinto_spec().val as int)
    { unimplemented!() }
    #[verifier::external_body]
    pub fn saturating_mul<R: RInto<Self>>(self, rhs: R) -> (r: Self)
        requires rhs.rinto_req(),
        ensures i8::MIN <= self.val * rhs.rinto_spec().val <= i8::MAX ==> r.val == self.val * rhs.rinto_spec().val,
                self.val * rhs.rinto_spec().val > i8::MAX ==> r.val == i8::MAX,
                self.val * rhs.rinto_spec().val < i8::MIN ==> r.val == i8::MIN,
    { unimplemented!() }
    #[verifier::external_body]
    pub fn saturating_add<R: RInto<Self>>(self, rhs: R) -> (r: Self)
        requires rhs.rinto_req(),
        ensures i8::MIN <= self.val + rhs.rinto_spec().val <= i8::MAX ==> r.val == self.val + rhs.rinto_spec().val,
                self.val + rhs.rinto_spec().val > i8::MAX ==> r.val == i8::MAX,
                self.val + rhs.rinto_spec().val < i8::MIN ==> r.val == i8::MIN,
    { unimplemented!() }
}
// `type Range = ri8<{ LO }, { HI }>; Range::try_new("what", v)`: the bounds of an anonymous range are passed explicitly
#[verifier::external_body]
pub fn verif_try_new_range_8(lo: i128, hi: i128, v: i64) -> (res: Result<ri8, Error>)
    requires i8::MIN <= lo, hi <= i8::MAX,
    ensures res.is_ok() <==> lo <= v <= hi, res.is_ok() ==> res.unwrap().val == v
{ unimplemented!() }
impl RInto<ri8> for ri8 {
    open spec fn rinto_spec(self) -> ri8 { self }
    open spec fn rinto_req(self) -> bool { true }
    fn rinto(self) -> (r: ri8) { self }
}
impl RFrom<ri8> for ri8 {
    open spec fn rfrom_spec(t: ri8) -> ri8 { t }
    open spec fn rfrom_req(t: ri8) -> bool { true }
    fn rfrom(t: ri8) -> (r: ri8) { t }
}
impl RInto<ri8> for Constant {
    open spec fn rinto_spec(self) -> ri8 { ri8 { val: self.0 as i8 } }
    open spec fn rinto_req(self) -> bool { i8::MIN <= self.0 <= i8::MAX }
    #[verifier::external_body]
    fn rinto(self) -> (r: ri8) { unimplemented!() }
}
impl RFrom<Constant> for ri8 {
    open spec fn rfrom_spec(t: Constant) -> ri8 { ri8 { val: t.0 as i8 } }
    open spec fn rfrom_req(t: Constant) -> bool { i8::MIN <= t.0 <= i8::MAX }
    #[verifier::external_body]
    fn rfrom(t: Constant) -> (r: ri8) { unimplemented!() }
}
impl RInto<i8> for ri8 {
    open spec fn rinto_spec(self) -> i8 { self.val }
    open spec fn rinto_req(self) -> bool { true }
    fn rinto(self) -> (r: i8) { self.val }
}

impl PartialEqSpecImpl<ri8> for ri8 {
    open spec fn obeys_eq_spec() -> bool { true }
    open spec fn eq_spec(&self, other: &ri8) -> bool { self.val == other.val }
}
impl PartialEq<ri8> for ri8 {
    #[verifier::external_body]
    fn eq(&self, other: &ri8) -> bool { unimplemented!() }
}
impl PartialOrdSpecImpl<ri8> for ri8 {
    open spec fn obeys_partial_cmp_spec() -> bool { true }
    open spec fn partial_cmp_spec(&self, other: &ri8) -> Option<Ordering> { Some(int_cmp(self.val as int, other.val as int)) }
}
impl PartialOrd<ri8> for ri8 {
    #[verifier::external_body]
    fn partial_cmp(&self, other: &ri8) -> Option<Ordering> { unimplemented!() }
}

impl PartialEqSpecImpl<Constant> for ri8 {
    open spec fn obeys_eq_spec() -> bool { true }
    open spec fn eq_spec(&self, other: &Constant) -> bool { self.val == other.0 }
}
impl PartialEq<Constant> for ri8 {
    #[verifier::external_body]
    fn eq(&self, other: &Constant) -> bool { unimplemented!() }
}
impl PartialOrdSpecImpl<Constant> for ri8 {
    open spec fn obeys_partial_cmp_spec() -> bool { true }
    open spec fn partial_cmp_spec(&self, other: &Constant) -> Option<Ordering> { Some(int_cmp(self.val as int, other.0 as int)) }
}
impl PartialOrd<Constant> for ri8 {
    #[verifier::external_body]
    fn partial_cmp(&self, other: &Constant) -> Option<Ordering> { unimplemented!() }
}

impl PartialEqSpecImpl<ri16> for ri8 {
    open spec fn obeys_eq_spec() -> bool { true }
    open spec fn eq_spec(&self, other: &ri16) -> bool { self.val == other.val }
}
impl PartialEq<ri16> for ri8 {
    #[verifier::external_body]
    fn eq(&self, other: &ri16) -> bool { unimplemented!() }
}
impl PartialOrdSpecImpl<ri16> for ri8 {
    open spec fn obeys_partial_cmp_spec() -> bool { true }
    open spec fn partial_cmp_spec(&self, other: &ri16) -> Option<Ordering> { Some(int_cmp(self.val as int, other.val as int)) }
}
impl PartialOrd<ri16> for ri8 {
    #[verifier::external_body]
    fn partial_cmp(&self, other: &ri16) -> Option<Ordering> { unimplemented!() }
}

impl PartialEqSpecImpl<ri32> for ri8 {
    open spec fn obeys_eq_spec() -> bool { true }
    open spec fn eq_spec(&self, other: &ri32) -> bool { self.val == other.val }
}
impl PartialEq<ri32> for ri8 {
    #[verifier::external_body]
    fn eq(&self, other: &ri32) -> bool { unimplemented!() }
}
impl PartialOrdSpecImpl<ri32> for ri8 {
    open spec fn obeys_partial_cmp_spec() -> bool { true }
    open spec fn partial_cmp_spec(&self, other: &ri32) -> Option<Ordering> { Some(int_cmp(self.val as int, other.val as int)) }
}
impl PartialOrd<ri32> for ri8 {
    #[verifier::external_body]
    fn partial_cmp(&self, other: &ri32) -> Option<Ordering> { unimplemented!() }
}

impl PartialEqSpecImpl<ri64> for ri8 {
    open spec fn obeys_eq_spec() -> bool { true }
    open spec fn eq_spec(&self, other: &ri64) -> bool { self.val == other.val }
}
impl PartialEq<ri64> for ri8 {
    #[verifier::external_body]
    fn eq(&self, other: &ri64) -> bool { unimplemented!() }
}
impl PartialOrdSpecImpl<ri64> for ri8 {
    open spec fn obeys_partial_cmp_spec() -> bool { true }
    open spec fn partial_cmp_spec(&self, other: &ri64) -> Option<Ordering> { Some(int_cmp(self.val as int, other.val as int)) }
}
impl PartialOrd<ri64> for ri8 {
    #[verifier::external_body]
    fn partial_cmp(&self, other: &ri64) -> Option<Ordering> { unimplemented!() }
}

impl PartialEqSpecImpl<ri128> for ri8 {
    open spec fn obeys_eq_spec() -> bool { true }
    open spec fn eq_spec(&self, other: &ri128) -> bool { self.val == other.val }
}
impl PartialEq<ri128> for ri8 {
    #[verifier::external_body]
    fn eq(&self, other: &ri128) -> bool { unimplemented!() }
}
impl PartialOrdSpecImpl<ri128> for ri8 {
    open spec fn obeys_partial_cmp_spec() -> bool { true }
    open spec fn partial_cmp_spec(&self, other: &ri128) -> Option<Ordering> { Some(int_cmp(self.val as int, other.val as int)) }
}
impl PartialOrd<ri128> for ri8 {
    #[verifier::external_body]
    fn partial_cmp(&self, other: &ri128) -> Option<Ordering> { unimplemented!() }
}

impl AddSpecImpl<ri8> for ri8 {
    open spec fn obeys_add_spec() -> bool { true }
    open spec fn add_req(self, rhs: ri8) -> bool { i8::MIN <= self.val + rhs.val <= i8::MAX }
    open spec fn add_spec(self, rhs: ri8) -> ri8 { ri8 { val: (self.val + rhs.val) as i8 } }
}
impl core::ops::Add<ri8> for ri8 {
    type Output = ri8;
    #[verifier::external_body]
    fn add(self, rhs: ri8) -> ri8 { unimplemented!() }
}
impl AddAssignSpecImpl<ri8> for ri8 {
    open spec fn obeys_add_assign_spec() -> bool { true }
    open spec fn add_assign_req(&self, rhs: ri8) -> bool { i8::MIN <= self.val + rhs.val <= i8::MAX }
    open spec fn add_assign_spec(&self, rhs: ri8) -> &ri8 { &ri8 { val: (self.val + rhs.val) as i8 } }
}
impl core::ops::AddAssign<ri8> for ri8 {
    #[verifier::external_body]
    fn add_assign(&mut self, rhs: ri8) { unimplemented!() }
}

impl SubSpecImpl<ri8> for ri8 {
    open spec fn obeys_sub_spec() -> bool { true }
    open spec fn sub_req(self, rhs: ri8) -> bool { i8::MIN <= self.val - rhs.val <= i8::MAX }
    open spec fn sub_spec(self, rhs: ri8) -> ri8 { ri8 { val: (self.val - rhs.val) as i8 } }
}
impl core::ops::Sub<ri8> for ri8 {
    type Output = ri8;
    #[verifier::external_body]
    fn sub(self, rhs: ri8) -> ri8 { unimplemented!() }
}
impl SubAssignSpecImpl<ri8> for ri8 {
    open spec fn obeys_sub_assign_spec() -> bool { true }
    open spec fn sub_assign_req(&self, rhs: ri8) -> bool { i8::MIN <= self.val - rhs.val <= i8::MAX }
    open spec fn sub_assign_spec(&self, rhs: ri8) -> &ri8 { &ri8 { val: (self.val - rhs.val) as i8 } }
}
impl core::ops::SubAssign<ri8> for ri8 {
    #[verifier::external_body]
    fn sub_assign(&mut self, rhs: ri8) { unimplemented!() }
}

impl MulSpecImpl<ri8> for ri8 {
    open spec fn obeys_mul_spec() -> bool { true }
    open spec fn mul_req(self, rhs: ri8) -> bool { i8::MIN <= self.val * rhs.val <= i8::MAX }
    open spec fn mul_spec(self, rhs: ri8) -> ri8 { ri8 { val: (self.val * rhs.val) as i8 } }
}
impl core::ops::Mul<ri8> for ri8 {
    type Output = ri8;
    #[verifier::external_body]
    fn mul(self, rhs: ri8) -> ri8 { unimplemented!() }
}
impl MulAssignSpecImpl<ri8> for ri8 {
    open spec fn obeys_mul_assign_spec() -> bool { true }
    open spec fn mul_assign_req(&self, rhs: ri8) -> bool { i8::MIN <= self.val * rhs.val <= i8::MAX }
    open spec fn mul_assign_spec(&self, rhs: ri8) -> &ri8 { &ri8 { val: (self.val * rhs.val) as i8 } }
}
impl core::ops::MulAssign<ri8> for ri8 {
    #[verifier::external_body]
    fn mul_assign(&mut self, rhs: ri8) { unimplemented!() }
}

impl DivSpecImpl<ri8> for ri8 {
    open spec fn obeys_div_spec() -> bool { true }
    open spec fn div_req(self, rhs: ri8) -> bool { rhs.val > 0 }
    open spec fn div_spec(self, rhs: ri8) -> ri8 { ri8 { val: (self.val as int / rhs.val as int) as i8 } }
}
impl core::ops::Div<ri8> for ri8 {
    type Output = ri8;
    #[verifier::external_body]
    fn div(self, rhs: ri8) -> ri8 { unimplemented!() }
}
impl RemSpecImpl<ri8> for ri8 {
    open spec fn obeys_rem_spec() -> bool { true }
    open spec fn rem_req(self, rhs: ri8) -> bool { rhs.val > 0 }
    open spec fn rem_spec(self, rhs: ri8) -> ri8 { ri8 { val: (self.val as int % rhs.val as int) as i8 } }
}
impl core::ops::Rem<ri8> for ri8 {
    type Output = ri8;
    #[verifier::external_body]
    fn rem(self, rhs: ri8) -> ri8 { unimplemented!() }
}

impl AddSpecImpl<Constant> for ri8 {
    open spec fn obeys_add_spec() -> bool { true }
    open spec fn add_req(self, rhs: Constant) -> bool { i8::MIN <= self.val + rhs.0 <= i8::MAX }
    open spec fn add_spec(self, rhs: Constant) -> ri8 { ri8 { val: (self.val + rhs.0) as i8 } }
}
impl core::ops::Add<Constant> for ri8 {
    type Output = ri8;
    #[verifier::external_body]
    fn add(self, rhs: Constant) -> ri8 { unimplemented!() }
}
impl AddAssignSpecImpl<Constant> for ri8 {
    open spec fn obeys_add_assign_spec() -> bool { true }
    open spec fn add_assign_req(&self, rhs: Constant) -> bool { i8::MIN <= self.val + rhs.0 <= i8::MAX }
    open spec fn add_assign_spec(&self, rhs: Constant) -> &ri8 { &ri8 { val: (self.val + rhs.0) as i8 } }
}
impl core::ops::AddAssign<Constant> for ri8 {
    #[verifier::external_body]
    fn add_assign(&mut self, rhs: Constant) { unimplemented!() }
}

impl SubSpecImpl<Constant> for ri8 {
    open spec fn obeys_sub_spec() -> bool { true }
    open spec fn sub_req(self, rhs: Constant) -> bool { i8::MIN <= self.val - rhs.0 <= i8::MAX }
    open spec fn sub_spec(self, rhs: Constant) -> ri8 { ri8 { val: (self.val - rhs.0) as i8 } }
}
impl core::ops::Sub<Constant> for ri8 {
    type Output = ri8;
    #[verifier::external_body]
    fn sub(self, rhs: Constant) -> ri8 { unimplemented!() }
}
impl SubAssignSpecImpl<Constant> for ri8 {
    open spec fn obeys_sub_assign_spec() -> bool { true }
    open spec fn sub_assign_req(&self, rhs: Constant) -> bool { i8::MIN <= self.val - rhs.0 <= i8::MAX }
    open spec fn sub_assign_spec(&self, rhs: Constant) -> &ri8 { &ri8 { val: (self.val - rhs.0) as i8 } }
}
impl core::ops::SubAssign<Constant> for ri8 {
    #[verifier::external_body]
    fn sub_assign(&mut self, rhs: Constant) { unimplemented!() }
}

impl MulSpecImpl<Constant> for ri8 {
    open spec fn obeys_mul_spec() -> bool { true }
    open spec fn mul_req(self, rhs: Constant) -> bool { i8::MIN <= self.val * rhs.0 <= i8::MAX }
    open spec fn mul_spec(self, rhs: Constant) -> ri8 { ri8 { val: (self.val * rhs.0) as i8 } }
}
impl core::ops::Mul<Constant> for ri8 {
    type Output = ri8;
    #[verifier::external_body]
    fn mul(self, rhs: Constant) -> ri8 { unimplemented!() }
}
impl MulAssignSpecImpl<Constant> for ri8 {
    open spec fn obeys_mul_assign_spec() -> bool { true }
    open spec fn mul_assign_req(&self, rhs: Constant) -> bool { i8::MIN <= self.val * rhs.0 <= i8::MAX }
    open spec fn mul_assign_spec(&self, rhs: Constant) -> &ri8 { &ri8 { val: (self.val * rhs.0) as i8 } }
}
impl core::ops::MulAssign<Constant> for ri8 {
    #[verifier::external_body]
    fn mul_assign(&mut self, rhs: Constant) { unimplemented!() }
}

impl DivSpecImpl<Constant> for ri8 {
    open spec fn obeys_div_spec() -> bool { true }
    open spec fn div_req(self, rhs: Constant) -> bool { rhs.0 > 0 }
    open spec fn div_spec(self, rhs: Constant) -> ri8 { ri8 { val: (self.val as int / rhs.0 as int) as i8 } }
}
impl core::ops::Div<Constant> for ri8 {
    type Output = ri8;
    #[verifier::external_body]
    fn div(self, rhs: Constant) -> ri8 { unimplemented!() }
}
impl RemSpecImpl<Constant> for ri8 {
    open spec fn obeys_rem_spec() -> bool { true }
    open spec fn rem_req(self, rhs: Constant) -> bool { rhs.0 > 0 }
    open spec fn rem_spec(self, rhs: Constant) -> ri8 { ri8 { val: (self.val as int % rhs.0 as int) as i8 } }
}
impl core::ops::Rem<Constant> for ri8 {
    type Output = ri8;
    #[verifier::external_body]
    fn rem(self, rhs: Constant) -> ri8 { unimplemented!() }
}

impl AddSpecImpl<ri16> for ri8 {
    open spec fn obeys_add_spec() -> bool { true }
    open spec fn add_req(self, rhs: ri16) -> bool { i8::MIN <= self.val + rhs.val <= i8::MAX }
    open spec fn add_spec(self, rhs: ri16) -> ri8 { ri8 { val: (self.val + rhs.val) as i8 } }
}
impl core::ops::Add<ri16> for ri8 {
    type Output = ri8;
    #[verifier::external_body]
    fn add(self, rhs: ri16) -> ri8 { unimplemented!() }
}
impl AddAssignSpecImpl<ri16> for ri8 {
    open spec fn obeys_add_assign_spec() -> bool { true }
    open spec fn add_assign_req(&self, rhs: ri16) -> bool { i8::MIN <= self.val + rhs.val <= i8::MAX }
    open spec fn add_assign_spec(&self, rhs: ri16) -> &ri8 { &ri8 { val: (self.val + rhs.val) as i8 } }
}
impl core::ops::AddAssign<ri16> for ri8 {
    #[verifier::external_body]
    fn add_assign(&mut self, rhs: ri16) { unimplemented!() }
}

impl SubSpecImpl<ri16> for ri8 {
    open spec fn obeys_sub_spec() -> bool { true }
    open spec fn sub_req(self, rhs: ri16) -> bool { i8::MIN <= self.val - rhs.val <= i8::MAX }
    open spec fn sub_spec(self, rhs: ri16) -> ri8 { ri8 { val: (self.val - rhs.val) as i8 } }
}
impl core::ops::Sub<ri16> for ri8 {
    type Output = ri8;
    #[verifier::external_body]
    fn sub(self, rhs: ri16) -> ri8 { unimplemented!() }
}
impl SubAssignSpecImpl<ri16> for ri8 {
    open spec fn obeys_sub_assign_spec() -> bool { true }
    open spec fn sub_assign_req(&self, rhs: ri16) -> bool { i8::MIN <= self.val - rhs.val <= i8::MAX }
    open spec fn sub_assign_spec(&self, rhs: ri16) -> &ri8 { &ri8 { val: (self.val - rhs.val) as i8 } }
}
impl core::ops::SubAssign<ri16> for ri8 {
    #[verifier::external_body]
    fn sub_assign(&mut self, rhs: ri16) { unimplemented!() }
}

impl MulSpecImpl<ri16> for ri8 {
    open spec fn obeys_mul_spec() -> bool { true }
    open spec fn mul_req(self, rhs: ri16) -> bool { i8::MIN <= self.val * rhs.val <= i8::MAX }
    open spec fn mul_spec(self, rhs: ri16) -> ri8 { ri8 { val: (self.val * rhs.val) as i8 } }
}
impl core::ops::Mul<ri16> for ri8 {
    type Output = ri8;
    #[verifier::external_body]
    fn mul(self, rhs: ri16) -> ri8 { unimplemented!() }
}
impl MulAssignSpecImpl<ri16> for ri8 {
    open spec fn obeys_mul_assign_spec() -> bool { true }
    open spec fn mul_assign_req(&self, rhs: ri16) -> bool { i8::MIN <= self.val * rhs.val <= i8::MAX }
    open spec fn mul_assign_spec(&self, rhs: ri16) -> &ri8 { &ri8 { val: (self.val * rhs.val) as i8 } }
}
impl core::ops::MulAssign<ri16> for ri8 {
    #[verifier::external_body]
    fn mul_assign(&mut self, rhs: ri16) { unimplemented!() }
}

impl DivSpecImpl<ri16> for ri8 {
    open spec fn obeys_div_spec() -> bool { true }
    open spec fn div_req(self, rhs: ri16) -> bool { rhs.val > 0 }
    open spec fn div_spec(self, rhs: ri16) -> ri8 { ri8 { val: (self.val as int / rhs.val as int) as i8 } }
}
impl core::ops::Div<ri16> for ri8 {
    type Output = ri8;
    #[verifier::external_body]
    fn div(self, rhs: ri16) -> ri8 { unimplemented!() }
}
impl RemSpecImpl<ri16> for ri8 {
    open spec fn obeys_rem_spec() -> bool { true }
    open spec fn rem_req(self, rhs: ri16) -> bool { rhs.val > 0 }
    open spec fn rem_spec(self, rhs: ri16) -> ri8 { ri8 { val: (self.val as int % rhs.val as int) as i8 } }
}
impl core::ops::Rem<ri16> for ri8 {
    type Output = ri8;
    #[verifier::external_body]
    fn rem(self, rhs: ri16) -> ri8 { unimplemented!() }
}

impl AddSpecImpl<ri32> for ri8 {
    open spec fn obeys_add_spec() -> bool { true }
    open spec fn add_req(self, rhs: ri32) -> bool { i8::MIN <= self.val + rhs.val <= i8::MAX }
    open spec fn add_spec(self, rhs: ri32) -> ri8 { ri8 { val: (self.val + rhs.val) as i8 } }
}
impl core::ops::Add<ri32> for ri8 {
    type Output = ri8;
    #[verifier::external_body]
    fn add(self, rhs: ri32) -> ri8 { unimplemented!() }
}
impl AddAssignSpecImpl<ri32> for ri8 {
    open spec fn obeys_add_assign_spec() -> bool { true }
    open spec fn add_assign_req(&self, rhs: ri32) -> bool { i8::MIN <= self.val + rhs.val <= i8::MAX }
    open spec fn add_assign_spec(&self, rhs: ri32) -> &ri8 { &ri8 { val: (self.val + rhs.val) as i8 } }
}
impl core::ops::AddAssign<ri32> for ri8 {
    #[verifier::external_body]
    fn add_assign(&mut self, rhs: ri32) { unimplemented!() }
}

impl SubSpecImpl<ri32> for ri8 {
    open spec fn obeys_sub_spec() -> bool { true }
    open spec fn sub_req(self, rhs: ri32) -> bool { i8::MIN <= self.val - rhs.val <= i8::MAX }
    open spec fn sub_spec(self, rhs: ri32) -> ri8 { ri8 { val: (self.val - rhs.val) as i8 } }
}
impl core::ops::Sub<ri32> for ri8 {
    type Output = ri8;
    #[verifier::external_body]
    fn sub(self, rhs: ri32) -> ri8 { unimplemented!() }
}
impl SubAssignSpecImpl<ri32> for ri8 {
    open spec fn obeys_sub_assign_spec() -> bool { true }
    open spec fn sub_assign_req(&self, rhs: ri32) -> bool { i8::MIN <= self.val - rhs.val <= i8::MAX }
    open spec fn sub_assign_spec(&self, rhs: ri32) -> &ri8 { &ri8 { val: (self.val - rhs.val) as i8 } }
}
impl core::ops::SubAssign<ri32> for ri8 {
    #[verifier::external_body]
    fn sub_assign(&mut self, rhs: ri32) { unimplemented!() }
}

impl MulSpecImpl<ri32> for ri8 {
    open spec fn obeys_mul_spec() -> bool { true }
    open spec fn mul_req(self, rhs: ri32) -> bool { i8::MIN <= self.val * rhs.val <= i8::MAX }
    open spec fn mul_spec(self, rhs: ri32) -> ri8 { ri8 { val: (self.val * rhs.val) as i8 } }
}
impl core::ops::Mul<ri32> for ri8 {
    type Output = ri8;
    #[verifier::external_body]
    fn mul(self, rhs: ri32) -> ri8 { unimplemented!() }
}
impl MulAssignSpecImpl<ri32> for ri8 {
    open spec fn obeys_mul_assign_spec() -> bool { true }
    open spec fn mul_assign_req(&self, rhs: ri32) -> bool { i8::MIN <= self.val * rhs.val <= i8::MAX }
    open spec fn mul_assign_spec(&self, rhs: ri32) -> &ri8 { &ri8 { val: (self.val * rhs.val) as i8 } }
}
impl core::ops::MulAssign<ri32> for ri8 {
    #[verifier::external_body]
    fn mul_assign(&mut self, rhs: ri32) { unimplemented!() }
}

impl DivSpecImpl<ri32> for ri8 {
    open spec fn obeys_div_spec() -> bool { true }
    open spec fn div_req(self, rhs: ri32) -> bool { rhs.val > 0 }
    open spec fn div_spec(self, rhs: ri32) -> ri8 { ri8 { val: (self.val as int / rhs.val as int) as i8 } }
}
impl core::ops::Div<ri32> for ri8 {
    type Output = ri8;
    #[verifier::external_body]
    fn div(self, rhs: ri32) -> ri8 { unimplemented!() }
}
impl RemSpecImpl<ri32> for ri8 {
    open spec fn obeys_rem_spec() -> bool { true }
    open spec fn rem_req(self, rhs: ri32) -> bool { rhs.val > 0 }
    open spec fn rem_spec(self, rhs: ri32) -> ri8 { ri8 { val: (self.val as int % rhs.val as int) as i8 } }
}
impl core::ops::Rem<ri32> for ri8 {
    type Output = ri8;
    #[verifier::external_body]
    fn rem(self, rhs: ri32) -> ri8 { unimplemented!() }
}

impl AddSpecImpl<ri64> for ri8 {
    open spec fn obeys_add_spec() -> bool { true }
    open spec fn add_req(self, rhs: ri64) -> bool { i8::MIN <= self.val + rhs.val <= i8::MAX }
    open spec fn add_spec(self, rhs: ri64) -> ri8 { ri8 { val: (self.val + rhs.val) as i8 } }
}
impl core::ops::Add<ri64> for ri8 {
    type Output = ri8;
    #[verifier::external_body]
    fn add(self, rhs: ri64) -> ri8 { unimplemented!() }
}
impl AddAssignSpecImpl<ri64> for ri8 {
    open spec fn obeys_add_assign_spec() -> bool { true }
    open spec fn add_assign_req(&self, rhs: ri64) -> bool { i8::MIN <= self.val + rhs.val <= i8::MAX }
    open spec fn add_assign_spec(&self, rhs: ri64) -> &ri8 { &ri8 { val: (self.val + rhs.val) as i8 } }
}
impl core::ops::AddAssign<ri64> for ri8 {
    #[verifier::external_body]
    fn add_assign(&mut self, rhs: ri64) { unimplemented!() }
}

impl SubSpecImpl<ri64> for ri8 {
    open spec fn obeys_sub_spec() -> bool { true }
    open spec fn sub_req(self, rhs: ri64) -> bool { i8::MIN <= self.val - rhs.val <= i8::MAX }
    open spec fn sub_spec(self, rhs: ri64) -> ri8 { ri8 { val: (self.val - rhs.val) as i8 } }
}
impl core::ops::Sub<ri64> for ri8 {
    type Output = ri8;
    #[verifier::external_body]
    fn sub(self, rhs: ri64) -> ri8 { unimplemented!() }
}
impl SubAssignSpecImpl<ri64> for ri8 {
    open spec fn obeys_sub_assign_spec() -> bool { true }
    open spec fn sub_assign_req(&self, rhs: ri64) -> bool { i8::MIN <= self.val - rhs.val <= i8::MAX }
    open spec fn sub_assign_spec(&self, rhs: ri64) -> &ri8 { &ri8 { val: (self.val - rhs.val) as i8 } }
}
impl core::ops::SubAssign<ri64> for ri8 {
    #[verifier::external_body]
    fn sub_assign(&mut self, rhs: ri64) { unimplemented!() }
}

impl MulSpecImpl<ri64> for ri8 {
    open spec fn obeys_mul_spec() -> bool { true }
    open spec fn mul_req(self, rhs: ri64) -> bool { i8::MIN <= self.val * rhs.val <= i8::MAX }
    open spec fn mul_spec(self, rhs: ri64) -> ri8 { ri8 { val: (self.val * rhs.val) as i8 } }
}
impl core::ops::Mul<ri64> for ri8 {
    type Output = ri8;
    #[verifier::external_body]
    fn mul(self, rhs: ri64) -> ri8 { unimplemented!() }
}
impl MulAssignSpecImpl<ri64> for ri8 {
    open spec fn obeys_mul_assign_spec() -> bool { true }
    open spec fn mul_assign_req(&self, rhs: ri64) -> bool { i8::MIN <= self.val * rhs.val <= i8::MAX }
    open spec fn mul_assign_spec(&self, rhs: ri64) -> &ri8 { &ri8 { val: (self.val * rhs.val) as i8 } }
}
impl core::ops::MulAssign<ri64> for ri8 {
    #[verifier::external_body]
    fn mul_assign(&mut self, rhs: ri64) { unimplemented!() }
}

impl DivSpecImpl<ri64> for ri8 {
    open spec fn obeys_div_spec() -> bool { true }
    open spec fn div_req(self, rhs: ri64) -> bool { rhs.val > 0 }
    open spec fn div_spec(self, rhs: ri64) -> ri8 { ri8 { val: (self.val as int / rhs.val as int) as i8 } }
}
impl core::ops::Div<ri64> for ri8 {
    type Output = ri8;
    #[verifier::external_body]
    fn div(self, rhs: ri64) -> ri8 { unimplemented!() }
}
impl RemSpecImpl<ri64> for ri8 {
    open spec fn obeys_rem_spec() -> bool { true }
    open spec fn rem_req(self, rhs: ri64) -> bool { rhs.val > 0 }
    open spec fn rem_spec(self, rhs: ri64) -> ri8 { ri8 { val: (self.val as int % rhs.val as int) as i8 } }
}
impl core::ops::Rem<ri64> for ri8 {
    type Output = ri8;
    #[verifier::external_body]
    fn rem(self, rhs: ri64) -> ri8 { unimplemented!() }
}

impl AddSpecImpl<ri128> for ri8 {
    open spec fn obeys_add_spec() -> bool { true }
    open spec fn add_req(self, rhs: ri128) -> bool { i8::MIN <= self.val + rhs.val <= i8::MAX }
    open spec fn add_spec(self, rhs: ri128) -> ri8 { ri8 { val: (self.val + rhs.val) as i8 } }
}
impl core::ops::Add<ri128> for ri8 {
    type Output = ri8;
    #[verifier::external_body]
    fn add(self, rhs: ri128) -> ri8 { unimplemented!() }
}
impl AddAssignSpecImpl<ri128> for ri8 {
    open spec fn obeys_add_assign_spec() -> bool { true }
    open spec fn add_assign_req(&self, rhs: ri128) -> bool { i8::MIN <= self.val + rhs.val <= i8::MAX }
    open spec fn add_assign_spec(&self, rhs: ri128) -> &ri8 { &ri8 { val: (self.val + rhs.val) as i8 } }
}
impl core::ops::AddAssign<ri128> for ri8 {
    #[verifier::external_body]
    fn add_assign(&mut self, rhs: ri128) { unimplemented!() }
}

impl SubSpecImpl<ri128> for ri8 {
    open spec fn obeys_sub_spec() -> bool { true }
    open spec fn sub_req(self, rhs: ri128) -> bool { i8::MIN <= self.val - rhs.val <= i8::MAX }
    open spec fn sub_spec(self, rhs: ri128) -> ri8 { ri8 { val: (self.val - rhs.val) as i8 } }
}
impl core::ops::Sub<ri128> for ri8 {
    type Output = ri8;
    #[verifier::external_body]
    fn sub(self, rhs: ri128) -> ri8 { unimplemented!() }
}
impl SubAssignSpecImpl<ri128> for ri8 {
    open spec fn obeys_sub_assign_spec() -> bool { true }
    open spec fn sub_assign_req(&self, rhs: ri128) -> bool { i8::MIN <= self.val - rhs.val <= i8::MAX }
    open spec fn sub_assign_spec(&self, rhs: ri128) -> &ri8 { &ri8 { val: (self.val - rhs.val) as i8 } }
}
impl core::ops::SubAssign<ri128> for ri8 {
    #[verifier::external_body]
    fn sub_assign(&mut self, rhs: ri128) { unimplemented!() }
}

impl MulSpecImpl<ri128> for ri8 {
    open spec fn obeys_mul_spec() -> bool { true }
    open spec fn mul_req(self, rhs: ri128) -> bool { i8::MIN <= self.val * rhs.val <= i8::MAX }
    open spec fn mul_spec(self, rhs: ri128) -> ri8 { ri8 { val: (self.val * rhs.val) as i8 } }
}
impl core::ops::Mul<ri128> for ri8 {
    type Output = ri8;
    #[verifier::external_body]
    fn mul(self, rhs: ri128) -> ri8 { unimplemented!() }
}
impl MulAssignSpecImpl<ri128> for ri8 {
    open spec fn obeys_mul_assign_spec() -> bool { true }
    open spec fn mul_assign_req(&self, rhs: ri128) -> bool { i8::MIN <= self.val * rhs.val <= i8::MAX }
    open spec fn mul_assign_spec(&self, rhs: ri128) -> &ri8 { &ri8 { val: (self.val * rhs.val) as i8 } }
}
impl core::ops::MulAssign<ri128> for ri8 {
    #[verifier::external_body]
    fn mul_assign(&mut self, rhs: ri128) { unimplemented!() }
}

impl DivSpecImpl<ri128> for ri8 {
    open spec fn obeys_div_spec() -> bool { true }
    open spec fn div_req(self, rhs: ri128) -> bool { rhs.val > 0 }
    open spec fn div_spec(self, rhs: ri128) -> ri8 { ri8 { val: (self.val as int / rhs.val as int) as i8 } }
}
impl core::ops::Div<ri128> for ri8 {
    type Output = ri8;
    #[verifier::external_body]
    fn div(self, rhs: ri128) -> ri8 { unimplemented!() }
}
impl RemSpecImpl<ri128> for ri8 {
    open spec fn obeys_rem_spec() -> bool { true }
    open spec fn rem_req(self, rhs: ri128) -> bool { rhs.val > 0 }
    open spec fn rem_spec(self, rhs: ri128) -> ri8 { ri8 { val: (self.val as int % rhs.val as int) as i8 } }
}
impl core::ops::Rem<ri128> for ri8 {
    type Output = ri8;
    #[verifier::external_body]
    fn rem(self, rhs: ri128) -> ri8 { unimplemented!() }
}

impl NegSpecImpl for ri8 {
    open spec fn obeys_neg_spec() -> bool { true }
    open spec fn neg_req(self) -> bool { self.val > i8::MIN }
    open spec fn neg_spec(self) -> ri8 { ri8 { val: (-self.val) as i8 } }
}
impl core::ops::Neg for ri8 {
    type Output = ri8;
    #[verifier::external_body]
    fn neg(self) -> ri8 { unimplemented!() }
}


// ------------------------------------------------------------------ ri16
#[derive(Clone, Copy)]
pub struct ri16 { pub val: i16 }
impl ri16 {
    pub fn new_unchecked(val: i16) -> (r: Self) ensures r.val == val { ri16 { val } }
    pub fn get(self) -> (r: i16) ensures r == self.val { self.val }
    pub fn get_unchecked(self) -> (r: i16) ensures r == self.val { self.val }
    pub fn without_bounds(self) -> (r: Self) ensures r == self { self }
    // `T::N::<VAL>()` is rewritten to `T::verif_N(VAL)`: the constant VAL (release: `Self { val: VAL }`, no bound is consulted).
    // (Not modelled with a const generic: Verus 0.2026.09.13 derives `false` from a negative const generic argument.)
    pub const fn verif_N(v: i16) -> (r: Self) ensures r.val == v { ri16 { val: v } }
    #[verifier::external_body]
    pub fn abs(self) -> (r: Self)
        requires self.val > i16::MIN,
        ensures r.val == (if self.val < 0 { -self.val } else { self.val as int })
    { unimplemented!() }
    // real: returns `riN<-1, 1>` of the SAME width
    pub fn signum(self) -> (r: Self) ensures r.val == (if self.val < 0 { -1int } else if self.val > 0 { 1int } else { 0int })
    { if self.val < 0 { ri16 { val: -1 } } else if self.val > 0 { ri16 { val: 1 } } else { ri16 { val: 0 } } }
    pub fn min<R: RInto<Self>>(self, other: R) -> (r: Self)
        requires other.rinto_req(),
        ensures r.val == (if other.rinto_spec().val < self.val { other.rinto_spec().val } else { self.val })
    { let o = other.rinto(); if o.val < self.val { o } else { self } }
    pub fn max<R: RInto<Self>>(self, other: R) -> (r: Self)
        requires other.rinto_req(),
        ensures r.val == (if other.rinto_spec().val > self.val { other.rinto_spec().val } else { self.val })
    { let o = other.rinto(); if o.val > self.val { o } else { self } }
    // truncating
    #[verifier::external_body]
    pub fn div_ceil<R: RInto<Self>>(self, rhs: R) -> (r: Self)
        requires rhs.rinto_req(), rhs.rinto_spec().val != 0, !(self.val == i16::MIN && rhs.rinto_spec().val == -1),
        ensures r.val == tdiv(self.val as int, rhs.rinto_spec().val as int)
    { unimplemented!() }
    #[verifier::external_body]
    pub fn rem_ceil<R: RInto<Self>>(self, rhs: R) -> (r: Self)
        requires rhs.rinto_req(), rhs.rinto_spec().val != 0, !(self.val == i16::MIN && rhs.rinto_spec().val == -1),
        ensures r.val == trem(self.val as int, rhs.rinto_spec().val as int)
    { unimplemented!() }
    // Euclidean (divisor > 0 required here; every use in jiff divides by a positive quantity)
    #[verifier::external_body]
    pub fn div_floor<R: RInto<Self>>(self, rhs: R) -> (r: Self)
        requires rhs.rinto_req(), rhs.rinto_spec().val > 0,
        ensures r.val == (self.val as int) / (rhs.rinto_spec().val as int)
    { unimplemented!() }
    #[verifier::external_body]
    pub fn rem_floor<R: RInto<Self>>(self, rhs: R) -> (r: Self)
        requires rhs.rinto_req(), rhs.rinto_spec().val > 0,
        ensures r.val == (self.val as int) % (rhs.rinto_spec().val as int)
    { unimplemented!() }
    #[verifier::external_body]
    pub fn saturating_mul<R: RInto<Self>>(self, rhs: R) -> (r: Self)
        requires rhs.rinto_req(),
        ensures i16::MIN <= self.val * rhs.rinto_spec().val <= i16::MAX ==> r.val == self.val * rhs.rinto_spec().val,
                self.val * rhs.rinto_spec().val > i16::MAX ==> r.val == i16::MAX,
                self.val * rhs.rinto_spec().val < i16::MIN ==> r.val == i16::MIN,
    { unimplemented!() }
    #[verifier::external_body]
    pub fn saturating_add<R: RInto<Self>>(self, rhs: R) -> (r: Self)
        requires rhs.rinto_req(),
        ensures i16::MIN <= self.val + rhs.rinto_spec().val <= i16::MAX ==> r.val == self.val + rhs.rinto_spec().val,
                self.val + rhs.rinto_spec().val > i16::MAX ==> r.val == i16::MAX,
                self.val + rhs.rinto_spec().val < i16::MIN ==> r.val == i16::MIN,
    { unimplemented!() }
}
// `type Range = ri16<{ LO }, { HI }>; Range::try_new("what", v)`: the bounds of an anonymous range are passed explicitly
#[verifier::external_body]
pub fn verif_try_new_range_16(lo: i128, hi: i128, v: i64) -> (res: Result<ri16, Error>)
    requires i16::MIN <= lo, hi <= i16::MAX,
    ensures res.is_ok() <==> lo <= v <= hi, res.is_ok() ==> res.unwrap().val == v
{ unimplemented!() }
impl RInto<ri16> for ri16 {
    open spec fn rinto_spec(self) -> ri16 { self }
    open spec fn rinto_req(self) -> bool { true }
    fn rinto(self) -> (r: ri16) { self }
}
impl RFrom<ri16> for ri16 {
    open spec fn rfrom_spec(t: ri16) -> ri16 { t }
    open spec fn rfrom_req(t: ri16) -> bool { true }
    fn rfrom(t: ri16) -> (r: ri16) { t }
}
impl RInto<ri16> for Constant {
    open spec fn rinto_spec(self) -> ri16 { ri16 { val: self.0 as i16 } }
    open spec fn rinto_req(self) -> bool { i16::MIN <= self.0 <= i16::MAX }
    #[verifier::external_body]
    fn rinto(self) -> (r: ri16) { unimplemented!() }
}
impl RFrom<Constant> for ri16 {
    open spec fn rfrom_spec(t: Constant) -> ri16 { ri16 { val: t.0 as i16 } }
    open spec fn rfrom_req(t: Constant) -> bool { i16::MIN <= t.0 <= i16::MAX }
    #[verifier::external_body]
    fn rfrom(t: Constant) -> (r: ri16) { unimplemented!() }
}
impl RInto<i16> for ri16 {
    open spec fn rinto_spec(self) -> i16 { self.val }
    open spec fn rinto_req(self) -> bool { true }
    fn rinto(self) -> (r: i16) { self.val }
}

impl PartialEqSpecImpl<ri16> for ri16 {
    open spec fn obeys_eq_spec() -> bool { true }
    open spec fn eq_spec(&self, other: &ri16) -> bool { self.val == other.val }
}
impl PartialEq<ri16> for ri16 {
    #[verifier::external_body]
    fn eq(&self, other: &ri16) -> bool { unimplemented!() }
}
impl PartialOrdSpecImpl<ri16> for ri16 {
    open spec fn obeys_partial_cmp_spec() -> bool { true }
    open spec fn partial_cmp_spec(&self, other: &ri16) -> Option<Ordering> { Some(int_cmp(self.val as int, other.val as int)) }
}
impl PartialOrd<ri16> for ri16 {
    #[verifier::external_body]
    fn partial_cmp(&self, other: &ri16) -> Option<Ordering> { unimplemented!() }
}

impl PartialEqSpecImpl<Constant> for ri16 {
    open spec fn obeys_eq_spec() -> bool { true }
    open spec fn eq_spec(&self, other: &Constant) -> bool { self.val == other.0 }
}
impl PartialEq<Constant> for ri16 {
    #[verifier::external_body]
    fn eq(&self, other: &Constant) -> bool { unimplemented!() }
}
impl PartialOrdSpecImpl<Constant> for ri16 {
    open spec fn obeys_partial_cmp_spec() -> bool { true }
    open spec fn partial_cmp_spec(&self, other: &Constant) -> Option<Ordering> { Some(int_cmp(self.val as int, other.0 as int)) }
}
impl PartialOrd<Constant> for ri16 {
    #[verifier::external_body]
    fn partial_cmp(&self, other: &Constant) -> Option<Ordering> { unimplemented!() }
}

impl PartialEqSpecImpl<ri8> for ri16 {
    open spec fn obeys_eq_spec() -> bool { true }
    open spec fn eq_spec(&self, other: &ri8) -> bool { self.val == other.val }
}
impl PartialEq<ri8> for ri16 {
    #[verifier::external_body]
    fn eq(&self, other: &ri8) -> bool { unimplemented!() }
}
impl PartialOrdSpecImpl<ri8> for ri16 {
    open spec fn obeys_partial_cmp_spec() -> bool { true }
    open spec fn partial_cmp_spec(&self, other: &ri8) -> Option<Ordering> { Some(int_cmp(self.val as int, other.val as int)) }
}
impl PartialOrd<ri8> for ri16 {
    #[verifier::external_body]
    fn partial_cmp(&self, other: &ri8) -> Option<Ordering> { unimplemented!() }
}

impl PartialEqSpecImpl<ri32> for ri16 {
    open spec fn obeys_eq_spec() -> bool { true }
    open spec fn eq_spec(&self, other: &ri32) -> bool { self.val == other.val }
}
impl PartialEq<ri32> for ri16 {
    #[verifier::external_body]
    fn eq(&self, other: &ri32) -> bool { unimplemented!() }
}
impl PartialOrdSpecImpl<ri32> for ri16 {
    open spec fn obeys_partial_cmp_spec() -> bool { true }
    open spec fn partial_cmp_spec(&self, other: &ri32) -> Option<Ordering> { Some(int_cmp(self.val as int, other.val as int)) }
}
impl PartialOrd<ri32> for ri16 {
    #[verifier::external_body]
    fn partial_cmp(&self, other: &ri32) -> Option<Ordering> { unimplemented!() }
}

impl PartialEqSpecImpl<ri64> for ri16 {
    open spec fn obeys_eq_spec() -> bool { true }
    open spec fn eq_spec(&self, other: &ri64) -> bool { self.val == other.val }
}
impl PartialEq<ri64> for ri16 {
    #[verifier::external_body]
    fn eq(&self, other: &ri64) -> bool { unimplemented!() }
}
impl PartialOrdSpecImpl<ri64> for ri16 {
    open spec fn obeys_partial_cmp_spec() -> bool { true }
    open spec fn partial_cmp_spec(&self, other: &ri64) -> Option<Ordering> { Some(int_cmp(self.val as int, other.val as int)) }
}
impl PartialOrd<ri64> for ri16 {
    #[verifier::external_body]
    fn partial_cmp(&self, other: &ri64) -> Option<Ordering> { unimplemented!() }
}

impl PartialEqSpecImpl<ri128> for ri16 {
    open spec fn obeys_eq_spec() -> bool { true }
    open spec fn eq_spec(&self, other: &ri128) -> bool { self.val == other.val }
}
impl PartialEq<ri128> for ri16 {
    #[verifier::external_body]
    fn eq(&self, other: &ri128) -> bool { unimplemented!() }
}
impl PartialOrdSpecImpl<ri128> for ri16 {
    open spec fn obeys_partial_cmp_spec() -> bool { true }
    open spec fn partial_cmp_spec(&self, other: &ri128) -> Option<Ordering> { Some(int_cmp(self.val as int, other.val as int)) }
}
impl PartialOrd<ri128> for ri16 {
    #[verifier::external_body]
    fn partial_cmp(&self, other: &ri128) -> Option<Ordering> { unimplemented!() }
}

impl AddSpecImpl<ri16> for ri16 {
    open spec fn obeys_add_spec() -> bool { true }
    open spec fn add_req(self, rhs: ri16) -> bool { i16::MIN <= self.val + rhs.val <= i16::MAX }
    open spec fn add_spec(self, rhs: ri16) -> ri16 { ri16 { val: (self.val + rhs.val) as i16 } }
}
impl core::ops::Add<ri16> for ri16 {
    type Output = ri16;
    #[verifier::external_body]
    fn add(self, rhs: ri16) -> ri16 { unimplemented!() }
}
impl AddAssignSpecImpl<ri16> for ri16 {
    open spec fn obeys_add_assign_spec() -> bool { true }
    open spec fn add_assign_req(&self, rhs: ri16) -> bool { i16::MIN <= self.val + rhs.val <= i16::MAX }
    open spec fn add_assign_spec(&self, rhs: ri16) -> &ri16 { &ri16 { val: (self.val + rhs.val) as i16 } }
}
impl core::ops::AddAssign<ri16> for ri16 {
    #[verifier::external_body]
    fn add_assign(&mut self, rhs: ri16) { unimplemented!() }
}

impl SubSpecImpl<ri16> for ri16 {
    open spec fn obeys_sub_spec() -> bool { true }
    open spec fn sub_req(self, rhs: ri16) -> bool { i16::MIN <= self.val - rhs.val <= i16::MAX }
    open spec fn sub_spec(self, rhs: ri16) -> ri16 { ri16 { val: (self.val - rhs.val) as i16 } }
}
impl core::ops::Sub<ri16> for ri16 {
    type Output = ri16;
    #[verifier::external_body]
    fn sub(self, rhs: ri16) -> ri16 { unimplemented!() }
}
impl SubAssignSpecImpl<ri16> for ri16 {
    open spec fn obeys_sub_assign_spec() -> bool { true }
    open spec fn sub_assign_req(&self, rhs: ri16) -> bool { i16::MIN <= self.val - rhs.val <= i16::MAX }
    open spec fn sub_assign_spec(&self, rhs: ri16) -> &ri16 { &ri16 { val: (self.val - rhs.val) as i16 } }
}
impl core::ops::SubAssign<ri16> for ri16 {
    #[verifier::external_body]
    fn sub_assign(&mut self, rhs: ri16) { unimplemented!() }
}

impl MulSpecImpl<ri16> for ri16 {
    open spec fn obeys_mul_spec() -> bool { true }
    open spec fn mul_req(self, rhs: ri16) -> bool { i16::MIN <= self.val * rhs.val <= i16::MAX }
    open spec fn mul_spec(self, rhs: ri16) -> ri16 { ri16 { val: (self.val * rhs.val) as i16 } }
}
impl core::ops::Mul<ri16> for ri16 {
    type Output = ri16;
    #[verifier::external_body]
    fn mul(self, rhs: ri16) -> ri16 { unimplemented!() }
}
impl MulAssignSpecImpl<ri16> for ri16 {
    open spec fn obeys_mul_assign_spec() -> bool { true }
    open spec fn mul_assign_req(&self, rhs: ri16) -> bool { i16::MIN <= self.val * rhs.val <= i16::MAX }
    open spec fn mul_assign_spec(&self, rhs: ri16) -> &ri16 { &ri16 { val: (self.val * rhs.val) as i16 } }
}
impl core::ops::MulAssign<ri16> for ri16 {
    #[verifier::external_body]
    fn mul_assign(&mut self, rhs: ri16) { unimplemented!() }
}

impl DivSpecImpl<ri16> for ri16 {
    open spec fn obeys_div_spec() -> bool { true }
    open spec fn div_req(self, rhs: ri16) -> bool { rhs.val > 0 }
    open spec fn div_spec(self, rhs: ri16) -> ri16 { ri16 { val: (self.val as int / rhs.val as int) as i16 } }
}
impl core::ops::Div<ri16> for ri16 {
    type Output = ri16;
    #[verifier::external_body]
    fn div(self, rhs: ri16) -> ri16 { unimplemented!() }
}
impl RemSpecImpl<ri16> for ri16 {
    open spec fn obeys_rem_spec() -> bool { true }
    open spec fn rem_req(self, rhs: ri16) -> bool { rhs.val > 0 }
    open spec fn rem_spec(self, rhs: ri16) -> ri16 { ri16 { val: (self.val as int % rhs.val as int) as i16 } }
}
impl core::ops::Rem<ri16> for ri16 {
    type Output = ri16;
    #[verifier::external_body]
    fn rem(self, rhs: ri16) -> ri16 { unimplemented!() }
}

impl AddSpecImpl<Constant> for ri16 {
    open spec fn obeys_add_spec() -> bool { true }
    open spec fn add_req(self, rhs: Constant) -> bool { i16::MIN <= self.val + rhs.0 <= i16::MAX }
    open spec fn add_spec(self, rhs: Constant) -> ri16 { ri16 { val: (self.val + rhs.0) as i16 } }
}
impl core::ops::Add<Constant> for ri16 {
    type Output = ri16;
    #[verifier::external_body]
    fn add(self, rhs: Constant) -> ri16 { unimplemented!() }
}
impl AddAssignSpecImpl<Constant> for ri16 {
    open spec fn obeys_add_assign_spec() -> bool { true }
    open spec fn add_assign_req(&self, rhs: Constant) -> bool { i16::MIN <= self.val + rhs.0 <= i16::MAX }
    open spec fn add_assign_spec(&self, rhs: Constant) -> &ri16 { &ri16 { val: (self.val + rhs.0) as i16 } }
}
impl core::ops::AddAssign<Constant> for ri16 {
    #[verifier::external_body]
    fn add_assign(&mut self, rhs: Constant) { unimplemented!() }
}

impl SubSpecImpl<Constant> for ri16 {
    open spec fn obeys_sub_spec() -> bool { true }
    open spec fn sub_req(self, rhs: Constant) -> bool { i16::MIN <= self.val - rhs.0 <= i16::MAX }
    open spec fn sub_spec(self, rhs: Constant) -> ri16 { ri16 { val: (self.val - rhs.0) as i16 } }
}
impl core::ops::Sub<Constant> for ri16 {
    type Output = ri16;
    #[verifier::external_body]
    fn sub(self, rhs: Constant) -> ri16 { unimplemented!() }
}
impl SubAssignSpecImpl<Constant> for ri16 {
    open spec fn obeys_sub_assign_spec() -> bool { true }
    open spec fn sub_assign_req(&self, rhs: Constant) -> bool { i16::MIN <= self.val - rhs.0 <= i16::MAX }
    open spec fn sub_assign_spec(&self, rhs: Constant) -> &ri16 { &ri16 { val: (self.val - rhs.0) as i16 } }
}
impl core::ops::SubAssign<Constant> for ri16 {
    #[verifier::external_body]
    fn sub_assign(&mut self, rhs: Constant) { unimplemented!() }
}

impl MulSpecImpl<Constant> for ri16 {
    open spec fn obeys_mul_spec() -> bool { true }
    open spec fn mul_req(self, rhs: Constant) -> bool { i16::MIN <= self.val * rhs.0 <= i16::MAX }
    open spec fn mul_spec(self, rhs: Constant) -> ri16 { ri16 { val: (self.val * rhs.0) as i16 } }
}
impl core::ops::Mul<Constant> for ri16 {
    type Output = ri16;
    #[verifier::external_body]
    fn mul(self, rhs: Constant) -> ri16 { unimplemented!() }
}
impl MulAssignSpecImpl<Constant> for ri16 {
    open spec fn obeys_mul_assign_spec() -> bool { true }
    open spec fn mul_assign_req(&self, rhs: Constant) -> bool { i16::MIN <= self.val * rhs.0 <= i16::MAX }
    open spec fn mul_assign_spec(&self, rhs: Constant) -> &ri16 { &ri16 { val: (self.val * rhs.0) as i16 } }
}
impl core::ops::MulAssign<Constant> for ri16 {
    #[verifier::external_body]
    fn mul_assign(&mut self, rhs: Constant) { unimplemented!() }
}

impl DivSpecImpl<Constant> for ri16 {
    open spec fn obeys_div_spec() -> bool { true }
    open spec fn div_req(self, rhs: Constant) -> bool { rhs.0 > 0 }
    open spec fn div_spec(self, rhs: Constant) -> ri16 { ri16 { val: (self.val as int / rhs.0 as int) as i16 } }
}
impl core::ops::Div<Constant> for ri16 {
    type Output = ri16;
    #[verifier::external_body]
    fn div(self, rhs: Constant) -> ri16 { unimplemented!() }
}
impl RemSpecImpl<Constant> for ri16 {
    open spec fn obeys_rem_spec() -> bool { true }
    open spec fn rem_req(self, rhs: Constant) -> bool { rhs.0 > 0 }
    open spec fn rem_spec(self, rhs: Constant) -> ri16 { ri16 { val: (self.val as int % rhs.0 as int) as i16 } }
}
impl core::ops::Rem<Constant> for ri16 {
    type Output = ri16;
    #[verifier::external_body]
    fn rem(self, rhs: Constant) -> ri16 { unimplemented!() }
}

impl AddSpecImpl<ri8> for ri16 {
    open spec fn obeys_add_spec() -> bool { true }
    open spec fn add_req(self, rhs: ri8) -> bool { i16::MIN <= self.val + rhs.val <= i16::MAX }
    open spec fn add_spec(self, rhs: ri8) -> ri16 { ri16 { val: (self.val + rhs.val) as i16 } }
}
impl core::ops::Add<ri8> for ri16 {
    type Output = ri16;
    #[verifier::external_body]
    fn add(self, rhs: ri8) -> ri16 { unimplemented!() }
}
impl AddAssignSpecImpl<ri8> for ri16 {
    open spec fn obeys_add_assign_spec() -> bool { true }
    open spec fn add_assign_req(&self, rhs: ri8) -> bool { i16::MIN <= self.val + rhs.val <= i16::MAX }
    open spec fn add_assign_spec(&self, rhs: ri8) -> &ri16 { &ri16 { val: (self.val + rhs.val) as i16 } }
}
impl core::ops::AddAssign<ri8> for ri16 {
    #[verifier::external_body]
    fn add_assign(&mut self, rhs: ri8) { unimplemented!() }
}

impl SubSpecImpl<ri8> for ri16 {
    open spec fn obeys_sub_spec() -> bool { true }
    open spec fn sub_req(self, rhs: ri8) -> bool { i16::MIN <= self.val - rhs.val <= i16::MAX }
    open spec fn sub_spec(self, rhs: ri8) -> ri16 { ri16 { val: (self.val - rhs.val) as i16 } }
}
impl core::ops::Sub<ri8> for ri16 {
    type Output = ri16;
    #[verifier::external_body]
    fn sub(self, rhs: ri8) -> ri16 { unimplemented!() }
}
impl SubAssignSpecImpl<ri8> for ri16 {
    open spec fn obeys_sub_assign_spec() -> bool { true }
    open spec fn sub_assign_req(&self, rhs: ri8) -> bool { i16::MIN <= self.val - rhs.val <= i16::MAX }
    open spec fn sub_assign_spec(&self, rhs: ri8) -> &ri16 { &ri16 { val: (self.val - rhs.val) as i16 } }
}
impl core::ops::SubAssign<ri8> for ri16 {
    #[verifier::external_body]
    fn sub_assign(&mut self, rhs: ri8) { unimplemented!() }
}

impl MulSpecImpl<ri8> for ri16 {
    open spec fn obeys_mul_spec() -> bool { true }
    open spec fn mul_req(self, rhs: ri8) -> bool { i16::MIN <= self.val * rhs.val <= i16::MAX }
    open spec fn mul_spec(self, rhs: ri8) -> ri16 { ri16 { val: (self.val * rhs.val) as i16 } }
}
impl core::ops::Mul<ri8> for ri16 {
    type Output = ri16;
    #[verifier::external_body]
    fn mul(self, rhs: ri8) -> ri16 { unimplemented!() }
}
impl MulAssignSpecImpl<ri8> for ri16 {
    open spec fn obeys_mul_assign_spec() -> bool { true }
    open spec fn mul_assign_req(&self, rhs: ri8) -> bool { i16::MIN <= self.val * rhs.val <= i16::MAX }
    open spec fn mul_assign_spec(&self, rhs: ri8) -> &ri16 { &ri16 { val: (self.val * rhs.val) as i16 } }
}
impl core::ops::MulAssign<ri8> for ri16 {
    #[verifier::external_body]
    fn mul_assign(&mut self, rhs: ri8) { unimplemented!() }
}

impl DivSpecImpl<ri8> for ri16 {
    open spec fn obeys_div_spec() -> bool { true }
    open spec fn div_req(self, rhs: ri8) -> bool { rhs.val > 0 }
    open spec fn div_spec(self, rhs: ri8) -> ri16 { ri16 { val: (self.val as int / rhs.val as int) as i16 } }
}
impl core::ops::Div<ri8> for ri16 {
    type Output = ri16;
    #[verifier::external_body]
    fn div(self, rhs: ri8) -> ri16 { unimplemented!() }
}
impl RemSpecImpl<ri8> for ri16 {
    open spec fn obeys_rem_spec() -> bool { true }
    open spec fn rem_req(self, rhs: ri8) -> bool { rhs.val > 0 }
    open spec fn rem_spec(self, rhs: ri8) -> ri16 { ri16 { val: (self.val as int % rhs.val as int) as i16 } }
}
impl core::ops::Rem<ri8> for ri16 {
    type Output = ri16;
    #[verifier::external_body]
    fn rem(self, rhs: ri8) -> ri16 { unimplemented!() }
}

impl AddSpecImpl<ri32> for ri16 {
    open spec fn obeys_add_spec() -> bool { true }
    open spec fn add_req(self, rhs: ri32) -> bool { i16::MIN <= self.val + rhs.val <= i16::MAX }
    open spec fn add_spec(self, rhs: ri32) -> ri16 { ri16 { val: (self.val + rhs.val) as i16 } }
}
impl core::ops::Add<ri32> for ri16 {
    type Output = ri16;
    #[verifier::external_body]
    fn add(self, rhs: ri32) -> ri16 { unimplemented!() }
}
impl AddAssignSpecImpl<ri32> for ri16 {
    open spec fn obeys_add_assign_spec() -> bool { true }
    open spec fn add_assign_req(&self, rhs: ri32) -> bool { i16::MIN <= self.val + rhs.val <= i16::MAX }
    open spec fn add_assign_spec(&self, rhs: ri32) -> &ri16 { &ri16 { val: (self.val + rhs.val) as i16 } }
}
impl core::ops::AddAssign<ri32> for ri16 {
    #[verifier::external_body]
    fn add_assign(&mut self, rhs: ri32) { unimplemented!() }
}

impl SubSpecImpl<ri32> for ri16 {
    open spec fn obeys_sub_spec() -> bool { true }
    open spec fn sub_req(self, rhs: ri32) -> bool { i16::MIN <= self.val - rhs.val <= i16::MAX }
    open spec fn sub_spec(self, rhs: ri32) -> ri16 { ri16 { val: (self.val - rhs.val) as i16 } }
}
impl core::ops::Sub<ri32> for ri16 {
    type Output = ri16;
    #[verifier::external_body]
    fn sub(self, rhs: ri32) -> ri16 { unimplemented!() }
}
impl SubAssignSpecImpl<ri32> for ri16 {
    open spec fn obeys_sub_assign_spec() -> bool { true }
    open spec fn sub_assign_req(&self, rhs: ri32) -> bool { i16::MIN <= self.val - rhs.val <= i16::MAX }
    open spec fn sub_assign_spec(&self, rhs: ri32) -> &ri16 { &ri16 { val: (self.val - rhs.val) as i16 } }
}
impl core::ops::SubAssign<ri32> for ri16 {
    #[verifier::external_body]
    fn sub_assign(&mut self, rhs: ri32) { unimplemented!() }
}

impl MulSpecImpl<ri32> for ri16 {
    open spec fn obeys_mul_spec() -> bool { true }
    open spec fn mul_req(self, rhs: ri32) -> bool { i16::MIN <= self.val * rhs.val <= i16::MAX }
    open spec fn mul_spec(self, rhs: ri32) -> ri16 { ri16 { val: (self.val * rhs.val) as i16 } }
}
impl core::ops::Mul<ri32> for ri16 {
    type Output = ri16;
    #[verifier::external_body]
    fn mul(self, rhs: ri32) -> ri16 { unimplemented!() }
}
impl MulAssignSpecImpl<ri32> for ri16 {
    open spec fn obeys_mul_assign_spec() -> bool { true }
    open spec fn mul_assign_req(&self, rhs: ri32) -> bool { i16::MIN <= self.val * rhs.val <= i16::MAX }
    open spec fn mul_assign_spec(&self, rhs: ri32) -> &ri16 { &ri16 { val: (self.val * rhs.val) as i16 } }
}
impl core::ops::MulAssign<ri32> for ri16 {
    #[verifier::external_body]
    fn mul_assign(&mut self, rhs: ri32) { unimplemented!() }
}

impl DivSpecImpl<ri32> for ri16 {
    open spec fn obeys_div_spec() -> bool { true }
    open spec fn div_req(self, rhs: ri32) -> bool { rhs.val > 0 }
    open spec fn div_spec(self, rhs: ri32) -> ri16 { ri16 { val: (self.val as int / rhs.val as int) as i16 } }
}
impl core::ops::Div<ri32> for ri16 {
    type Output = ri16;
    #[verifier::external_body]
    fn div(self, rhs: ri32) -> ri16 { unimplemented!() }
}
impl RemSpecImpl<ri32> for ri16 {
    open spec fn obeys_rem_spec() -> bool { true }
    open spec fn rem_req(self, rhs: ri32) -> bool { rhs.val > 0 }
    open spec fn rem_spec(self, rhs: ri32) -> ri16 { ri16 { val: (self.val as int % rhs.val as int) as i16 } }
}
impl core::ops::Rem<ri32> for ri16 {
    type Output = ri16;
    #[verifier::external_body]
    fn rem(self, rhs: ri32) -> ri16 { unimplemented!() }
}

impl AddSpecImpl<ri64> for ri16 {
    open spec fn obeys_add_spec() -> bool { true }
    open spec fn add_req(self, rhs: ri64) -> bool { i16::MIN <= self.val + rhs.val <= i16::MAX }
    open spec fn add_spec(self, rhs: ri64) -> ri16 { ri16 { val: (self.val + rhs.val) as i16 } }
}
impl core::ops::Add<ri64> for ri16 {
    type Output = ri16;
    #[verifier::external_body]
    fn add(self, rhs: ri64) -> ri16 { unimplemented!() }
}
impl AddAssignSpecImpl<ri64> for ri16 {
    open spec fn obeys_add_assign_spec() -> bool { true }
    open spec fn add_assign_req(&self, rhs: ri64) -> bool { i16::MIN <= self.val + rhs.val <= i16::MAX }
    open spec fn add_assign_spec(&self, rhs: ri64) -> &ri16 { &ri16 { val: (self.val + rhs.val) as i16 } }
}
impl core::ops::AddAssign<ri64> for ri16 {
    #[verifier::external_body]
    fn add_assign(&mut self, rhs: ri64) { unimplemented!() }
}

impl SubSpecImpl<ri64> for ri16 {
    open spec fn obeys_sub_spec() -> bool { true }
    open spec fn sub_req(self, rhs: ri64) -> bool { i16::MIN <= self.val - rhs.val <= i16::MAX }
    open spec fn sub_spec(self, rhs: ri64) -> ri16 { ri16 { val: (self.val - rhs.val) as i16 } }
}
impl core::ops::Sub<ri64> for ri16 {
    type Output = ri16;
    #[verifier::external_body]
    fn sub(self, rhs: ri64) -> ri16 { unimplemented!() }
}
impl SubAssignSpecImpl<ri64> for ri16 {
    open spec fn obeys_sub_assign_spec() -> bool { true }
    open spec fn sub_assign_req(&self, rhs: ri64) -> bool { i16::MIN <= self.val - rhs.val <= i16::MAX }
    open spec fn sub_assign_spec(&self, rhs: ri64) -> &ri16 { &ri16 { val: (self.val - rhs.val) as i16 } }
}
impl core::ops::SubAssign<ri64> for ri16 {
    #[verifier::external_body]
    fn sub_assign(&mut self, rhs: ri64) { unimplemented!() }
}

impl MulSpecImpl<ri64> for ri16 {
    open spec fn obeys_mul_spec() -> bool { true }
    open spec fn mul_req(self, rhs: ri64) -> bool { i16::MIN <= self.val * rhs.val <= i16::MAX }
    open spec fn mul_spec(self, rhs: ri64) -> ri16 { ri16 { val: (self.val * rhs.val) as i16 } }
}
impl core::ops::Mul<ri64> for ri16 {
    type Output = ri16;
    #[verifier::external_body]
    fn mul(self, rhs: ri64) -> ri16 { unimplemented!() }
}
impl MulAssignSpecImpl<ri64> for ri16 {
    open spec fn obeys_mul_assign_spec() -> bool { true }
    open spec fn mul_assign_req(&self, rhs: ri64) -> bool { i16::MIN <= self.val * rhs.val <= i16::MAX }
    open spec fn mul_assign_spec(&self, rhs: ri64) -> &ri16 { &ri16 { val: (self.val * rhs.val) as i16 } }
}
impl core::ops::MulAssign<ri64> for ri16 {
    #[verifier::external_body]
    fn mul_assign(&mut self, rhs: ri64) { unimplemented!() }
}

impl DivSpecImpl<ri64> for ri16 {
    open spec fn obeys_div_spec() -> bool { true }
    open spec fn div_req(self, rhs: ri64) -> bool { rhs.val > 0 }
    open spec fn div_spec(self, rhs: ri64) -> ri16 { ri16 { val: (self.val as int / rhs.val as int) as i16 } }
}
impl core::ops::Div<ri64> for ri16 {
    type Output = ri16;
    #[verifier::external_body]
    fn div(self, rhs: ri64) -> ri16 { unimplemented!() }
}
impl RemSpecImpl<ri64> for ri16 {
    open spec fn obeys_rem_spec() -> bool { true }
    open spec fn rem_req(self, rhs: ri64) -> bool { rhs.val > 0 }
    open spec fn rem_spec(self, rhs: ri64) -> ri16 { ri16 { val: (self.val as int % rhs.val as int) as i16 } }
}
impl core::ops::Rem<ri64> for ri16 {
    type Output = ri16;
    #[verifier::external_body]
    fn rem(self, rhs: ri64) -> ri16 { unimplemented!() }
}

impl AddSpecImpl<ri128> for ri16 {
    open spec fn obeys_add_spec() -> bool { true }
    open spec fn add_req(self, rhs: ri128) -> bool { i16::MIN <= self.val + rhs.val <= i16::MAX }
    open spec fn add_spec(self, rhs: ri128) -> ri16 { ri16 { val: (self.val + rhs.val) as i16 } }
}
impl core::ops::Add<ri128> for ri16 {
    type Output = ri16;
    #[verifier::external_body]
    fn add(self, rhs: ri128) -> ri16 { unimplemented!() }
}
impl AddAssignSpecImpl<ri128> for ri16 {
    open spec fn obeys_add_assign_spec() -> bool { true }
    open spec fn add_assign_req(&self, rhs: ri128) -> bool { i16::MIN <= self.val + rhs.val <= i16::MAX }
    open spec fn add_assign_spec(&self, rhs: ri128) -> &ri16 { &ri16 { val: (self.val + rhs.val) as i16 } }
}
impl core::ops::AddAssign<ri128> for ri16 {
    #[verifier::external_body]
    fn add_assign(&mut self, rhs: ri128) { unimplemented!() }
}

impl SubSpecImpl<ri128> for ri16 {
    open spec fn obeys_sub_spec() -> bool { true }
    open spec fn sub_req(self, rhs: ri128) -> bool { i16::MIN <= self.val - rhs.val <= i16::MAX }
    open spec fn sub_spec(self, rhs: ri128) -> ri16 { ri16 { val: (self.val - rhs.val) as i16 } }
}
impl core::ops::Sub<ri128> for ri16 {
    type Output = ri16;
    #[verifier::external_body]
    fn sub(self, rhs: ri128) -> ri16 { unimplemented!() }
}
impl SubAssignSpecImpl<ri128> for ri16 {
    open spec fn obeys_sub_assign_spec() -> bool { true }
    open spec fn sub_assign_req(&self, rhs: ri128) -> bool { i16::MIN <= self.val - rhs.val <= i16::MAX }
    open spec fn sub_assign_spec(&self, rhs: ri128) -> &ri16 { &ri16 { val: (self.val - rhs.val) as i16 } }
}
impl core::ops::SubAssign<ri128> for ri16 {
    #[verifier::external_body]
    fn sub_assign(&mut self, rhs: ri128) { unimplemented!() }
}

impl MulSpecImpl<ri128> for ri16 {
    open spec fn obeys_mul_spec() -> bool { true }
    open spec fn mul_req(self, rhs: ri128) -> bool { i16::MIN <= self.val * rhs.val <= i16::MAX }
    open spec fn mul_spec(self, rhs: ri128) -> ri16 { ri16 { val: (self.val * rhs.val) as i16 } }
}
impl core::ops::Mul<ri128> for ri16 {
    type Output = ri16;
    #[verifier::external_body]
    fn mul(self, rhs: ri128) -> ri16 { unimplemented!() }
}
impl MulAssignSpecImpl<ri128> for ri16 {
    open spec fn obeys_mul_assign_spec() -> bool { true }
    open spec fn mul_assign_req(&self, rhs: ri128) -> bool { i16::MIN <= self.val * rhs.val <= i16::MAX }
    open spec fn mul_assign_spec(&self, rhs: ri128) -> &ri16 { &ri16 { val: (self.val * rhs.val) as i16 } }
}
impl core::ops::MulAssign<ri128> for ri16 {
    #[verifier::external_body]
    fn mul_assign(&mut self, rhs: ri128) { unimplemented!() }
}

impl DivSpecImpl<ri128> for ri16 {
    open spec fn obeys_div_spec() -> bool { true }
    open spec fn div_req(self, rhs: ri128) -> bool { rhs.val > 0 }
    open spec fn div_spec(self, rhs: ri128) -> ri16 { ri16 { val: (self.val as int / rhs.val as int) as i16 } }
}
impl core::ops::Div<ri128> for ri16 {
    type Output = ri16;
    #[verifier::external_body]
    fn div(self, rhs: ri128) -> ri16 { unimplemented!() }
}
impl RemSpecImpl<ri128> for ri16 {
    open spec fn obeys_rem_spec() -> bool { true }
    open spec fn rem_req(self, rhs: ri128) -> bool { rhs.val > 0 }
    open spec fn rem_spec(self, rhs: ri128) -> ri16 { ri16 { val: (self.val as int % rhs.val as int) as i16 } }
}
impl core::ops::Rem<ri128> for ri16 {
    type Output = ri16;
    #[verifier::external_body]
    fn rem(self, rhs: ri128) -> ri16 { unimplemented!() }
}

impl NegSpecImpl for ri16 {
    open spec fn obeys_neg_spec() -> bool { true }
    open spec fn neg_req(self) -> bool { self.val > i16::MIN }
    open spec fn neg_spec(self) -> ri16 { ri16 { val: (-self.val) as i16 } }
}
impl core::ops::Neg for ri16 {
    type Output = ri16;
    #[verifier::external_body]
    fn neg(self) -> ri16 { unimplemented!() }
}


// ------------------------------------------------------------------ ri32
#[derive(Clone, Copy)]
pub struct ri32 { pub val: i32 }
impl ri32 {
    pub fn new_unchecked(val: i32) -> (r: Self) ensures r.val == val { ri32 { val } }
    pub fn get(self) -> (r: i32) ensures r == self.val { self.val }
    pub fn get_unchecked(self) -> (r: i32) ensures r == self.val { self.val }
    pub fn without_bounds(self) -> (r: Self) ensures r == self { self }
    // `T::N::<VAL>()` is rewritten to `T::verif_N(VAL)`: the constant VAL (release: `Self { val: VAL }`, no bound is consulted).
    // (Not modelled with a const generic: Verus 0.2026.09.13 derives `false` from a negative const generic argument.)
    pub const fn verif_N(v: i32) -> (r: Self) ensures r.val == v { ri32 { val: v } }
    #[verifier::external_body]
    pub fn abs(self) -> (r: Self)
        requires self.val > i32::MIN,
        ensures r.val == (if self.val < 0 { -self.val } else { self.val as int })
    { unimplemented!() }
    // real: returns `riN<-1, 1>` of the SAME width
    pub fn signum(self) -> (r: Self) ensures r.val == (if self.val < 0 { -1int } else if self.val > 0 { 1int } else { 0int })
    { if self.val < 0 { ri32 { val: -1 } } else if self.val > 0 { ri32 { val: 1 } } else { ri32 { val: 0 } } }
    pub fn min<R: RInto<Self>>(self, other: R) -> (r: Self)
        requires other.rinto_req(),
        ensures r.val == (if other.rinto_spec().val < self.val { other.rinto_spec().val } else { self.val })
    { let o = other.rinto(); if o.val < self.val { o } else { self } }
    pub fn max<R: RInto<Self>>(self, other: R) -> (r: Self)
        requires other.rinto_req(),
        ensures r.val == (if other.rinto_spec().val > self.val { other.rinto_spec().val } else { self.val })
    { let o = other.rinto(); if o.val > self.val { o } else { self } }
    // truncating
    #[verifier::external_body]
    pub fn div_ceil<R: RInto<Self>>(self, rhs: R) -> (r: Self)
        requires rhs.rinto_req(), rhs.rinto_spec().val != 0, !(self.val == i32::MIN && rhs.rinto_spec().val == -1),
        ensures r.val == tdiv(self.val as int, rhs.rinto_spec().val as int)
    { unimplemented!() }
    #[verifier::external_body]
    pub fn rem_ceil<R: RInto<Self>>(self, rhs: R) -> (r: Self)
        requires rhs.rinto_req(), rhs.rinto_spec().val != 0, !(self.val == i32::MIN && rhs.rinto_spec().val == -1),
        ensures r.val == trem(self.val as int, rhs.rinto_spec().val as int)
    { unimplemented!() }
    // Euclidean (divisor > 0 required here; every use in jiff divides by a positive quantity)
    #[verifier::external_body]
    pub fn div_floor<R: RInto<Self>>(self, rhs: R) -> (r: Self)
        requires rhs.rinto_req(), rhs.rinto_spec().val > 0,
        ensures r.val == (self.val as int) / (rhs.rinto_spec().val as int)
    { unimplemented!() }
    #[verifier::external_body]
    pub fn rem_floor<R: RInto<Self>>(self, rhs: R) -> (r: Self)
        requires rhs.rinto_req(), rhs.rinto_spec().val > 0,
        ensures r.val == (self.val as int) % (rhs.rinto_spec().val as int)
    { unimplemented!() }
    #[verifier::external_body]
    pub fn saturating_mul<R: RInto<Self>>(self, rhs: R) -> (r: Self)
        requires rhs.rinto_req(),
        ensures i32::MIN <= self.val * rhs.rinto_spec().val <= i32::MAX ==> r.val == self.val * rhs.rinto_spec().val,
                self.val * rhs.rinto_spec().val > i32::MAX ==> r.val == i32::MAX,
                self.val * rhs.rinto_spec().val < i32::MIN ==> r.val == i32::MIN,
    { unimplemented!() }
    #[verifier::external_body]
    pub fn saturating_add<R: RInto<Self>>(self, rhs: R) -> (r: Self)
        requires rhs.rinto_req(),
        ensures i32::MIN <= self.val + rhs.rinto_spec().val <= i32::MAX ==> r.val == self.val + rhs.rinto_spec().val,
                self.val + rhs.rinto_spec().val > i32::MAX ==> r.val == i32::MAX,
                self.val + rhs.rinto_spec().val < i32::MIN ==> r.val == i32::MIN,
    { unimplemented!() }
}
// `type Range = ri32<{ LO }, { HI }>; Range::try_new("what", v)`: the bounds of an anonymous range are passed explicitly
#[verifier::external_body]
pub fn verif_try_new_range_32(lo: i128, hi: i128, v: i64) -> (res: Result<ri32, Error>)
    requires i32::MIN <= lo, hi <= i32::MAX,
    ensures res.is_ok() <==> lo <= v <= hi, res.is_ok() ==> res.unwrap().val == v
{ unimplemented!() }
impl RInto<ri32> for ri32 {
    open spec fn rinto_spec(self) -> ri32 { self }
    open spec fn rinto_req(self) -> bool { true }
    fn rinto(self) -> (r: ri32) { self }
}
impl RFrom<ri32> for ri32 {
    open spec fn rfrom_spec(t: ri32) -> ri32 { t }
    open spec fn rfrom_req(t: ri32) -> bool { true }
    fn rfrom(t: ri32) -> (r: ri32) { t }
}
impl RInto<ri32> for Constant {
    open spec fn rinto_spec(self) -> ri32 { ri32 { val: self.0 as i32 } }
    open spec fn rinto_req(self) -> bool { i32::MIN <= self.0 <= i32::MAX }
    #[verifier::external_body]
    fn rinto(self) -> (r: ri32) { unimplemented!() }
}
impl RFrom<Constant> for ri32 {
    open spec fn rfrom_spec(t: Constant) -> ri32 { ri32 { val: t.0 as i32 } }
    open spec fn rfrom_req(t: Constant) -> bool { i32::MIN <= t.0 <= i32::MAX }
    #[verifier::external_body]
    fn rfrom(t: Constant) -> (r: ri32) { unimplemented!() }
}
impl RInto<i32> for ri32 {
    open spec fn rinto_spec(self) -> i32 { self.val }
    open spec fn rinto_req(self) -> bool { true }
    fn rinto(self) -> (r: i32) { self.val }
}

impl PartialEqSpecImpl<ri32> for ri32 {
    open spec fn obeys_eq_spec() -> bool { true }
    open spec fn eq_spec(&self, other: &ri32) -> bool { self.val == other.val }
}
impl PartialEq<ri32> for ri32 {
    #[verifier::external_body]
    fn eq(&self, other: &ri32) -> bool { unimplemented!() }
}
impl PartialOrdSpecImpl<ri32> for ri32 {
    open spec fn obeys_partial_cmp_spec() -> bool { true }
    open spec fn partial_cmp_spec(&self, other: &ri32) -> Option<Ordering> { Some(int_cmp(self.val as int, other.val as int)) }
}
impl PartialOrd<ri32> for ri32 {
    #[verifier::external_body]
    fn partial_cmp(&self, other: &ri32) -> Option<Ordering> { unimplemented!() }
}

impl PartialEqSpecImpl<Constant> for ri32 {
    open spec fn obeys_eq_spec() -> bool { true }
    open spec fn eq_spec(&self, other: &Constant) -> bool { self.val == other.0 }
}
impl PartialEq<Constant> for ri32 {
    #[verifier::external_body]
    fn eq(&self, other: &Constant) -> bool { unimplemented!() }
}
impl PartialOrdSpecImpl<Constant> for ri32 {
    open spec fn obeys_partial_cmp_spec() -> bool { true }
    open spec fn partial_cmp_spec(&self, other: &Constant) -> Option<Ordering> { Some(int_cmp(self.val as int, other.0 as int)) }
}
impl PartialOrd<Constant> for ri32 {
    #[verifier::external_body]
    fn partial_cmp(&self, other: &Constant) -> Option<Ordering> { unimplemented!() }
}

impl PartialEqSpecImpl<ri8> for ri32 {
    open spec fn obeys_eq_spec() -> bool { true }
    open spec fn eq_spec(&self, other: &ri8) -> bool { self.val == other.val }
}
impl PartialEq<ri8> for ri32 {
    #[verifier::external_body]
    fn eq(&self, other: &ri8) -> bool { unimplemented!() }
}
impl PartialOrdSpecImpl<ri8> for ri32 {
    open spec fn obeys_partial_cmp_spec() -> bool { true }
    open spec fn partial_cmp_spec(&self, other: &ri8) -> Option<Ordering> { Some(int_cmp(self.val as int, other.val as int)) }
}
impl PartialOrd<ri8> for ri32 {
    #[verifier::external_body]
    fn partial_cmp(&self, other: &ri8) -> Option<Ordering> { unimplemented!() }
}

impl PartialEqSpecImpl<ri16> for ri32 {
    open spec fn obeys_eq_spec() -> bool { true }
    open spec fn eq_spec(&self, other: &ri16) -> bool { self.val == other.val }
}
impl PartialEq<ri16> for ri32 {
    #[verifier::external_body]
    fn eq(&self, other: &ri16) -> bool { unimplemented!() }
}
impl PartialOrdSpecImpl<ri16> for ri32 {
    open spec fn obeys_partial_cmp_spec() -> bool { true }
    open spec fn partial_cmp_spec(&self, other: &ri16) -> Option<Ordering> { Some(int_cmp(self.val as int, other.val as int)) }
}
impl PartialOrd<ri16> for ri32 {
    #[verifier::external_body]
    fn partial_cmp(&self, other: &ri16) -> Option<Ordering> { unimplemented!() }
}

impl PartialEqSpecImpl<ri64> for ri32 {
    open spec fn obeys_eq_spec() -> bool { true }
    open spec fn eq_spec(&self, other: &ri64) -> bool { self.val == other.val }
}
impl PartialEq<ri64> for ri32 {
    #[verifier::external_body]
    fn eq(&self, other: &ri64) -> bool { unimplemented!() }
}
impl PartialOrdSpecImpl<ri64> for ri32 {
    open spec fn obeys_partial_cmp_spec() -> bool { true }
    open spec fn partial_cmp_spec(&self, other: &ri64) -> Option<Ordering> { Some(int_cmp(self.val as int, other.val as int)) }
}
impl PartialOrd<ri64> for ri32 {
    #[verifier::external_body]
    fn partial_cmp(&self, other: &ri64) -> Option<Ordering> { unimplemented!() }
}

impl PartialEqSpecImpl<ri128> for ri32 {
    open spec fn obeys_eq_spec() -> bool { true }
    open spec fn eq_spec(&self, other: &ri128) -> bool { self.val == other.val }
}
impl PartialEq<ri128> for ri32 {
    #[verifier::external_body]
    fn eq(&self, other: &ri128) -> bool { unimplemented!() }
}
impl PartialOrdSpecImpl<ri128> for ri32 {
    open spec fn obeys_partial_cmp_spec() -> bool { true }
    open spec fn partial_cmp_spec(&self, other: &ri128) -> Option<Ordering> { Some(int_cmp(self.val as int, other.val as int)) }
}
impl PartialOrd<ri128> for ri32 {
    #[verifier::external_body]
    fn partial_cmp(&self, other: &ri128) -> Option<Ordering> { unimplemented!() }
}

impl AddSpecImpl<ri32> for ri32 {
    open spec fn obeys_add_spec() -> bool { true }
    open spec fn add_req(self, rhs: ri32) -> bool { i32::MIN <= self.val + rhs.val <= i32::MAX }
    open spec fn add_spec(self, rhs: ri32) -> ri32 { ri32 { val: (self.val + rhs.val) as i32 } }
}
impl core::ops::Add<ri32> for ri32 {
    type Output = ri32;
    #[verifier::external_body]
    fn add(self, rhs: ri32) -> ri32 { unimplemented!() }
}
impl AddAssignSpecImpl<ri32> for ri32 {
    open spec fn obeys_add_assign_spec() -> bool { true }
    open spec fn add_assign_req(&self, rhs: ri32) -> bool { i32::MIN <= self.val + rhs.val <= i32::MAX }
    open spec fn add_assign_spec(&self, rhs: ri32) -> &ri32 { &ri32 { val: (self.val + rhs.val) as i32 } }
}
impl core::ops::AddAssign<ri32> for ri32 {
    #[verifier::external_body]
    fn add_assign(&mut self, rhs: ri32) { unimplemented!() }
}

impl SubSpecImpl<ri32> for ri32 {
    open spec fn obeys_sub_spec() -> bool { true }
    open spec fn sub_req(self, rhs: ri32) -> bool { i32::MIN <= self.val - rhs.val <= i32::MAX }
    open spec fn sub_spec(self, rhs: ri32) -> ri32 { ri32 { val: (self.val - rhs.val) as i32 } }
}
impl core::ops::Sub<ri32> for ri32 {
    type Output = ri32;
    #[verifier::external_body]
    fn sub(self, rhs: ri32) -> ri32 { unimplemented!() }
}
impl SubAssignSpecImpl<ri32> for ri32 {
    open spec fn obeys_sub_assign_spec() -> bool { true }
    open spec fn sub_assign_req(&self, rhs: ri32) -> bool { i32::MIN <= self.val - rhs.val <= i32::MAX }
    open spec fn sub_assign_spec(&self, rhs: ri32) -> &ri32 { &ri32 { val: (self.val - rhs.val) as i32 } }
}
impl core::ops::SubAssign<ri32> for ri32 {
    #[verifier::external_body]
    fn sub_assign(&mut self, rhs: ri32) { unimplemented!() }
}

impl MulSpecImpl<ri32> for ri32 {
    open spec fn obeys_mul_spec() -> bool { true }
    open spec fn mul_req(self, rhs: ri32) -> bool { i32::MIN <= self.val * rhs.val <= i32::MAX }
    open spec fn mul_spec(self, rhs: ri32) -> ri32 { ri32 { val: (self.val * rhs.val) as i32 } }
}
impl core::ops::Mul<ri32> for ri32 {
    type Output = ri32;
    #[verifier::external_body]
    fn mul(self, rhs: ri32) -> ri32 { unimplemented!() }
}
impl MulAssignSpecImpl<ri32> for ri32 {
    open spec fn obeys_mul_assign_spec() -> bool { true }
    open spec fn mul_assign_req(&self, rhs: ri32) -> bool { i32::MIN <= self.val * rhs.val <= i32::MAX }
    open spec fn mul_assign_spec(&self, rhs: ri32) -> &ri32 { &ri32 { val: (self.val * rhs.val) as i32 } }
}
impl core::ops::MulAssign<ri32> for ri32 {
    #[verifier::external_body]
    fn mul_assign(&mut self, rhs: ri32) { unimplemented!() }
}

impl DivSpecImpl<ri32> for ri32 {
    open spec fn obeys_div_spec() -> bool { true }
    open spec fn div_req(self, rhs: ri32) -> bool { rhs.val > 0 }
    open spec fn div_spec(self, rhs: ri32) -> ri32 { ri32 { val: (self.val as int / rhs.val as int) as i32 } }
}
impl core::ops::Div<ri32> for ri32 {
    type Output = ri32;
    #[verifier::external_body]
    fn div(self, rhs: ri32) -> ri32 { unimplemented!() }
}
impl RemSpecImpl<ri32> for ri32 {
    open spec fn obeys_rem_spec() -> bool { true }
    open spec fn rem_req(self, rhs: ri32) -> bool { rhs.val > 0 }
    open spec fn rem_spec(self, rhs: ri32) -> ri32 { ri32 { val: (self.val as int % rhs.val as int) as i32 } }
}
impl core::ops::Rem<ri32> for ri32 {
    type Output = ri32;
    #[verifier::external_body]
    fn rem(self, rhs: ri32) -> ri32 { unimplemented!() }
}

impl AddSpecImpl<Constant> for ri32 {
    open spec fn obeys_add_spec() -> bool { true }
    open spec fn add_req(self, rhs: Constant) -> bool { i32::MIN <= self.val + rhs.0 <= i32::MAX }
    open spec fn add_spec(self, rhs: Constant) -> ri32 { ri32 { val: (self.val + rhs.0) as i32 } }
}
impl core::ops::Add<Constant> for ri32 {
    type Output = ri32;
    #[verifier::external_body]
    fn add(self, rhs: Constant) -> ri32 { unimplemented!() }
}
impl AddAssignSpecImpl<Constant> for ri32 {
    open spec fn obeys_add_assign_spec() -> bool { true }
    open spec fn add_assign_req(&self, rhs: Constant) -> bool { i32::MIN <= self.val + rhs.0 <= i32::MAX }
    open spec fn add_assign_spec(&self, rhs: Constant) -> &ri32 { &ri32 { val: (self.val + rhs.0) as i32 } }
}
impl core::ops::AddAssign<Constant> for ri32 {
    #[verifier::external_body]
    fn add_assign(&mut self, rhs: Constant) { unimplemented!() }
}

impl SubSpecImpl<Constant> for ri32 {
    open spec fn obeys_sub_spec() -> bool { true }
    open spec fn sub_req(self, rhs: Constant) -> bool { i32::MIN <= self.val - rhs.0 <= i32::MAX }
    open spec fn sub_spec(self, rhs: Constant) -> ri32 { ri32 { val: (self.val - rhs.0) as i32 } }
}
impl core::ops::Sub<Constant> for ri32 {
    type Output = ri32;
    #[verifier::external_body]
    fn sub(self, rhs: Constant) -> ri32 { unimplemented!() }
}
impl SubAssignSpecImpl<Constant> for ri32 {
    open spec fn obeys_sub_assign_spec() -> bool { true }
    open spec fn sub_assign_req(&self, rhs: Constant) -> bool { i32::MIN <= self.val - rhs.0 <= i32::MAX }
    open spec fn sub_assign_spec(&self, rhs: Constant) -> &ri32 { &ri32 { val: (self.val - rhs.0) as i32 } }
}
impl core::ops::SubAssign<Constant> for ri32 {
    #[verifier::external_body]
    fn sub_assign(&mut self, rhs: Constant) { unimplemented!() }
}

impl MulSpecImpl<Constant> for ri32 {
    open spec fn obeys_mul_spec() -> bool { true }
    open spec fn mul_req(self, rhs: Constant) -> bool { i32::MIN <= self.val * rhs.0 <= i32::MAX }
    open spec fn mul_spec(self, rhs: Constant) -> ri32 { ri32 { val: (self.val * rhs.0) as i32 } }
}
impl core::ops::Mul<Constant> for ri32 {
    type Output = ri32;
    #[verifier::external_body]
    fn mul(self, rhs: Constant) -> ri32 { unimplemented!() }
}
impl MulAssignSpecImpl<Constant> for ri32 {
    open spec fn obeys_mul_assign_spec() -> bool { true }
    open spec fn mul_assign_req(&self, rhs: Constant) -> bool { i32::MIN <= self.val * rhs.0 <= i32::MAX }
    open spec fn mul_assign_spec(&self, rhs: Constant) -> &ri32 { &ri32 { val: (self.val * rhs.0) as i32 } }
}
impl core::ops::MulAssign<Constant> for ri32 {
    #[verifier::external_body]
    fn mul_assign(&mut self, rhs: Constant) { unimplemented!() }
}

impl DivSpecImpl<Constant> for ri32 {
    open spec fn obeys_div_spec() -> bool { true }
    open spec fn div_req(self, rhs: Constant) -> bool { rhs.0 > 0 }
    open spec fn div_spec(self, rhs: Constant) -> ri32 { ri32 { val: (self.val as int / rhs.0 as int) as i32 } }
}
impl core::ops::Div<Constant> for ri32 {
    type Output = ri32;
    #[verifier::external_body]
    fn div(self, rhs: Constant) -> ri32 { unimplemented!() }
}
impl RemSpecImpl<Constant> for ri32 {
    open spec fn obeys_rem_spec() -> bool { true }
    open spec fn rem_req(self, rhs: Constant) -> bool { rhs.0 > 0 }
    open spec fn rem_spec(self, rhs: Constant) -> ri32 { ri32 { val: (self.val as int % rhs.0 as int) as i32 } }
}
impl core::ops::Rem<Constant> for ri32 {
    type Output = ri32;
    #[verifier::external_body]
    fn rem(self, rhs: Constant) -> ri32 { unimplemented!() }
}

impl AddSpecImpl<ri8> for ri32 {
    open spec fn obeys_add_spec() -> bool { true }
    open spec fn add_req(self, rhs: ri8) -> bool { i32::MIN <= self.val + rhs.val <= i32::MAX }
    open spec fn add_spec(self, rhs: ri8) -> ri32 { ri32 { val: (self.val + rhs.val) as i32 } }
}
impl core::ops::Add<ri8> for ri32 {
    type Output = ri32;
    #[verifier::external_body]
    fn add(self, rhs: ri8) -> ri32 { unimplemented!() }
}
impl AddAssignSpecImpl<ri8> for ri32 {
    open spec fn obeys_add_assign_spec() -> bool { true }
    open spec fn add_assign_req(&self, rhs: ri8) -> bool { i32::MIN <= self.val + rhs.val <= i32::MAX }
    open spec fn add_assign_spec(&self, rhs: ri8) -> &ri32 { &ri32 { val: (self.val + rhs.val) as i32 } }
}
impl core::ops::AddAssign<ri8> for ri32 {
    #[verifier::external_body]
    fn add_assign(&mut self, rhs: ri8) { unimplemented!() }
}

impl SubSpecImpl<ri8> for ri32 {
    open spec fn obeys_sub_spec() -> bool { true }
    open spec fn sub_req(self, rhs: ri8) -> bool { i32::MIN <= self.val - rhs.val <= i32::MAX }
    open spec fn sub_spec(self, rhs: ri8) -> ri32 { ri32 { val: (self.val - rhs.val) as i32 } }
}
impl core::ops::Sub<ri8> for ri32 {
    type Output = ri32;
    #[verifier::external_body]
    fn sub(self, rhs: ri8) -> ri32 { unimplemented!() }
}
impl SubAssignSpecImpl<ri8> for ri32 {
    open spec fn obeys_sub_assign_spec() -> bool { true }
    open spec fn sub_assign_req(&self, rhs: ri8) -> bool { i32::MIN <= self.val - rhs.val <= i32::MAX }
    open spec fn sub_assign_spec(&self, rhs: ri8) -> &ri32 { &ri32 { val: (self.val - rhs.val) as i32 } }
}
impl core::ops::SubAssign<ri8> for ri32 {
    #[verifier::external_body]
    fn sub_assign(&mut self, rhs: ri8) { unimplemented!() }
}

impl MulSpecImpl<ri8> for ri32 {
    open spec fn obeys_mul_spec() -> bool { true }
    open spec fn mul_req(self, rhs: ri8) -> bool { i32::MIN <= self.val * rhs.val <= i32::MAX }
    open spec fn mul_spec(self, rhs: ri8) -> ri32 { ri32 { val: (self.val * rhs.val) as i32 } }
}
impl core::ops::Mul<ri8> for ri32 {
    type Output = ri32;
    #[verifier::external_body]
    fn mul(self, rhs: ri8) -> ri32 { unimplemented!() }
}
impl MulAssignSpecImpl<ri8> for ri32 {
    open spec fn obeys_mul_assign_spec() -> bool { true }
    open spec fn mul_assign_req(&self, rhs: ri8) -> bool { i32::MIN <= self.val * rhs.val <= i32::MAX }
    open spec fn mul_assign_spec(&self, rhs: ri8) -> &ri32 { &ri32 { val: (self.val * rhs.val) as i32 } }
}
impl core::ops::MulAssign<ri8> for ri32 {
    #[verifier::external_body]
    fn mul_assign(&mut self, rhs: ri8) { unimplemented!() }
}

impl DivSpecImpl<ri8> for ri32 {
    open spec fn obeys_div_spec() -> bool { true }
    open spec fn div_req(self, rhs: ri8) -> bool { rhs.val > 0 }
    open spec fn div_spec(self, rhs: ri8) -> ri32 { ri32 { val: (self.val as int / rhs.val as int) as i32 } }
}
impl core::ops::Div<ri8> for ri32 {
    type Output = ri32;
    #[verifier::external_body]
    fn div(self, rhs: ri8) -> ri32 { unimplemented!() }
}
impl RemSpecImpl<ri8> for ri32 {
    open spec fn obeys_rem_spec() -> bool { true }
    open spec fn rem_req(self, rhs: ri8) -> bool { rhs.val > 0 }
    open spec fn rem_spec(self, rhs: ri8) -> ri32 { ri32 { val: (self.val as int % rhs.val as int) as i32 } }
}
impl core::ops::Rem<ri8> for ri32 {
    type Output = ri32;
    #[verifier::external_body]
    fn rem(self, rhs: ri8) -> ri32 { unimplemented!() }
}

impl AddSpecImpl<ri16> for ri32 {
    open spec fn obeys_add_spec() -> bool { true }
    open spec fn add_req(self, rhs: ri16) -> bool { i32::MIN <= self.val + rhs.val <= i32::MAX }
    open spec fn add_spec(self, rhs: ri16) -> ri32 { ri32 { val: (self.val + rhs.val) as i32 } }
}
impl core::ops::Add<ri16> for ri32 {
    type Output = ri32;
    #[verifier::external_body]
    fn add(self, rhs: ri16) -> ri32 { unimplemented!() }
}
impl AddAssignSpecImpl<ri16> for ri32 {
    open spec fn obeys_add_assign_spec() -> bool { true }
    open spec fn add_assign_req(&self, rhs: ri16) -> bool { i32::MIN <= self.val + rhs.val <= i32::MAX }
    open spec fn add_assign_spec(&self, rhs: ri16) -> &ri32 { &ri32 { val: (self.val + rhs.val) as i32 } }
}
impl core::ops::AddAssign<ri16> for ri32 {
    #[verifier::external_body]
    fn add_assign(&mut self, rhs: ri16) { unimplemented!() }
}

impl SubSpecImpl<ri16> for ri32 {
    open spec fn obeys_sub_spec() -> bool { true }
    open spec fn sub_req(self, rhs: ri16) -> bool { i32::MIN <= self.val - rhs.val <= i32::MAX }
    open spec fn sub_spec(self, rhs: ri16) -> ri32 { ri32 { val: (self.val - rhs.val) as i32 } }
}
impl core::ops::Sub<ri16> for ri32 {
    type Output = ri32;
    #[verifier::external_body]
    fn sub(self, rhs: ri16) -> ri32 { unimplemented!() }
}
impl SubAssignSpecImpl<ri16> for ri32 {
    open spec fn obeys_sub_assign_spec() -> bool { true }
    open spec fn sub_assign_req(&self, rhs: ri16) -> bool { i32::MIN <= self.val - rhs.val <= i32::MAX }
    open spec fn sub_assign_spec(&self, rhs: ri16) -> &ri32 { &ri32 { val: (self.val - rhs.val) as i32 } }
}
impl core::ops::SubAssign<ri16> for ri32 {
    #[verifier::external_body]
    fn sub_assign(&mut self, rhs: ri16) { unimplemented!() }
}

impl MulSpecImpl<ri16> for ri32 {
    open spec fn obeys_mul_spec() -> bool { true }
    open spec fn mul_req(self, rhs: ri16) -> bool { i32::MIN <= self.val * rhs.val <= i32::MAX }
    open spec fn mul_spec(self, rhs: ri16) -> ri32 { ri32 { val: (self.val * rhs.val) as i32 } }
}
impl core::ops::Mul<ri16> for ri32 {
    type Output = ri32;
    #[verifier::external_body]
    fn mul(self, rhs: ri16) -> ri32 { unimplemented!() }
}
impl MulAssignSpecImpl<ri16> for ri32 {
    open spec fn obeys_mul_assign_spec() -> bool { true }
    open spec fn mul_assign_req(&self, rhs: ri16) -> bool { i32::MIN <= self.val * rhs.val <= i32::MAX }
    open spec fn mul_assign_spec(&self, rhs: ri16) -> &ri32 { &ri32 { val: (self.val * rhs.val) as i32 } }
}
impl core::ops::MulAssign<ri16> for ri32 {
    #[verifier::external_body]
    fn mul_assign(&mut self, rhs: ri16) { unimplemented!() }
}

impl DivSpecImpl<ri16> for ri32 {
    open spec fn obeys_div_spec() -> bool { true }
    open spec fn div_req(self, rhs: ri16) -> bool { rhs.val > 0 }
    open spec fn div_spec(self, rhs: ri16) -> ri32 { ri32 { val: (self.val as int / rhs.val as int) as i32 } }
}
impl core::ops::Div<ri16> for ri32 {
    type Output = ri32;
    #[verifier::external_body]
    fn div(self, rhs: ri16) -> ri32 { unimplemented!() }
}
impl RemSpecImpl<ri16> for ri32 {
    open spec fn obeys_rem_spec() -> bool { true }
    open spec fn rem_req(self, rhs: ri16) -> bool { rhs.val > 0 }
    open spec fn rem_spec(self, rhs: ri16) -> ri32 { ri32 { val: (self.val as int % rhs.val as int) as i32 } }
}
impl core::ops::Rem<ri16> for ri32 {
    type Output = ri32;
    #[verifier::external_body]
    fn rem(self, rhs: ri16) -> ri32 { unimplemented!() }
}

impl AddSpecImpl<ri64> for ri32 {
    open spec fn obeys_add_spec() -> bool { true }
    open spec fn add_req(self, rhs: ri64) -> bool { i32::MIN <= self.val + rhs.val <= i32::MAX }
    open spec fn add_spec(self, rhs: ri64) -> ri32 { ri32 { val: (self.val + rhs.val) as i32 } }
}
impl core::ops::Add<ri64> for ri32 {
    type Output = ri32;
    #[verifier::external_body]
    fn add(self, rhs: ri64) -> ri32 { unimplemented!() }
}
impl AddAssignSpecImpl<ri64> for ri32 {
    open spec fn obeys_add_assign_spec() -> bool { true }
    open spec fn add_assign_req(&self, rhs: ri64) -> bool { i32::MIN <= self.val + rhs.val <= i32::MAX }
    open spec fn add_assign_spec(&self, rhs: ri64) -> &ri32 { &ri32 { val: (self.val + rhs.val) as i32 } }
}
impl core::ops::AddAssign<ri64> for ri32 {
    #[verifier::external_body]
    fn add_assign(&mut self, rhs: ri64) { unimplemented!() }
}

impl SubSpecImpl<ri64> for ri32 {
    open spec fn obeys_sub_spec() -> bool { true }
    open spec fn sub_req(self, rhs: ri64) -> bool { i32::MIN <= self.val - rhs.val <= i32::MAX }
    open spec fn sub_spec(self, rhs: ri64) -> ri32 { ri32 { val: (self.val - rhs.val) as i32 } }
}
impl core::ops::Sub<ri64> for ri32 {
    type Output = ri32;
    #[verifier::external_body]
    fn sub(self, rhs: ri64) -> ri32 { unimplemented!() }
}
impl SubAssignSpecImpl<ri64> for ri32 {
    open spec fn obeys_sub_assign_spec() -> bool { true }
    open spec fn sub_assign_req(&self, rhs: ri64) -> bool { i32::MIN <= self.val - rhs.val <= i32::MAX }
    open spec fn sub_assign_spec(&self, rhs: ri64) -> &ri32 { &ri32 { val: (self.val - rhs.val) as i32 } }
}
impl core::ops::SubAssign<ri64> for ri32 {
    #[verifier::external_body]
    fn sub_assign(&mut self, rhs: ri64) { unimplemented!() }
}

impl MulSpecImpl<ri64> for ri32 {
    open spec fn obeys_mul_spec() -> bool { true }
    open spec fn mul_req(self, rhs: ri64) -> bool { i32::MIN <= self.val * rhs.val <= i32::MAX }
    open spec fn mul_spec(self, rhs: ri64) -> ri32 { ri32 { val: (self.val * rhs.val) as i32 } }
}
impl core::ops::Mul<ri64> for ri32 {
    type Output = ri32;
    #[verifier::external_body]
    fn mul(self, rhs: ri64) -> ri32 { unimplemented!() }
}
impl MulAssignSpecImpl<ri64> for ri32 {
    open spec fn obeys_mul_assign_spec() -> bool { true }
    open spec fn mul_assign_req(&self, rhs: ri64) -> bool { i32::MIN <= self.val * rhs.val <= i32::MAX }
    open spec fn mul_assign_spec(&self, rhs: ri64) -> &ri32 { &ri32 { val: (self.val * rhs.val) as i32 } }
}
impl core::ops::MulAssign<ri64> for ri32 {
    #[verifier::external_body]
    fn mul_assign(&mut self, rhs: ri64) { unimplemented!() }
}

impl DivSpecImpl<ri64> for ri32 {
    open spec fn obeys_div_spec() -> bool { true }
    open spec fn div_req(self, rhs: ri64) -> bool { rhs.val > 0 }
    open spec fn div_spec(self, rhs: ri64) -> ri32 { ri32 { val: (self.val as int / rhs.val as int) as i32 } }
}
impl core::ops::Div<ri64> for ri32 {
    type Output = ri32;
    #[verifier::external_body]
    fn div(self, rhs: ri64) -> ri32 { unimplemented!() }
}
impl RemSpecImpl<ri64> for ri32 {
    open spec fn obeys_rem_spec() -> bool { true }
    open spec fn rem_req(self, rhs: ri64) -> bool { rhs.val > 0 }
    open spec fn rem_spec(self, rhs: ri64) -> ri32 { ri32 { val: (self.val as int % rhs.val as int) as i32 } }
}
impl core::ops::Rem<ri64> for ri32 {
    type Output = ri32;
    #[verifier::external_body]
    fn rem(self, rhs: ri64) -> ri32 { unimplemented!() }
}

impl AddSpecImpl<ri128> for ri32 {
    open spec fn obeys_add_spec() -> bool { true }
    open spec fn add_req(self, rhs: ri128) -> bool { i32::MIN <= self.val + rhs.val <= i32::MAX }
    open spec fn add_spec(self, rhs: ri128) -> ri32 { ri32 { val: (self.val + rhs.val) as i32 } }
}
impl core::ops::Add<ri128> for ri32 {
    type Output = ri32;
    #[verifier::external_body]
    fn add(self, rhs: ri128) -> ri32 { unimplemented!() }
}
impl AddAssignSpecImpl<ri128> for ri32 {
    open spec fn obeys_add_assign_spec() -> bool { true }
    open spec fn add_assign_req(&self, rhs: ri128) -> bool { i32::MIN <= self.val + rhs.val <= i32::MAX }
    open spec fn add_assign_spec(&self, rhs: ri128) -> &ri32 { &ri32 { val: (self.val + rhs.val) as i32 } }
}
impl core::ops::AddAssign<ri128> for ri32 {
    #[verifier::external_body]
    fn add_assign(&mut self, rhs: ri128) { unimplemented!() }
}

impl SubSpecImpl<ri128> for ri32 {
    open spec fn obeys_sub_spec() -> bool { true }
    open spec fn sub_req(self, rhs: ri128) -> bool { i32::MIN <= self.val - rhs.val <= i32::MAX }
    open spec fn sub_spec(self, rhs: ri128) -> ri32 { ri32 { val: (self.val - rhs.val) as i32 } }
}
impl core::ops::Sub<ri128> for ri32 {
    type Output = ri32;
    #[verifier::external_body]
    fn sub(self, rhs: ri128) -> ri32 { unimplemented!() }
}
impl SubAssignSpecImpl<ri128> for ri32 {
    open spec fn obeys_sub_assign_spec() -> bool { true }
    open spec fn sub_assign_req(&self, rhs: ri128) -> bool { i32::MIN <= self.val - rhs.val <= i32::MAX }
    open spec fn sub_assign_spec(&self, rhs: ri128) -> &ri32 { &ri32 { val: (self.val - rhs.val) as i32 } }
}
impl core::ops::SubAssign<ri128> for ri32 {
    #[verifier::external_body]
    fn sub_assign(&mut self, rhs: ri128) { unimplemented!() }
}

impl MulSpecImpl<ri128> for ri32 {
    open spec fn obeys_mul_spec() -> bool { true }
    open spec fn mul_req(self, rhs: ri128) -> bool { i32::MIN <= self.val * rhs.val <= i32::MAX }
    open spec fn mul_spec(self, rhs: ri128) -> ri32 { ri32 { val: (self.val * rhs.val) as i32 } }
}
impl core::ops::Mul<ri128> for ri32 {
    type Output = ri32;
    #[verifier::external_body]
    fn mul(self, rhs: ri128) -> ri32 { unimplemented!() }
}
impl MulAssignSpecImpl<ri128> for ri32 {
    open spec fn obeys_mul_assign_spec() -> bool { true }
    open spec fn mul_assign_req(&self, rhs: ri128) -> bool { i32::MIN <= self.val * rhs.val <= i32::MAX }
    open spec fn mul_assign_spec(&self, rhs: ri128) -> &ri32 { &ri32 { val: (self.val * rhs.val) as i32 } }
}
impl core::ops::MulAssign<ri128> for ri32 {
    #[verifier::external_body]
    fn mul_assign(&mut self, rhs: ri128) { unimplemented!() }
}

impl DivSpecImpl<ri128> for ri32 {
    open spec fn obeys_div_spec() -> bool { true }
    open spec fn div_req(self, rhs: ri128) -> bool { rhs.val > 0 }
    open spec fn div_spec(self, rhs: ri128) -> ri32 { ri32 { val: (self.val as int / rhs.val as int) as i32 } }
}
impl core::ops::Div<ri128> for ri32 {
    type Output = ri32;
    #[verifier::external_body]
    fn div(self, rhs: ri128) -> ri32 { unimplemented!() }
}
impl RemSpecImpl<ri128> for ri32 {
    open spec fn obeys_rem_spec() -> bool { true }
    open spec fn rem_req(self, rhs: ri128) -> bool { rhs.val > 0 }
    open spec fn rem_spec(self, rhs: ri128) -> ri32 { ri32 { val: (self.val as int % rhs.val as int) as i32 } }
}
impl core::ops::Rem<ri128> for ri32 {
    type Output = ri32;
    #[verifier::external_body]
    fn rem(self, rhs: ri128) -> ri32 { unimplemented!() }
}

impl NegSpecImpl for ri32 {
    open spec fn obeys_neg_spec() -> bool { true }
    open spec fn neg_req(self) -> bool { self.val > i32::MIN }
    open spec fn neg_spec(self) -> ri32 { ri32 { val: (-self.val) as i32 } }
}
impl core::ops::Neg for ri32 {
    type Output = ri32;
    #[verifier::external_body]
    fn neg(self) -> ri32 { unimplemented!() }
}


// ------------------------------------------------------------------ ri64
#[derive(Clone, Copy)]
pub struct ri64 { pub val: i64 }
impl ri64 {
    pub fn new_unchecked(val: i64) -> (r: Self) ensures r.val == val { ri64 { val } }
    pub fn get(self) -> (r: i64) ensures r == self.val { self.val }
    pub fn get_unchecked(self) -> (r: i64) ensures r == self.val { self.val }
    pub fn without_bounds(self) -> (r: Self) ensures r == self { self }
    // `T::N::<VAL>()` is rewritten to `T::verif_N(VAL)`: the constant VAL (release: `Self { val: VAL }`, no bound is consulted).
    // (Not modelled with a const generic: Verus 0.2026.09.13 derives `false` from a negative const generic argument.)
    pub const fn verif_N(v: i64) -> (r: Self) ensures r.val == v { ri64 { val: v } }
    #[verifier::external_body]
    pub fn abs(self) -> (r: Self)
        requires self.val > i64::MIN,
        ensures r.val == (if self.val < 0 { -self.val } else { self.val as int })
    { unimplemented!() }
    // real: returns `riN<-1, 1>` of the SAME width
    pub fn signum(self) -> (r: Self) ensures r.val == (if self.val < 0 { -1int } else if self.val > 0 { 1int } else { 0int })
    { if self.val < 0 { ri64 { val: -1 } } else if self.val > 0 { ri64 { val: 1 } } else { ri64 { val: 0 } } }
    pub fn min<R: RInto<Self>>(self, other: R) -> (r: Self)
        requires other.rinto_req(),
        ensures r.val == (if other.rinto_spec().val < self.val { other.rinto_spec().val } else { self.val })
    { let o = other.rinto(); if o.val < self.val { o } else { self } }
    pub fn max<R: RInto<Self>>(self, other: R) -> (r: Self)
        requires other.rinto_req(),
        ensures r.val == (if other.rinto_spec().val > self.val { other.rinto_spec().val } else { self.val })
    { let o = other.rinto(); if o.val > self.val { o } else { self } }
    // truncating
    #[verifier::external_body]
    pub fn div_ceil<R: RInto<Self>>(self, rhs: R) -> (r: Self)
        requires rhs.rinto_req(), rhs.rinto_spec().val != 0, !(self.val == i64::MIN && rhs.rinto_spec().val == -1),
        ensures r.val == tdiv(self.val as int, rhs.rinto_spec().val as int)
    { unimplemented!() }
    #[verifier::external_body]
    pub fn rem_ceil<R: RInto<Self>>(self, rhs: R) -> (r: Self)
        requires rhs.rinto_req(), rhs.rinto_spec().val != 0, !(self.val == i64::MIN && rhs.rinto_spec().val == -1),
        ensures r.val == trem(self.val as int, rhs.rinto_spec().val as int)
    { unimplemented!() }
    // Euclidean (divisor > 0 required here; every use in jiff divides by a positive quantity)
    #[verifier::external_body]
    pub fn div_floor<R: RInto<Self>>(self, rhs: R) -> (r: Self)
        requires rhs.rinto_req(), rhs.rinto_spec().val > 0,
        ensures r.val == (self.val as int) / (rhs.rinto_spec().val as int)
    { unimplemented!() }
    #[verifier::external_body]
    pub fn rem_floor<R: RInto<Self>>(self, rhs: R) -> (r: Self)
        requires rhs.rinto_req(), rhs.rinto_spec().val > 0,
        ensures r.val == (self.val as int) % (rhs.rinto_spec().val as int)
    { unimplemented!() }
    #[verifier::external_body]
    pub fn saturating_mul<R: RInto<Self>>(self, rhs: R) -> (r: Self)
        requires rhs.rinto_req(),
        ensures i64::MIN <= self.val * rhs.rinto_spec().val <= i64::MAX ==> r.val == self.val * rhs.rinto_spec().val,
                self.val * rhs.rinto_spec().val > i64::MAX ==> r.val == i64::MAX,
                self.val * rhs.rinto_spec().val < i64::MIN ==> r.val == i64::MIN,
    { unimplemented!() }
    #[verifier::external_body]
    pub fn saturating_add<R: RInto<Self>>(self, rhs: R) -> (r: Self)
        requires rhs.rinto_req(),
        ensures i64::MIN <= self.val + rhs.rinto_spec().val <= i64::MAX ==> r.val == self.val + rhs.rinto_spec().val,
                self.val + rhs.rinto_spec().val > i64::MAX ==> r.val == i64::MAX,
                self.val + rhs.rinto_spec().val < i64::MIN ==> r.val == i64::MIN,
    { unimplemented!() }
}
// `type Range = ri64<{ LO }, { HI }>; Range::try_new("what", v)`: the bounds of an anonymous range are passed explicitly
#[verifier::external_body]
pub fn verif_try_new_range_64(lo: i128, hi: i128, v: i64) -> (res: Result<ri64, Error>)
    requires i64::MIN <= lo, hi <= i64::MAX,
    ensures res.is_ok() <==> lo <= v <= hi, res.is_ok() ==> res.unwrap().val == v
{ unimplemented!() }
impl RInto<ri64> for ri64 {
    open spec fn rinto_spec(self) -> ri64 { self }
    open spec fn rinto_req(self) -> bool { true }
    fn rinto(self) -> (r: ri64) { self }
}
impl RFrom<ri64> for ri64 {
    open spec fn rfrom_spec(t: ri64) -> ri64 { t }
    open spec fn rfrom_req(t: ri64) -> bool { true }
    fn rfrom(t: ri64) -> (r: ri64) { t }
}
impl RInto<ri64> for Constant {
    open spec fn rinto_spec(self) -> ri64 { ri64 { val: self.0 as i64 } }
    open spec fn rinto_req(self) -> bool { i64::MIN <= self.0 <= i64::MAX }
    #[verifier::external_body]
    fn rinto(self) -> (r: ri64) { unimplemented!() }
}
impl RFrom<Constant> for ri64 {
    open spec fn rfrom_spec(t: Constant) -> ri64 { ri64 { val: t.0 as i64 } }
    open spec fn rfrom_req(t: Constant) -> bool { i64::MIN <= t.0 <= i64::MAX }
    #[verifier::external_body]
    fn rfrom(t: Constant) -> (r: ri64) { unimplemented!() }
}
impl RInto<i64> for ri64 {
    open spec fn rinto_spec(self) -> i64 { self.val }
    open spec fn rinto_req(self) -> bool { true }
    fn rinto(self) -> (r: i64) { self.val }
}

impl PartialEqSpecImpl<ri64> for ri64 {
    open spec fn obeys_eq_spec() -> bool { true }
    open spec fn eq_spec(&self, other: &ri64) -> bool { self.val == other.val }
}
impl PartialEq<ri64> for ri64 {
    #[verifier::external_body]
    fn eq(&self, other: &ri64) -> bool { unimplemented!() }
}
impl PartialOrdSpecImpl<ri64> for ri64 {
    open spec fn obeys_partial_cmp_spec() -> bool { true }
    open spec fn partial_cmp_spec(&self, other: &ri64) -> Option<Ordering> { Some(int_cmp(self.val as int, other.val as int)) }
}
impl PartialOrd<ri64> for ri64 {
    #[verifier::external_body]
    fn partial_cmp(&self, other: &ri64) -> Option<Ordering> { unimplemented!() }
}

impl PartialEqSpecImpl<Constant> for ri64 {
    open spec fn obeys_eq_spec() -> bool { true }
    open spec fn eq_spec(&self, other: &Constant) -> bool { self.val == other.0 }
}
impl PartialEq<Constant> for ri64 {
    #[verifier::external_body]
    fn eq(&self, other: &Constant) -> bool { unimplemented!() }
}
impl PartialOrdSpecImpl<Constant> for ri64 {
    open spec fn obeys_partial_cmp_spec() -> bool { true }
    open spec fn partial_cmp_spec(&self, other: &Constant) -> Option<Ordering> { Some(int_cmp(self.val as int, other.0 as int)) }
}
impl PartialOrd<Constant> for ri64 {
    #[verifier::external_body]
    fn partial_cmp(&self, other: &Constant) -> Option<Ordering> { unimplemented!() }
}

impl PartialEqSpecImpl<ri8> for ri64 {
    open spec fn obeys_eq_spec() -> bool { true }
    open spec fn eq_spec(&self, other: &ri8) -> bool { self.val == other.val }
}
impl PartialEq<ri8> for ri64 {
    #[verifier::external_body]
    fn eq(&self, other: &ri8) -> bool { unimplemented!() }
}
impl PartialOrdSpecImpl<ri8> for ri64 {
    open spec fn obeys_partial_cmp_spec() -> bool { true }
    open spec fn partial_cmp_spec(&self, other: &ri8) -> Option<Ordering> { Some(int_cmp(self.val as int, other.val as int)) }
}
impl PartialOrd<ri8> for ri64 {
    #[verifier::external_body]
    fn partial_cmp(&self, other: &ri8) -> Option<Ordering> { unimplemented!() }
}

impl PartialEqSpecImpl<ri16> for ri64 {
    open spec fn obeys_eq_spec() -> bool { true }
    open spec fn eq_spec(&self, other: &ri16) -> bool { self.val == other.val }
}
impl PartialEq<ri16> for ri64 {
    #[verifier::external_body]
    fn eq(&self, other: &ri16) -> bool { unimplemented!() }
}
impl PartialOrdSpecImpl<ri16> for ri64 {
    open spec fn obeys_partial_cmp_spec() -> bool { true }
    open spec fn partial_cmp_spec(&self, other: &ri16) -> Option<Ordering> { Some(int_cmp(self.val as int, other.val as int)) }
}
impl PartialOrd<ri16> for ri64 {
    #[verifier::external_body]
    fn partial_cmp(&self, other: &ri16) -> Option<Ordering> { unimplemented!() }
}

impl PartialEqSpecImpl<ri32> for ri64 {
    open spec fn obeys_eq_spec() -> bool { true }
    open spec fn eq_spec(&self, other: &ri32) -> bool { self.val == other.val }
}
impl PartialEq<ri32> for ri64 {
    #[verifier::external_body]
    fn eq(&self, other: &ri32) -> bool { unimplemented!() }
}
impl PartialOrdSpecImpl<ri32> for ri64 {
    open spec fn obeys_partial_cmp_spec() -> bool { true }
    open spec fn partial_cmp_spec(&self, other: &ri32) -> Option<Ordering> { Some(int_cmp(self.val as int, other.val as int)) }
}
impl PartialOrd<ri32> for ri64 {
    #[verifier::external_body]
    fn partial_cmp(&self, other: &ri32) -> Option<Ordering> { unimplemented!() }
}

impl PartialEqSpecImpl<ri128> for ri64 {
    open spec fn obeys_eq_spec() -> bool { true }
    open spec fn eq_spec(&self, other: &ri128) -> bool { self.val == other.val }
}
impl PartialEq<ri128> for ri64 {
    #[verifier::external_body]
    fn eq(&self, other: &ri128) -> bool { unimplemented!() }
}
impl PartialOrdSpecImpl<ri128> for ri64 {
    open spec fn obeys_partial_cmp_spec() -> bool { true }
    open spec fn partial_cmp_spec(&self, other: &ri128) -> Option<Ordering> { Some(int_cmp(self.val as int, other.val as int)) }
}
impl PartialOrd<ri128> for ri64 {
    #[verifier::external_body]
    fn partial_cmp(&self, other: &ri128) -> Option<Ordering> { unimplemented!() }
}

impl AddSpecImpl<ri64> for ri64 {
    open spec fn obeys_add_spec() -> bool { true }
    open spec fn add_req(self, rhs: ri64) -> bool { i64::MIN <= self.val + rhs.val <= i64::MAX }
    open spec fn add_spec(self, rhs: ri64) -> ri64 { ri64 { val: (self.val + rhs.val) as i64 } }
}
impl core::ops::Add<ri64> for ri64 {
    type Output = ri64;
    #[verifier::external_body]
    fn add(self, rhs: ri64) -> ri64 { unimplemented!() }
}
impl AddAssignSpecImpl<ri64> for ri64 {
    open spec fn obeys_add_assign_spec() -> bool { true }
    open spec fn add_assign_req(&self, rhs: ri64) -> bool { i64::MIN <= self.val + rhs.val <= i64::MAX }
    open spec fn add_assign_spec(&self, rhs: ri64) -> &ri64 { &ri64 { val: (self.val + rhs.val) as i64 } }
}
impl core::ops::AddAssign<ri64> for ri64 {
    #[verifier::external_body]
    fn add_assign(&mut self, rhs: ri64) { unimplemented!() }
}

impl SubSpecImpl<ri64> for ri64 {
    open spec fn obeys_sub_spec() -> bool { true }
    open spec fn sub_req(self, rhs: ri64) -> bool { i64::MIN <= self.val - rhs.val <= i64::MAX }
    open spec fn sub_spec(self, rhs: ri64) -> ri64 { ri64 { val: (self.val - rhs.val) as i64 } }
}
impl core::ops::Sub<ri64> for ri64 {
    type Output = ri64;
    #[verifier::external_body]
    fn sub(self, rhs: ri64) -> ri64 { unimplemented!() }
}
impl SubAssignSpecImpl<ri64> for ri64 {
    open spec fn obeys_sub_assign_spec() -> bool { true }
    open spec fn sub_assign_req(&self, rhs: ri64) -> bool { i64::MIN <= self.val - rhs.val <= i64::MAX }
    open spec fn sub_assign_spec(&self, rhs: ri64) -> &ri64 { &ri64 { val: (self.val - rhs.val) as i64 } }
}
impl core::ops::SubAssign<ri64> for ri64 {
    #[verifier::external_body]
    fn sub_assign(&mut self, rhs: ri64) { unimplemented!() }
}

impl MulSpecImpl<ri64> for ri64 {
    open spec fn obeys_mul_spec() -> bool { true }
    open spec fn mul_req(self, rhs: ri64) -> bool { i64::MIN <= self.val * rhs.val <= i64::MAX }
    open spec fn mul_spec(self, rhs: ri64) -> ri64 { ri64 { val: (self.val * rhs.val) as i64 } }
}
impl core::ops::Mul<ri64> for ri64 {
    type Output = ri64;
    #[verifier::external_body]
    fn mul(self, rhs: ri64) -> ri64 { unimplemented!() }
}
impl MulAssignSpecImpl<ri64> for ri64 {
    open spec fn obeys_mul_assign_spec() -> bool { true }
    open spec fn mul_assign_req(&self, rhs: ri64) -> bool { i64::MIN <= self.val * rhs.val <= i64::MAX }
    open spec fn mul_assign_spec(&self, rhs: ri64) -> &ri64 { &ri64 { val: (self.val * rhs.val) as i64 } }
}
impl core::ops::MulAssign<ri64> for ri64 {
    #[verifier::external_body]
    fn mul_assign(&mut self, rhs: ri64) { unimplemented!() }
}

impl DivSpecImpl<ri64> for ri64 {
    open spec fn obeys_div_spec() -> bool { true }
    open spec fn div_req(self, rhs: ri64) -> bool { rhs.val > 0 }
    open spec fn div_spec(self, rhs: ri64) -> ri64 { ri64 { val: (self.val as int / rhs.val as int) as i64 } }
}
impl core::ops::Div<ri64> for ri64 {
    type Output = ri64;
    #[verifier::external_body]
    fn div(self, rhs: ri64) -> ri64 { unimplemented!() }
}
impl RemSpecImpl<ri64> for ri64 {
    open spec fn obeys_rem_spec() -> bool { true }
    open spec fn rem_req(self, rhs: ri64) -> bool { rhs.val > 0 }
    open spec fn rem_spec(self, rhs: ri64) -> ri64 { ri64 { val: (self.val as int % rhs.val as int) as i64 } }
}
impl core::ops::Rem<ri64> for ri64 {
    type Output = ri64;
    #[verifier::external_body]
    fn rem(self, rhs: ri64) -> ri64 { unimplemented!() }
}

impl AddSpecImpl<Constant> for ri64 {
    open spec fn obeys_add_spec() -> bool { true }
    open spec fn add_req(self, rhs: Constant) -> bool { i64::MIN <= self.val + rhs.0 <= i64::MAX }
    open spec fn add_spec(self, rhs: Constant) -> ri64 { ri64 { val: (self.val + rhs.0) as i64 } }
}
impl core::ops::Add<Constant> for ri64 {
    type Output = ri64;
    #[verifier::external_body]
    fn add(self, rhs: Constant) -> ri64 { unimplemented!() }
}
impl AddAssignSpecImpl<Constant> for ri64 {
    open spec fn obeys_add_assign_spec() -> bool { true }
    open spec fn add_assign_req(&self, rhs: Constant) -> bool { i64::MIN <= self.val + rhs.0 <= i64::MAX }
    open spec fn add_assign_spec(&self, rhs: Constant) -> &ri64 { &ri64 { val: (self.val + rhs.0) as i64 } }
}
impl core::ops::AddAssign<Constant> for ri64 {
    #[verifier::external_body]
    fn add_assign(&mut self, rhs: Constant) { unimplemented!() }
}

impl SubSpecImpl<Constant> for ri64 {
    open spec fn obeys_sub_spec() -> bool { true }
    open spec fn sub_req(self, rhs: Constant) -> bool { i64::MIN <= self.val - rhs.0 <= i64::MAX }
    open spec fn sub_spec(self, rhs: Constant) -> ri64 { ri64 { val: (self.val - rhs.0) as i64 } }
}
impl core::ops::Sub<Constant> for ri64 {
    type Output = ri64;
    #[verifier::external_body]
    fn sub(self, rhs: Constant) -> ri64 { unimplemented!() }
}
impl SubAssignSpecImpl<Constant> for ri64 {
    open spec fn obeys_sub_assign_spec() -> bool { true }
    open spec fn sub_assign_req(&self, rhs: Constant) -> bool { i64::MIN <= self.val - rhs.0 <= i64::MAX }
    open spec fn sub_assign_spec(&self, rhs: Constant) -> &ri64 { &ri64 { val: (self.val - rhs.0) as i64 } }
}
impl core::ops::SubAssign<Constant> for ri64 {
    #[verifier::external_body]
    fn sub_assign(&mut self, rhs: Constant) { unimplemented!() }
}

impl MulSpecImpl<Constant> for ri64 {
    open spec fn obeys_mul_spec() -> bool { true }
    open spec fn mul_req(self, rhs: Constant) -> bool { i64::MIN <= self.val * rhs.0 <= i64::MAX }
    open spec fn mul_spec(self, rhs: Constant) -> ri64 { ri64 { val: (self.val * rhs.0) as i64 } }
}
impl core::ops::Mul<Constant> for ri64 {
    type Output = ri64;
    #[verifier::external_body]
    fn mul(self, rhs: Constant) -> ri64 { unimplemented!() }
}
impl MulAssignSpecImpl<Constant> for ri64 {
    open spec fn obeys_mul_assign_spec() -> bool { true }
    open spec fn mul_assign_req(&self, rhs: Constant) -> bool { i64::MIN <= self.val * rhs.0 <= i64::MAX }
    open spec fn mul_assign_spec(&self, rhs: Constant) -> &ri64 { &ri64 { val: (self.val * rhs.0) as i64 } }
}
impl core::ops::MulAssign<Constant> for ri64 {
    #[verifier::external_body]
    fn mul_assign(&mut self, rhs: Constant) { unimplemented!() }
}

impl DivSpecImpl<Constant> for ri64 {
    open spec fn obeys_div_spec() -> bool { true }
    open spec fn div_req(self, rhs: Constant) -> bool { rhs.0 > 0 }
    open spec fn div_spec(self, rhs: Constant) -> ri64 { ri64 { val: (self.val as int / rhs.0 as int) as i64 } }
}
impl core::ops::Div<Constant> for ri64 {
    type Output = ri64;
    #[verifier::external_body]
    fn div(self, rhs: Constant) -> ri64 { unimplemented!() }
}
impl RemSpecImpl<Constant> for ri64 {
    open spec fn obeys_rem_spec() -> bool { true }
    open spec fn rem_req(self, rhs: Constant) -> bool { rhs.0 > 0 }
    open spec fn rem_spec(self, rhs: Constant) -> ri64 { ri64 { val: (self.val as int % rhs.0 as int) as i64 } }
}
impl core::ops::Rem<Constant> for ri64 {
    type Output = ri64;
    #[verifier::external_body]
    fn rem(self, rhs: Constant) -> ri64 { unimplemented!() }
}

impl AddSpecImpl<ri8> for ri64 {
    open spec fn obeys_add_spec() -> bool { true }
    open spec fn add_req(self, rhs: ri8) -> bool { i64::MIN <= self.val + rhs.val <= i64::MAX }
    open spec fn add_spec(self, rhs: ri8) -> ri64 { ri64 { val: (self.val + rhs.val) as i64 } }
}
impl core::ops::Add<ri8> for ri64 {
    type Output = ri64;
    #[verifier::external_body]
    fn add(self, rhs: ri8) -> ri64 { unimplemented!() }
}
impl AddAssignSpecImpl<ri8> for ri64 {
    open spec fn obeys_add_assign_spec() -> bool { true }
    open spec fn add_assign_req(&self, rhs: ri8) -> bool { i64::MIN <= self.val + rhs.val <= i64::MAX }
    open spec fn add_assign_spec(&self, rhs: ri8) -> &ri64 { &ri64 { val: (self.val + rhs.val) as i64 } }
}
impl core::ops::AddAssign<ri8> for ri64 {
    #[verifier::external_body]
    fn add_assign(&mut self, rhs: ri8) { unimplemented!() }
}

impl SubSpecImpl<ri8> for ri64 {
    open spec fn obeys_sub_spec() -> bool { true }
    open spec fn sub_req(self, rhs: ri8) -> bool { i64::MIN <= self.val - rhs.val <= i64::MAX }
    open spec fn sub_spec(self, rhs: ri8) -> ri64 { ri64 { val: (self.val - rhs.val) as i64 } }
}
impl core::ops::Sub<ri8> for ri64 {
    type Output = ri64;
    #[verifier::external_body]
    fn sub(self, rhs: ri8) -> ri64 { unimplemented!() }
}
impl SubAssignSpecImpl<ri8> for ri64 {
    open spec fn obeys_sub_assign_spec() -> bool { true }
    open spec fn sub_assign_req(&self, rhs: ri8) -> bool { i64::MIN <= self.val - rhs.val <= i64::MAX }
    open spec fn sub_assign_spec(&self, rhs: ri8) -> &ri64 { &ri64 { val: (self.val - rhs.val) as i64 } }
}
impl core::ops::SubAssign<ri8> for ri64 {
    #[verifier::external_body]
    fn sub_assign(&mut self, rhs: ri8) { unimplemented!() }
}

impl MulSpecImpl<ri8> for ri64 {
    open spec fn obeys_mul_spec() -> bool { true }
    open spec fn mul_req(self, rhs: ri8) -> bool { i64::MIN <= self.val * rhs.val <= i64::MAX }
    open spec fn mul_spec(self, rhs: ri8) -> ri64 { ri64 { val: (self.val * rhs.val) as i64 } }
}
impl core::ops::Mul<ri8> for ri64 {
    type Output = ri64;
    #[verifier::external_body]
    fn mul(self, rhs: ri8) -> ri64 { unimplemented!() }
}
impl MulAssignSpecImpl<ri8> for ri64 {
    open spec fn obeys_mul_assign_spec() -> bool { true }
    open spec fn mul_assign_req(&self, rhs: ri8) -> bool { i64::MIN <= self.val * rhs.val <= i64::MAX }
    open spec fn mul_assign_spec(&self, rhs: ri8) -> &ri64 { &ri64 { val: (self.val * rhs.val) as i64 } }
}
impl core::ops::MulAssign<ri8> for ri64 {
    #[verifier::external_body]
    fn mul_assign(&mut self, rhs: ri8) { unimplemented!() }
}

impl DivSpecImpl<ri8> for ri64 {
    open spec fn obeys_div_spec() -> bool { true }
    open spec fn div_req(self, rhs: ri8) -> bool { rhs.val > 0 }
    open spec fn div_spec(self, rhs: ri8) -> ri64 { ri64 { val: (self.val as int / rhs.val as int) as i64 } }
}
impl core::ops::Div<ri8> for ri64 {
    type Output = ri64;
    #[verifier::external_body]
    fn div(self, rhs: ri8) -> ri64 { unimplemented!() }
}
impl RemSpecImpl<ri8> for ri64 {
    open spec fn obeys_rem_spec() -> bool { true }
    open spec fn rem_req(self, rhs: ri8) -> bool { rhs.val > 0 }
    open spec fn rem_spec(self, rhs: ri8) -> ri64 { ri64 { val: (self.val as int % rhs.val as int) as i64 } }
}
impl core::ops::Rem<ri8> for ri64 {
    type Output = ri64;
    #[verifier::external_body]
    fn rem(self, rhs: ri8) -> ri64 { unimplemented!() }
}

impl AddSpecImpl<ri16> for ri64 {
    open spec fn obeys_add_spec() -> bool { true }
    open spec fn add_req(self, rhs: ri16) -> bool { i64::MIN <= self.val + rhs.val <= i64::MAX }
    open spec fn add_spec(self, rhs: ri16) -> ri64 { ri64 { val: (self.val + rhs.val) as i64 } }
}
impl core::ops::Add<ri16> for ri64 {
    type Output = ri64;
    #[verifier::external_body]
    fn add(self, rhs: ri16) -> ri64 { unimplemented!() }
}
impl AddAssignSpecImpl<ri16> for ri64 {
    open spec fn obeys_add_assign_spec() -> bool { true }
    open spec fn add_assign_req(&self, rhs: ri16) -> bool { i64::MIN <= self.val + rhs.val <= i64::MAX }
    open spec fn add_assign_spec(&self, rhs: ri16) -> &ri64 { &ri64 { val: (self.val + rhs.val) as i64 } }
}
impl core::ops::AddAssign<ri16> for ri64 {
    #[verifier::external_body]
    fn add_assign(&mut self, rhs: ri16) { unimplemented!() }
}

impl SubSpecImpl<ri16> for ri64 {
    open spec fn obeys_sub_spec() -> bool { true }
    open spec fn sub_req(self, rhs: ri16) -> bool { i64::MIN <= self.val - rhs.val <= i64::MAX }
    open spec fn sub_spec(self, rhs: ri16) -> ri64 { ri64 { val: (self.val - rhs.val) as i64 } }
}
impl core::ops::Sub<ri16> for ri64 {
    type Output = ri64;
    #[verifier::external_body]
    fn sub(self, rhs: ri16) -> ri64 { unimplemented!() }
}
impl SubAssignSpecImpl<ri16> for ri64 {
    open spec fn obeys_sub_assign_spec() -> bool { true }
    open spec fn sub_assign_req(&self, rhs: ri16) -> bool { i64::MIN <= self.val - rhs.val <= i64::MAX }
    open spec fn sub_assign_spec(&self, rhs: ri16) -> &ri64 { &ri64 { val: (self.val - rhs.val) as i64 } }
}
impl core::ops::SubAssign<ri16> for ri64 {
    #[verifier::external_body]
    fn sub_assign(&mut self, rhs: ri16) { unimplemented!() }
}

impl MulSpecImpl<ri16> for ri64 {
    open spec fn obeys_mul_spec() -> bool { true }
    open spec fn mul_req(self, rhs: ri16) -> bool { i64::MIN <= self.val * rhs.val <= i64::MAX }
    open spec fn mul_spec(self, rhs: ri16) -> ri64 { ri64 { val: (self.val * rhs.val) as i64 } }
}
impl core::ops::Mul<ri16> for ri64 {
    type Output = ri64;
    #[verifier::external_body]
    fn mul(self, rhs: ri16) -> ri64 { unimplemented!() }
}
impl MulAssignSpecImpl<ri16> for ri64 {
    open spec fn obeys_mul_assign_spec() -> bool { true }
    open spec fn mul_assign_req(&self, rhs: ri16) -> bool { i64::MIN <= self.val * rhs.val <= i64::MAX }
    open spec fn mul_assign_spec(&self, rhs: ri16) -> &ri64 { &ri64 { val: (self.val * rhs.val) as i64 } }
}
impl core::ops::MulAssign<ri16> for ri64 {
    #[verifier::external_body]
    fn mul_assign(&mut self, rhs: ri16) { unimplemented!() }
}

impl DivSpecImpl<ri16> for ri64 {
    open spec fn obeys_div_spec() -> bool { true }
    open spec fn div_req(self, rhs: ri16) -> bool { rhs.val > 0 }
    open spec fn div_spec(self, rhs: ri16) -> ri64 { ri64 { val: (self.val as int / rhs.val as int) as i64 } }
}
impl core::ops::Div<ri16> for ri64 {
    type Output = ri64;
    #[verifier::external_body]
    fn div(self, rhs: ri16) -> ri64 { unimplemented!() }
}
impl RemSpecImpl<ri16> for ri64 {
    open spec fn obeys_rem_spec() -> bool { true }
    open spec fn rem_req(self, rhs: ri16) -> bool { rhs.val > 0 }
    open spec fn rem_spec(self, rhs: ri16) -> ri64 { ri64 { val: (self.val as int % rhs.val as int) as i64 } }
}
impl core::ops::Rem<ri16> for ri64 {
    type Output = ri64;
    #[verifier::external_body]
    fn rem(self, rhs: ri16) -> ri64 { unimplemented!() }
}

impl AddSpecImpl<ri32> for ri64 {
    open spec fn obeys_add_spec() -> bool { true }
    open spec fn add_req(self, rhs: ri32) -> bool { i64::MIN <= self.val + rhs.val <= i64::MAX }
    open spec fn add_spec(self, rhs: ri32) -> ri64 { ri64 { val: (self.val + rhs.val) as i64 } }
}
impl core::ops::Add<ri32> for ri64 {
    type Output = ri64;
    #[verifier::external_body]
    fn add(self, rhs: ri32) -> ri64 { unimplemented!() }
}
impl AddAssignSpecImpl<ri32> for ri64 {
    open spec fn obeys_add_assign_spec() -> bool { true }
    open spec fn add_assign_req(&self, rhs: ri32) -> bool { i64::MIN <= self.val + rhs.val <= i64::MAX }
    open spec fn add_assign_spec(&self, rhs: ri32) -> &ri64 { &ri64 { val: (self.val + rhs.val) as i64 } }
}
impl core::ops::AddAssign<ri32> for ri64 {
    #[verifier::external_body]
    fn add_assign(&mut self, rhs: ri32) { unimplemented!() }
}

impl SubSpecImpl<ri32> for ri64 {
    open spec fn obeys_sub_spec() -> bool { true }
    open spec fn sub_req(self, rhs: ri32) -> bool { i64::MIN <= self.val - rhs.val <= i64::MAX }
    open spec fn sub_spec(self, rhs: ri32) -> ri64 { ri64 { val: (self.val - rhs.val) as i64 } }
}
impl core::ops::Sub<ri32> for ri64 {
    type Output = ri64;
    #[verifier::external_body]
    fn sub(self, rhs: ri32) -> ri64 { unimplemented!() }
}
impl SubAssignSpecImpl<ri32> for ri64 {
    open spec fn obeys_sub_assign_spec() -> bool { true }
    open spec fn sub_assign_req(&self, rhs: ri32) -> bool { i64::MIN <= self.val - rhs.val <= i64::MAX }
    open spec fn sub_assign_spec(&self, rhs: ri32) -> &ri64 { &ri64 { val: (self.val - rhs.val) as i64 } }
}
impl core::ops::SubAssign<ri32> for ri64 {
    #[verifier::external_body]
    fn sub_assign(&mut self, rhs: ri32) { unimplemented!() }
}

impl MulSpecImpl<ri32> for ri64 {
    open spec fn obeys_mul_spec() -> bool { true }
    open spec fn mul_req(self, rhs: ri32) -> bool { i64::MIN <= self.val * rhs.val <= i64::MAX }
    open spec fn mul_spec(self, rhs: ri32) -> ri64 { ri64 { val: (self.val * rhs.val) as i64 } }
}
impl core::ops::Mul<ri32> for ri64 {
    type Output = ri64;
    #[verifier::external_body]
    fn mul(self, rhs: ri32) -> ri64 { unimplemented!() }
}
impl MulAssignSpecImpl<ri32> for ri64 {
    open spec fn obeys_mul_assign_spec() -> bool { true }
    open spec fn mul_assign_req(&self, rhs: ri32) -> bool { i64::MIN <= self.val * rhs.val <= i64::MAX }
    open spec fn mul_assign_spec(&self, rhs: ri32) -> &ri64 { &ri64 { val: (self.val * rhs.val) as i64 } }
}
impl core::ops::MulAssign<ri32> for ri64 {
    #[verifier::external_body]
    fn mul_assign(&mut self, rhs: ri32) { unimplemented!() }
}

impl DivSpecImpl<ri32> for ri64 {
    open spec fn obeys_div_spec() -> bool { true }
    open spec fn div_req(self, rhs: ri32) -> bool { rhs.val > 0 }
    open spec fn div_spec(self, rhs: ri32) -> ri64 { ri64 { val: (self.val as int / rhs.val as int) as i64 } }
}
impl core::ops::Div<ri32> for ri64 {
    type Output = ri64;
    #[verifier::external_body]
    fn div(self, rhs: ri32) -> ri64 { unimplemented!() }
}
impl RemSpecImpl<ri32> for ri64 {
    open spec fn obeys_rem_spec() -> bool { true }
    open spec fn rem_req(self, rhs: ri32) -> bool { rhs.val > 0 }
    open spec fn rem_spec(self, rhs: ri32) -> ri64 { ri64 { val: (self.val as int % rhs.val as int) as i64 } }
}
impl core::ops::Rem<ri32> for ri64 {
    type Output = ri64;
    #[verifier::external_body]
    fn rem(self, rhs: ri32) -> ri64 { unimplemented!() }
}

impl AddSpecImpl<ri128> for ri64 {
    open spec fn obeys_add_spec() -> bool { true }
    open spec fn add_req(self, rhs: ri128) -> bool { i64::MIN <= self.val + rhs.val <= i64::MAX }
    open spec fn add_spec(self, rhs: ri128) -> ri64 { ri64 { val: (self.val + rhs.val) as i64 } }
}
impl core::ops::Add<ri128> for ri64 {
    type Output = ri64;
    #[verifier::external_body]
    fn add(self, rhs: ri128) -> ri64 { unimplemented!() }
}
impl AddAssignSpecImpl<ri128> for ri64 {
    open spec fn obeys_add_assign_spec() -> bool { true }
    open spec fn add_assign_req(&self, rhs: ri128) -> bool { i64::MIN <= self.val + rhs.val <= i64::MAX }
    open spec fn add_assign_spec(&self, rhs: ri128) -> &ri64 { &ri64 { val: (self.val + rhs.val) as i64 } }
}
impl core::ops::AddAssign<ri128> for ri64 {
    #[verifier::external_body]
    fn add_assign(&mut self, rhs: ri128) { unimplemented!() }
}

impl SubSpecImpl<ri128> for ri64 {
    open spec fn obeys_sub_spec() -> bool { true }
    open spec fn sub_req(self, rhs: ri128) -> bool { i64::MIN <= self.val - rhs.val <= i64::MAX }
    open spec fn sub_spec(self, rhs: ri128) -> ri64 { ri64 { val: (self.val - rhs.val) as i64 } }
}
impl core::ops::Sub<ri128> for ri64 {
    type Output = ri64;
    #[verifier::external_body]
    fn sub(self, rhs: ri128) -> ri64 { unimplemented!() }
}
impl SubAssignSpecImpl<ri128> for ri64 {
    open spec fn obeys_sub_assign_spec() -> bool { true }
    open spec fn sub_assign_req(&self, rhs: ri128) -> bool { i64::MIN <= self.val - rhs.val <= i64::MAX }
    open spec fn sub_assign_spec(&self, rhs: ri128) -> &ri64 { &ri64 { val: (self.val - rhs.val) as i64 } }
}
impl core::ops::SubAssign<ri128> for ri64 {
    #[verifier::external_body]
    fn sub_assign(&mut self, rhs: ri128) { unimplemented!() }
}

impl MulSpecImpl<ri128> for ri64 {
    open spec fn obeys_mul_spec() -> bool { true }
    open spec fn mul_req(self, rhs: ri128) -> bool { i64::MIN <= self.val * rhs.val <= i64::MAX }
    open spec fn mul_spec(self, rhs: ri128) -> ri64 { ri64 { val: (self.val * rhs.val) as i64 } }
}
impl core::ops::Mul<ri128> for ri64 {
    type Output = ri64;
    #[verifier::external_body]
    fn mul(self, rhs: ri128) -> ri64 { unimplemented!() }
}
impl MulAssignSpecImpl<ri128> for ri64 {
    open spec fn obeys_mul_assign_spec() -> bool { true }
    open spec fn mul_assign_req(&self, rhs: ri128) -> bool { i64::MIN <= self.val * rhs.val <= i64::MAX }
    open spec fn mul_assign_spec(&self, rhs: ri128) -> &ri64 { &ri64 { val: (self.val * rhs.val) as i64 } }
}
impl core::ops::MulAssign<ri128> for ri64 {
    #[verifier::external_body]
    fn mul_assign(&mut self, rhs: ri128) { unimplemented!() }
}

impl DivSpecImpl<ri128> for ri64 {
    open spec fn obeys_div_spec() -> bool { true }
    open spec fn div_req(self, rhs: ri128) -> bool { rhs.val > 0 }
    open spec fn div_spec(self, rhs: ri128) -> ri64 { ri64 { val: (self.val as int / rhs.val as int) as i64 } }
}
impl core::ops::Div<ri128> for ri64 {
    type Output = ri64;
    #[verifier::external_body]
    fn div(self, rhs: ri128) -> ri64 { unimplemented!() }
}
impl RemSpecImpl<ri128> for ri64 {
    open spec fn obeys_rem_spec() -> bool { true }
    open spec fn rem_req(self, rhs: ri128) -> bool { rhs.val > 0 }
    open spec fn rem_spec(self, rhs: ri128) -> ri64 { ri64 { val: (self.val as int % rhs.val as int) as i64 } }
}
impl core::ops::Rem<ri128> for ri64 {
    type Output = ri64;
    #[verifier::external_body]
    fn rem(self, rhs: ri128) -> ri64 { unimplemented!() }
}

impl NegSpecImpl for ri64 {
    open spec fn obeys_neg_spec() -> bool { true }
    open spec fn neg_req(self) -> bool { self.val > i64::MIN }
    open spec fn neg_spec(self) -> ri64 { ri64 { val: (-self.val) as i64 } }
}
impl core::ops::Neg for ri64 {
    type Output = ri64;
    #[verifier::external_body]
    fn neg(self) -> ri64 { unimplemented!() }
}


// ------------------------------------------------------------------ ri128
#[derive(Clone, Copy)]
pub struct ri128 { pub val: i128 }
impl ri128 {
    pub fn new_unchecked(val: i128) -> (r: Self) ensures r.val == val { ri128 { val } }
    pub fn get(self) -> (r: i128) ensures r == self.val { self.val }
    pub fn get_unchecked(self) -> (r: i128) ensures r == self.val { self.val }
    pub fn without_bounds(self) -> (r: Self) ensures r == self { self }
    // `T::N::<VAL>()` is rewritten to `T::verif_N(VAL)`: the constant VAL (release: `Self { val: VAL }`, no bound is consulted).
    // (Not modelled with a const generic: Verus 0.2026.09.13 derives `false` from a negative const generic argument.)
    pub const fn verif_N(v: i128) -> (r: Self) ensures r.val == v { ri128 { val: v } }
    #[verifier::external_body]
    pub fn abs(self) -> (r: Self)
        requires self.val > i128::MIN,
        ensures r.val == (if self.val < 0 { -self.val } else { self.val as int })
    { unimplemented!() }
    // real: returns `riN<-1, 1>` of the SAME width
    pub fn signum(self) -> (r: Self) ensures r.val == (if self.val < 0 { -1int } else if self.val > 0 { 1int } else { 0int })
    { if self.val < 0 { ri128 { val: -1 } } else if self.val > 0 { ri128 { val: 1 } } else { ri128 { val: 0 } } }
    pub fn min<R: RInto<Self>>(self, other: R) -> (r: Self)
        requires other.rinto_req(),
        ensures r.val == (if other.rinto_spec().val < self.val { other.rinto_spec().val } else { self.val })
    { let o = other.rinto(); if o.val < self.val { o } else { self } }
    pub fn max<R: RInto<Self>>(self, other: R) -> (r: Self)
        requires other.rinto_req(),
        ensures r.val == (if other.rinto_spec().val > self.val { other.rinto_spec().val } else { self.val })
    { let o = other.rinto(); if o.val > self.val { o } else { self } }
    // truncating
    #[verifier::external_body]
    pub fn div_ceil<R: RInto<Self>>(self, rhs: R) -> (r: Self)
        requires rhs.rinto_req(), rhs.rinto_spec().val != 0, !(self.val == i128::MIN && rhs.rinto_spec().val == -1),
        ensures r.val == tdiv(self.val as int, rhs.rinto_spec().val as int)
    { unimplemented!() }
    #[verifier::external_body]
    pub fn rem_ceil<R: RInto<Self>>(self, rhs: R) -> (r: Self)
        requires rhs.rinto_req(), rhs.rinto_spec().val != 0, !(self.val == i128::MIN && rhs.rinto_spec().val == -1),
        ensures r.val == trem(self.val as int, rhs.rinto_spec().val as int)
    { unimplemented!() }
    // Euclidean (divisor > 0 required here; every use in jiff divides by a positive quantity)
    #[verifier::external_body]
    pub fn div_floor<R: RInto<Self>>(self, rhs: R) -> (r: Self)
        requires rhs.rinto_req(), rhs.rinto_spec().val > 0,
        ensures r.val == (self.val as int) / (rhs.rinto_spec().val as int)
    { unimplemented!() }
    #[verifier::external_body]
    pub fn rem_floor<R: RInto<Self>>(self, rhs: R) -> (r: Self)
        requires rhs.rinto_req(), rhs.rinto_spec().val > 0,
        ensures r.val == (self.val as int) % (rhs.rinto_spec().val as int)
    { unimplemented!() }
    #[verifier::external_body]
    pub fn saturating_mul<R: RInto<Self>>(self, rhs: R) -> (r: Self)
        requires rhs.rinto_req(),
        ensures i128::MIN <= self.val * rhs.rinto_spec().val <= i128::MAX ==> r.val == self.val * rhs.rinto_spec().val,
                self.val * rhs.rinto_spec().val > i128::MAX ==> r.val == i128::MAX,
                self.val * rhs.rinto_spec().val < i128::MIN ==> r.val == i128::MIN,
    { unimplemented!() }
    #[verifier::external_body]
    pub fn saturating_add<R: RInto<Self>>(self, rhs: R) -> (r: Self)
        requires rhs.rinto_req(),
        ensures i128::MIN <= self.val + rhs.rinto_spec().val <= i128::MAX ==> r.val == self.val + rhs.rinto_spec().val,
                self.val + rhs.rinto_spec().val > i128::MAX ==> r.val == i128::MAX,
                self.val + rhs.rinto_spec().val < i128::MIN ==> r.val == i128::MIN,
    { unimplemented!() }
}
// `type Range = ri128<{ LO }, { HI }>; Range::try_new("what", v)`: the bounds of an anonymous range are passed explicitly
#[verifier::external_body]
pub fn verif_try_new_range_128(lo: i128, hi: i128, v: i64) -> (res: Result<ri128, Error>)
    requires i128::MIN <= lo, hi <= i128::MAX,
    ensures res.is_ok() <==> lo <= v <= hi, res.is_ok() ==> res.unwrap().val == v
{ unimplemented!() }
impl RInto<ri128> for ri128 {
    open spec fn rinto_spec(self) -> ri128 { self }
    open spec fn rinto_req(self) -> bool { true }
    fn rinto(self) -> (r: ri128) { self }
}
impl RFrom<ri128> for ri128 {
    open spec fn rfrom_spec(t: ri128) -> ri128 { t }
    open spec fn rfrom_req(t: ri128) -> bool { true }
    fn rfrom(t: ri128) -> (r: ri128) { t }
}
impl RInto<ri128> for Constant {
    open spec fn rinto_spec(self) -> ri128 { ri128 { val: self.0 as i128 } }
    open spec fn rinto_req(self) -> bool { i128::MIN <= self.0 <= i128::MAX }
    #[verifier::external_body]
    fn rinto(self) -> (r: ri128) { unimplemented!() }
}
impl RFrom<Constant> for ri128 {
    open spec fn rfrom_spec(t: Constant) -> ri128 { ri128 { val: t.0 as i128 } }
    open spec fn rfrom_req(t: Constant) -> bool { i128::MIN <= t.0 <= i128::MAX }
    #[verifier::external_body]
    fn rfrom(t: Constant) -> (r: ri128) { unimplemented!() }
}
impl RInto<i128> for ri128 {
    open spec fn rinto_spec(self) -> i128 { self.val }
    open spec fn rinto_req(self) -> bool { true }
    fn rinto(self) -> (r: i128) { self.val }
}

impl PartialEqSpecImpl<ri128> for ri128 {
    open spec fn obeys_eq_spec() -> bool { true }
    open spec fn eq_spec(&self, other: &ri128) -> bool { self.val == other.val }
}
impl PartialEq<ri128> for ri128 {
    #[verifier::external_body]
    fn eq(&self, other: &ri128) -> bool { unimplemented!() }
}
impl PartialOrdSpecImpl<ri128> for ri128 {
    open spec fn obeys_partial_cmp_spec() -> bool { true }
    open spec fn partial_cmp_spec(&self, other: &ri128) -> Option<Ordering> { Some(int_cmp(self.val as int, other.val as int)) }
}
impl PartialOrd<ri128> for ri128 {
    #[verifier::external_body]
    fn partial_cmp(&self, other: &ri128) -> Option<Ordering> { unimplemented!() }
}

impl PartialEqSpecImpl<Constant> for ri128 {
    open spec fn obeys_eq_spec() -> bool { true }
    open spec fn eq_spec(&self, other: &Constant) -> bool { self.val == other.0 }
}
impl PartialEq<Constant> for ri128 {
    #[verifier::external_body]
    fn eq(&self, other: &Constant) -> bool { unimplemented!() }
}
impl PartialOrdSpecImpl<Constant> for ri128 {
    open spec fn obeys_partial_cmp_spec() -> bool { true }
    open spec fn partial_cmp_spec(&self, other: &Constant) -> Option<Ordering> { Some(int_cmp(self.val as int, other.0 as int)) }
}
impl PartialOrd<Constant> for ri128 {
    #[verifier::external_body]
    fn partial_cmp(&self, other: &Constant) -> Option<Ordering> { unimplemented!() }
}

impl PartialEqSpecImpl<ri8> for ri128 {
    open spec fn obeys_eq_spec() -> bool { true }
    open spec fn eq_spec(&self, other: &ri8) -> bool { self.val == other.val }
}
impl PartialEq<ri8> for ri128 {
    #[verifier::external_body]
    fn eq(&self, other: &ri8) -> bool { unimplemented!() }
}
impl PartialOrdSpecImpl<ri8> for ri128 {
    open spec fn obeys_partial_cmp_spec() -> bool { true }
    open spec fn partial_cmp_spec(&self, other: &ri8) -> Option<Ordering> { Some(int_cmp(self.val as int, other.val as int)) }
}
impl PartialOrd<ri8> for ri128 {
    #[verifier::external_body]
    fn partial_cmp(&self, other: &ri8) -> Option<Ordering> { unimplemented!() }
}

impl PartialEqSpecImpl<ri16> for ri128 {
    open spec fn obeys_eq_spec() -> bool { true }
    open spec fn eq_spec(&self, other: &ri16) -> bool { self.val == other.val }
}
impl PartialEq<ri16> for ri128 {
    #[verifier::external_body]
    fn eq(&self, other: &ri16) -> bool { unimplemented!() }
}
impl PartialOrdSpecImpl<ri16> for ri128 {
    open spec fn obeys_partial_cmp_spec() -> bool { true }
    open spec fn partial_cmp_spec(&self, other: &ri16) -> Option<Ordering> { Some(int_cmp(self.val as int, other.val as int)) }
}
impl PartialOrd<ri16> for ri128 {
    #[verifier::external_body]
    fn partial_cmp(&self, other: &ri16) -> Option<Ordering> { unimplemented!() }
}

impl PartialEqSpecImpl<ri32> for ri128 {
    open spec fn obeys_eq_spec() -> bool { true }
    open spec fn eq_spec(&self, other: &ri32) -> bool { self.val == other.val }
}
impl PartialEq<ri32> for ri128 {
    #[verifier::external_body]
    fn eq(&self, other: &ri32) -> bool { unimplemented!() }
}
impl PartialOrdSpecImpl<ri32> for ri128 {
    open spec fn obeys_partial_cmp_spec() -> bool { true }
    open spec fn partial_cmp_spec(&self, other: &ri32) -> Option<Ordering> { Some(int_cmp(self.val as int, other.val as int)) }
}
impl PartialOrd<ri32> for ri128 {
    #[verifier::external_body]
    fn partial_cmp(&self, other: &ri32) -> Option<Ordering> { unimplemented!() }
}

impl PartialEqSpecImpl<ri64> for ri128 {
    open spec fn obeys_eq_spec() -> bool { true }
    open spec fn eq_spec(&self, other: &ri64) -> bool { self.val == other.val }
}
impl PartialEq<ri64> for ri128 {
    #[verifier::external_body]
    fn eq(&self, other: &ri64) -> bool { unimplemented!() }
}
impl PartialOrdSpecImpl<ri64> for ri128 {
    open spec fn obeys_partial_cmp_spec() -> bool { true }
    open spec fn partial_cmp_spec(&self, other: &ri64) -> Option<Ordering> { Some(int_cmp(self.val as int, other.val as int)) }
}
impl PartialOrd<ri64> for ri128 {
    #[verifier::external_body]
    fn partial_cmp(&self, other: &ri64) -> Option<Ordering> { unimplemented!() }
}

impl AddSpecImpl<ri128> for ri128 {
    open spec fn obeys_add_spec() -> bool { true }
    open spec fn add_req(self, rhs: ri128) -> bool { i128::MIN <= self.val + rhs.val <= i128::MAX }
    open spec fn add_spec(self, rhs: ri128) -> ri128 { ri128 { val: (self.val + rhs.val) as i128 } }
}
impl core::ops::Add<ri128> for ri128 {
    type Output = ri128;
    #[verifier::external_body]
    fn add(self, rhs: ri128) -> ri128 { unimplemented!() }
}
impl AddAssignSpecImpl<ri128> for ri128 {
    open spec fn obeys_add_assign_spec() -> bool { true }
    open spec fn add_assign_req(&self, rhs: ri128) -> bool { i128::MIN <= self.val + rhs.val <= i128::MAX }
    open spec fn add_assign_spec(&self, rhs: ri128) -> &ri128 { &ri128 { val: (self.val + rhs.val) as i128 } }
}
impl core::ops::AddAssign<ri128> for ri128 {
    #[verifier::external_body]
    fn add_assign(&mut self, rhs: ri128) { unimplemented!() }
}

impl SubSpecImpl<ri128> for ri128 {
    open spec fn obeys_sub_spec() -> bool { true }
    open spec fn sub_req(self, rhs: ri128) -> bool { i128::MIN <= self.val - rhs.val <= i128::MAX }
    open spec fn sub_spec(self, rhs: ri128) -> ri128 { ri128 { val: (self.val - rhs.val) as i128 } }
}
impl core::ops::Sub<ri128> for ri128 {
    type Output = ri128;
    #[verifier::external_body]
    fn sub(self, rhs: ri128) -> ri128 { unimplemented!() }
}
impl SubAssignSpecImpl<ri128> for ri128 {
    open spec fn obeys_sub_assign_spec() -> bool { true }
    open spec fn sub_assign_req(&self, rhs: ri128) -> bool { i128::MIN <= self.val - rhs.val <= i128::MAX }
    open spec fn sub_assign_spec(&self, rhs: ri128) -> &ri128 { &ri128 { val: (self.val - rhs.val) as i128 } }
}
impl core::ops::SubAssign<ri128> for ri128 {
    #[verifier::external_body]
    fn sub_assign(&mut self, rhs: ri128) { unimplemented!() }
}

impl MulSpecImpl<ri128> for ri128 {
    open spec fn obeys_mul_spec() -> bool { true }
    open spec fn mul_req(self, rhs: ri128) -> bool { i128::MIN <= self.val * rhs.val <= i128::MAX }
    open spec fn mul_spec(self, rhs: ri128) -> ri128 { ri128 { val: (self.val * rhs.val) as i128 } }
}
impl core::ops::Mul<ri128> for ri128 {
    type Output = ri128;
    #[verifier::external_body]
    fn mul(self, rhs: ri128) -> ri128 { unimplemented!() }
}
impl MulAssignSpecImpl<ri128> for ri128 {
    open spec fn obeys_mul_assign_spec() -> bool { true }
    open spec fn mul_assign_req(&self, rhs: ri128) -> bool { i128::MIN <= self.val * rhs.val <= i128::MAX }
    open spec fn mul_assign_spec(&self, rhs: ri128) -> &ri128 { &ri128 { val: (self.val * rhs.val) as i128 } }
}
impl core::ops::MulAssign<ri128> for ri128 {
    #[verifier::external_body]
    fn mul_assign(&mut self, rhs: ri128) { unimplemented!() }
}

impl DivSpecImpl<ri128> for ri128 {
    open spec fn obeys_div_spec() -> bool { true }
    open spec fn div_req(self, rhs: ri128) -> bool { rhs.val > 0 }
    open spec fn div_spec(self, rhs: ri128) -> ri128 { ri128 { val: (self.val as int / rhs.val as int) as i128 } }
}
impl core::ops::Div<ri128> for ri128 {
    type Output = ri128;
    #[verifier::external_body]
    fn div(self, rhs: ri128) -> ri128 { unimplemented!() }
}
impl RemSpecImpl<ri128> for ri128 {
    open spec fn obeys_rem_spec() -> bool { true }
    open spec fn rem_req(self, rhs: ri128) -> bool { rhs.val > 0 }
    open spec fn rem_spec(self, rhs: ri128) -> ri128 { ri128 { val: (self.val as int % rhs.val as int) as i128 } }
}
impl core::ops::Rem<ri128> for ri128 {
    type Output = ri128;
    #[verifier::external_body]
    fn rem(self, rhs: ri128) -> ri128 { unimplemented!() }
}

impl AddSpecImpl<Constant> for ri128 {
    open spec fn obeys_add_spec() -> bool { true }
    open spec fn add_req(self, rhs: Constant) -> bool { i128::MIN <= self.val + rhs.0 <= i128::MAX }
    open spec fn add_spec(self, rhs: Constant) -> ri128 { ri128 { val: (self.val + rhs.0) as i128 } }
}
impl core::ops::Add<Constant> for ri128 {
    type Output = ri128;
    #[verifier::external_body]
    fn add(self, rhs: Constant) -> ri128 { unimplemented!() }
}
impl AddAssignSpecImpl<Constant> for ri128 {
    open spec fn obeys_add_assign_spec() -> bool { true }
    open spec fn add_assign_req(&self, rhs: Constant) -> bool { i128::MIN <= self.val + rhs.0 <= i128::MAX }
    open spec fn add_assign_spec(&self, rhs: Constant) -> &ri128 { &ri128 { val: (self.val + rhs.0) as i128 } }
}
impl core::ops::AddAssign<Constant> for ri128 {
    #[verifier::external_body]
    fn add_assign(&mut self, rhs: Constant) { unimplemented!() }
}

impl SubSpecImpl<Constant> for ri128 {
    open spec fn obeys_sub_spec() -> bool { true }
    open spec fn sub_req(self, rhs: Constant) -> bool { i128::MIN <= self.val - rhs.0 <= i128::MAX }
    open spec fn sub_spec(self, rhs: Constant) -> ri128 { ri128 { val: (self.val - rhs.0) as i128 } }
}
impl core::ops::Sub<Constant> for ri128 {
    type Output = ri128;
    #[verifier::external_body]
    fn sub(self, rhs: Constant) -> ri128 { unimplemented!() }
}
impl SubAssignSpecImpl<Constant> for ri128 {
    open spec fn obeys_sub_assign_spec() -> bool { true }
    open spec fn sub_assign_req(&self, rhs: Constant) -> bool { i128::MIN <= self.val - rhs.0 <= i128::MAX }
    open spec fn sub_assign_spec(&self, rhs: Constant) -> &ri128 { &ri128 { val: (self.val - rhs.0) as i128 } }
}
impl core::ops::SubAssign<Constant> for ri128 {
    #[verifier::external_body]
    fn sub_assign(&mut self, rhs: Constant) { unimplemented!() }
}

impl MulSpecImpl<Constant> for ri128 {
    open spec fn obeys_mul_spec() -> bool { true }
    open spec fn mul_req(self, rhs: Constant) -> bool { i128::MIN <= self.val * rhs.0 <= i128::MAX }
    open spec fn mul_spec(self, rhs: Constant) -> ri128 { ri128 { val: (self.val * rhs.0) as i128 } }
}
impl core::ops::Mul<Constant> for ri128 {
    type Output = ri128;
    #[verifier::external_body]
    fn mul(self, rhs: Constant) -> ri128 { unimplemented!() }
}
impl MulAssignSpecImpl<Constant> for ri128 {
    open spec fn obeys_mul_assign_spec() -> bool { true }
    open spec fn mul_assign_req(&self, rhs: Constant) -> bool { i128::MIN <= self.val * rhs.0 <= i128::MAX }
    open spec fn mul_assign_spec(&self, rhs: Constant) -> &ri128 { &ri128 { val: (self.val * rhs.0) as i128 } }
}
impl core::ops::MulAssign<Constant> for ri128 {
    #[verifier::external_body]
    fn mul_assign(&mut self, rhs: Constant) { unimplemented!() }
}

impl DivSpecImpl<Constant> for ri128 {
    open spec fn obeys_div_spec() -> bool { true }
    open spec fn div_req(self, rhs: Constant) -> bool { rhs.0 > 0 }
    open spec fn div_spec(self, rhs: Constant) -> ri128 { ri128 { val: (self.val as int / rhs.0 as int) as i128 } }
}
impl core::ops::Div<Constant> for ri128 {
    type Output = ri128;
    #[verifier::external_body]
    fn div(self, rhs: Constant) -> ri128 { unimplemented!() }
}
impl RemSpecImpl<Constant> for ri128 {
    open spec fn obeys_rem_spec() -> bool { true }
    open spec fn rem_req(self, rhs: Constant) -> bool { rhs.0 > 0 }
    open spec fn rem_spec(self, rhs: Constant) -> ri128 { ri128 { val: (self.val as int % rhs.0 as int) as i128 } }
}
impl core::ops::Rem<Constant> for ri128 {
    type Output = ri128;
    #[verifier::external_body]
    fn rem(self, rhs: Constant) -> ri128 { unimplemented!() }
}

impl AddSpecImpl<ri8> for ri128 {
    open spec fn obeys_add_spec() -> bool { true }
    open spec fn add_req(self, rhs: ri8) -> bool { i128::MIN <= self.val + rhs.val <= i128::MAX }
    open spec fn add_spec(self, rhs: ri8) -> ri128 { ri128 { val: (self.val + rhs.val) as i128 } }
}
impl core::ops::Add<ri8> for ri128 {
    type Output = ri128;
    #[verifier::external_body]
    fn add(self, rhs: ri8) -> ri128 { unimplemented!() }
}
impl AddAssignSpecImpl<ri8> for ri128 {
    open spec fn obeys_add_assign_spec() -> bool { true }
    open spec fn add_assign_req(&self, rhs: ri8) -> bool { i128::MIN <= self.val + rhs.val <= i128::MAX }
    open spec fn add_assign_spec(&self, rhs: ri8) -> &ri128 { &ri128 { val: (self.val + rhs.val) as i128 } }
}
impl core::ops::AddAssign<ri8> for ri128 {
    #[verifier::external_body]
    fn add_assign(&mut self, rhs: ri8) { unimplemented!() }
}

impl SubSpecImpl<ri8> for ri128 {
    open spec fn obeys_sub_spec() -> bool { true }
    open spec fn sub_req(self, rhs: ri8) -> bool { i128::MIN <= self.val - rhs.val <= i128::MAX }
    open spec fn sub_spec(self, rhs: ri8) -> ri128 { ri128 { val: (self.val - rhs.val) as i128 } }
}
impl core::ops::Sub<ri8> for ri128 {
    type Output = ri128;
    #[verifier::external_body]
    fn sub(self, rhs: ri8) -> ri128 { unimplemented!() }
}
impl SubAssignSpecImpl<ri8> for ri128 {
    open spec fn obeys_sub_assign_spec() -> bool { true }
    open spec fn sub_assign_req(&self, rhs: ri8) -> bool { i128::MIN <= self.val - rhs.val <= i128::MAX }
    open spec fn sub_assign_spec(&self, rhs: ri8) -> &ri128 { &ri128 { val: (self.val - rhs.val) as i128 } }
}
impl core::ops::SubAssign<ri8> for ri128 {
    #[verifier::external_body]
    fn sub_assign(&mut self, rhs: ri8) { unimplemented!() }
}

impl MulSpecImpl<ri8> for ri128 {
    open spec fn obeys_mul_spec() -> bool { true }
    open spec fn mul_req(self, rhs: ri8) -> bool { i128::MIN <= self.val * rhs.val <= i128::MAX }
    open spec fn mul_spec(self, rhs: ri8) -> ri128 { ri128 { val: (self.val * rhs.val) as i128 } }
}
impl core::ops::Mul<ri8> for ri128 {
    type Output = ri128;
    #[verifier::external_body]
    fn mul(self, rhs: ri8) -> ri128 { unimplemented!() }
}
impl MulAssignSpecImpl<ri8> for ri128 {
    open spec fn obeys_mul_assign_spec() -> bool { true }
    open spec fn mul_assign_req(&self, rhs: ri8) -> bool { i128::MIN <= self.val * rhs.val <= i128::MAX }
    open spec fn mul_assign_spec(&self, rhs: ri8) -> &ri128 { &ri128 { val: (self.val * rhs.val) as i128 } }
}
impl core::ops::MulAssign<ri8> for ri128 {
    #[verifier::external_body]
    fn mul_assign(&mut self, rhs: ri8) { unimplemented!() }
}

impl DivSpecImpl<ri8> for ri128 {
    open spec fn obeys_div_spec() -> bool { true }
    open spec fn div_req(self, rhs: ri8) -> bool { rhs.val > 0 }
    open spec fn div_spec(self, rhs: ri8) -> ri128 { ri128 { val: (self.val as int / rhs.val as int) as i128 } }
}
impl core::ops::Div<ri8> for ri128 {
    type Output = ri128;
    #[verifier::external_body]
    fn div(self, rhs: ri8) -> ri128 { unimplemented!() }
}
impl RemSpecImpl<ri8> for ri128 {
    open spec fn obeys_rem_spec() -> bool { true }
    open spec fn rem_req(self, rhs: ri8) -> bool { rhs.val > 0 }
    open spec fn rem_spec(self, rhs: ri8) -> ri128 { ri128 { val: (self.val as int % rhs.val as int) as i128 } }
}
impl core::ops::Rem<ri8> for ri128 {
    type Output = ri128;
    #[verifier::external_body]
    fn rem(self, rhs: ri8) -> ri128 { unimplemented!() }
}

impl AddSpecImpl<ri16> for ri128 {
    open spec fn obeys_add_spec() -> bool { true }
    open spec fn add_req(self, rhs: ri16) -> bool { i128::MIN <= self.val + rhs.val <= i128::MAX }
    open spec fn add_spec(self, rhs: ri16) -> ri128 { ri128 { val: (self.val + rhs.val) as i128 } }
}
impl core::ops::Add<ri16> for ri128 {
    type Output = ri128;
    #[verifier::external_body]
    fn add(self, rhs: ri16) -> ri128 { unimplemented!() }
}
impl AddAssignSpecImpl<ri16> for ri128 {
    open spec fn obeys_add_assign_spec() -> bool { true }
    open spec fn add_assign_req(&self, rhs: ri16) -> bool { i128::MIN <= self.val + rhs.val <= i128::MAX }
    open spec fn add_assign_spec(&self, rhs: ri16) -> &ri128 { &ri128 { val: (self.val + rhs.val) as i128 } }
}
impl core::ops::AddAssign<ri16> for ri128 {
    #[verifier::external_body]
    fn add_assign(&mut self, rhs: ri16) { unimplemented!() }
}

impl SubSpecImpl<ri16> for ri128 {
    open spec fn obeys_sub_spec() -> bool { true }
    open spec fn sub_req(self, rhs: ri16) -> bool { i128::MIN <= self.val - rhs.val <= i128::MAX }
    open spec fn sub_spec(self, rhs: ri16) -> ri128 { ri128 { val: (self.val - rhs.val) as i128 } }
}
impl core::ops::Sub<ri16> for ri128 {
    type Output = ri128;
    #[verifier::external_body]
    fn sub(self, rhs: ri16) -> ri128 { unimplemented!() }
}
impl SubAssignSpecImpl<ri16> for ri128 {
    open spec fn obeys_sub_assign_spec() -> bool { true }
    open spec fn sub_assign_req(&self, rhs: ri16) -> bool { i128::MIN <= self.val - rhs.val <= i128::MAX }
    open spec fn sub_assign_spec(&self, rhs: ri16) -> &ri128 { &ri128 { val: (self.val - rhs.val) as i128 } }
}
impl core::ops::SubAssign<ri16> for ri128 {
    #[verifier::external_body]
    fn sub_assign(&mut self, rhs: ri16) { unimplemented!() }
}

impl MulSpecImpl<ri16> for ri128 {
    open spec fn obeys_mul_spec() -> bool { true }
    open spec fn mul_req(self, rhs: ri16) -> bool { i128::MIN <= self.val * rhs.val <= i128::MAX }
    open spec fn mul_spec(self, rhs: ri16) -> ri128 { ri128 { val: (self.val * rhs.val) as i128 } }
}
impl core::ops::Mul<ri16> for ri128 {
    type Output = ri128;
    #[verifier::external_body]
    fn mul(self, rhs: ri16) -> ri128 { unimplemented!() }
}
impl MulAssignSpecImpl<ri16> for ri128 {
    open spec fn obeys_mul_assign_spec() -> bool { true }
    open spec fn mul_assign_req(&self, rhs: ri16) -> bool { i128::MIN <= self.val * rhs.val <= i128::MAX }
    open spec fn mul_assign_spec(&self, rhs: ri16) -> &ri128 { &ri128 { val: (self.val * rhs.val) as i128 } }
}
impl core::ops::MulAssign<ri16> for ri128 {
    #[verifier::external_body]
    fn mul_assign(&mut self, rhs: ri16) { unimplemented!() }
}

impl DivSpecImpl<ri16> for ri128 {
    open spec fn obeys_div_spec() -> bool { true }
    open spec fn div_req(self, rhs: ri16) -> bool { rhs.val > 0 }
    open spec fn div_spec(self, rhs: ri16) -> ri128 { ri128 { val: (self.val as int / rhs.val as int) as i128 } }
}
impl core::ops::Div<ri16> for ri128 {
    type Output = ri128;
    #[verifier::external_body]
    fn div(self, rhs: ri16) -> ri128 { unimplemented!() }
}
impl RemSpecImpl<ri16> for ri128 {
    open spec fn obeys_rem_spec() -> bool { true }
    open spec fn rem_req(self, rhs: ri16) -> bool { rhs.val > 0 }
    open spec fn rem_spec(self, rhs: ri16) -> ri128 { ri128 { val: (self.val as int % rhs.val as int) as i128 } }
}
impl core::ops::Rem<ri16> for ri128 {
    type Output = ri128;
    #[verifier::external_body]
    fn rem(self, rhs: ri16) -> ri128 { unimplemented!() }
}

impl AddSpecImpl<ri32> for ri128 {
    open spec fn obeys_add_spec() -> bool { true }
    open spec fn add_req(self, rhs: ri32) -> bool { i128::MIN <= self.val + rhs.val <= i128::MAX }
    open spec fn add_spec(self, rhs: ri32) -> ri128 { ri128 { val: (self.val + rhs.val) as i128 } }
}
impl core::ops::Add<ri32> for ri128 {
    type Output = ri128;
    #[verifier::external_body]
    fn add(self, rhs: ri32) -> ri128 { unimplemented!() }
}
impl AddAssignSpecImpl<ri32> for ri128 {
    open spec fn obeys_add_assign_spec() -> bool { true }
    open spec fn add_assign_req(&self, rhs: ri32) -> bool { i128::MIN <= self.val + rhs.val <= i128::MAX }
    open spec fn add_assign_spec(&self, rhs: ri32) -> &ri128 { &ri128 { val: (self.val + rhs.val) as i128 } }
}
impl core::ops::AddAssign<ri32> for ri128 {
    #[verifier::external_body]
    fn add_assign(&mut self, rhs: ri32) { unimplemented!() }
}

impl SubSpecImpl<ri32> for ri128 {
    open spec fn obeys_sub_spec() -> bool { true }
    open spec fn sub_req(self, rhs: ri32) -> bool { i128::MIN <= self.val - rhs.val <= i128::MAX }
    open spec fn sub_spec(self, rhs: ri32) -> ri128 { ri128 { val: (self.val - rhs.val) as i128 } }
}
impl core::ops::Sub<ri32> for ri128 {
    type Output = ri128;
    #[verifier::external_body]
    fn sub(self, rhs: ri32) -> ri128 { unimplemented!() }
}
impl SubAssignSpecImpl<ri32> for ri128 {
    open spec fn obeys_sub_assign_spec() -> bool { true }
    open spec fn sub_assign_req(&self, rhs: ri32) -> bool { i128::MIN <= self.val - rhs.val <= i128::MAX }
    open spec fn sub_assign_spec(&self, rhs: ri32) -> &ri128 { &ri128 { val: (self.val - rhs.val) as i128 } }
}
impl core::ops::SubAssign<ri32> for ri128 {
    #[verifier::external_body]
    fn sub_assign(&mut self, rhs: ri32) { unimplemented!() }
}

impl MulSpecImpl<ri32> for ri128 {
    open spec fn obeys_mul_spec() -> bool { true }
    open spec fn mul_req(self, rhs: ri32) -> bool { i128::MIN <= self.val * rhs.val <= i128::MAX }
    open spec fn mul_spec(self, rhs: ri32) -> ri128 { ri128 { val: (self.val * rhs.val) as i128 } }
}
impl core::ops::Mul<ri32> for ri128 {
    type Output = ri128;
    #[verifier::external_body]
    fn mul(self, rhs: ri32) -> ri128 { unimplemented!() }
}
impl MulAssignSpecImpl<ri32> for ri128 {
    open spec fn obeys_mul_assign_spec() -> bool { true }
    open spec fn mul_assign_req(&self, rhs: ri32) -> bool { i128::MIN <= self.val * rhs.val <= i128::MAX }
    open spec fn mul_assign_spec(&self, rhs: ri32) -> &ri128 { &ri128 { val: (self.val * rhs.val) as i128 } }
}
impl core::ops::MulAssign<ri32> for ri128 {
    #[verifier::external_body]
    fn mul_assign(&mut self, rhs: ri32) { unimplemented!() }
}

impl DivSpecImpl<ri32> for ri128 {
    open spec fn obeys_div_spec() -> bool { true }
    open spec fn div_req(self, rhs: ri32) -> bool { rhs.val > 0 }
    open spec fn div_spec(self, rhs: ri32) -> ri128 { ri128 { val: (self.val as int / rhs.val as int) as i128 } }
}
impl core::ops::Div<ri32> for ri128 {
    type Output = ri128;
    #[verifier::external_body]
    fn div(self, rhs: ri32) -> ri128 { unimplemented!() }
}
impl RemSpecImpl<ri32> for ri128 {
    open spec fn obeys_rem_spec() -> bool { true }
    open spec fn rem_req(self, rhs: ri32) -> bool { rhs.val > 0 }
    open spec fn rem_spec(self, rhs: ri32) -> ri128 { ri128 { val: (self.val as int % rhs.val as int) as i128 } }
}
impl core::ops::Rem<ri32> for ri128 {
    type Output = ri128;
    #[verifier::external_body]
    fn rem(self, rhs: ri32) -> ri128 { unimplemented!() }
}

impl AddSpecImpl<ri64> for ri128 {
    open spec fn obeys_add_spec() -> bool { true }
    open spec fn add_req(self, rhs: ri64) -> bool { i128::MIN <= self.val + rhs.val <= i128::MAX }
    open spec fn add_spec(self, rhs: ri64) -> ri128 { ri128 { val: (self.val + rhs.val) as i128 } }
}
impl core::ops::Add<ri64> for ri128 {
    type Output = ri128;
    #[verifier::external_body]
    fn add(self, rhs: ri64) -> ri128 { unimplemented!() }
}
impl AddAssignSpecImpl<ri64> for ri128 {
    open spec fn obeys_add_assign_spec() -> bool { true }
    open spec fn add_assign_req(&self, rhs: ri64) -> bool { i128::MIN <= self.val + rhs.val <= i128::MAX }
    open spec fn add_assign_spec(&self, rhs: ri64) -> &ri128 { &ri128 { val: (self.val + rhs.val) as i128 } }
}
impl core::ops::AddAssign<ri64> for ri128 {
    #[verifier::external_body]
    fn add_assign(&mut self, rhs: ri64) { unimplemented!() }
}

impl SubSpecImpl<ri64> for ri128 {
    open spec fn obeys_sub_spec() -> bool { true }
    open spec fn sub_req(self, rhs: ri64) -> bool { i128::MIN <= self.val - rhs.val <= i128::MAX }
    open spec fn sub_spec(self, rhs: ri64) -> ri128 { ri128 { val: (self.val - rhs.val) as i128 } }
}
impl core::ops::Sub<ri64> for ri128 {
    type Output = ri128;
    #[verifier::external_body]
    fn sub(self, rhs: ri64) -> ri128 { unimplemented!() }
}
impl SubAssignSpecImpl<ri64> for ri128 {
    open spec fn obeys_sub_assign_spec() -> bool { true }
    open spec fn sub_assign_req(&self, rhs: ri64) -> bool { i128::MIN <= self.val - rhs.val <= i128::MAX }
    open spec fn sub_assign_spec(&self, rhs: ri64) -> &ri128 { &ri128 { val: (self.val - rhs.val) as i128 } }
}
impl core::ops::SubAssign<ri64> for ri128 {
    #[verifier::external_body]
    fn sub_assign(&mut self, rhs: ri64) { unimplemented!() }
}

impl MulSpecImpl<ri64> for ri128 {
    open spec fn obeys_mul_spec() -> bool { true }
    open spec fn mul_req(self, rhs: ri64) -> bool { i128::MIN <= self.val * rhs.val <= i128::MAX }
    open spec fn mul_spec(self, rhs: ri64) -> ri128 { ri128 { val: (self.val * rhs.val) as i128 } }
}
impl core::ops::Mul<ri64> for ri128 {
    type Output = ri128;
    #[verifier::external_body]
    fn mul(self, rhs: ri64) -> ri128 { unimplemented!() }
}
impl MulAssignSpecImpl<ri64> for ri128 {
    open spec fn obeys_mul_assign_spec() -> bool { true }
    open spec fn mul_assign_req(&self, rhs: ri64) -> bool { i128::MIN <= self.val * rhs.val <= i128::MAX }
    open spec fn mul_assign_spec(&self, rhs: ri64) -> &ri128 { &ri128 { val: (self.val * rhs.val) as i128 } }
}
impl core::ops::MulAssign<ri64> for ri128 {
    #[verifier::external_body]
    fn mul_assign(&mut self, rhs: ri64) { unimplemented!() }
}

impl DivSpecImpl<ri64> for ri128 {
    open spec fn obeys_div_spec() -> bool { true }
    open spec fn div_req(self, rhs: ri64) -> bool { rhs.val > 0 }
    open spec fn div_spec(self, rhs: ri64) -> ri128 { ri128 { val: (self.val as int / rhs.val as int) as i128 } }
}
impl core::ops::Div<ri64> for ri128 {
    type Output = ri128;
    #[verifier::external_body]
    fn div(self, rhs: ri64) -> ri128 { unimplemented!() }
}
impl RemSpecImpl<ri64> for ri128 {
    open spec fn obeys_rem_spec() -> bool { true }
    open spec fn rem_req(self, rhs: ri64) -> bool { rhs.val > 0 }
    open spec fn rem_spec(self, rhs: ri64) -> ri128 { ri128 { val: (self.val as int % rhs.val as int) as i128 } }
}
impl core::ops::Rem<ri64> for ri128 {
    type Output = ri128;
    #[verifier::external_body]
    fn rem(self, rhs: ri64) -> ri128 { unimplemented!() }
}

impl NegSpecImpl for ri128 {
    open spec fn obeys_neg_spec() -> bool { true }
    open spec fn neg_req(self) -> bool { self.val > i128::MIN }
    open spec fn neg_spec(self) -> ri128 { ri128 { val: (-self.val) as i128 } }
}
impl core::ops::Neg for ri128 {
    type Output = ri128;
    #[verifier::external_body]
    fn neg(self) -> ri128 { unimplemented!() }
}

impl RInto<ri16> for ri8 {
    open spec fn rinto_spec(self) -> ri16 { ri16 { val: self.val as i16 } }
    open spec fn rinto_req(self) -> bool { true }
    #[verifier::external_body]
    fn rinto(self) -> (r: ri16) { unimplemented!() }
}
impl RFrom<ri8> for ri16 {
    open spec fn rfrom_spec(t: ri8) -> ri16 { ri16 { val: t.val as i16 } }
    open spec fn rfrom_req(t: ri8) -> bool { true }
    #[verifier::external_body]
    fn rfrom(t: ri8) -> (r: ri16) { unimplemented!() }
}

impl RInto<ri32> for ri8 {
    open spec fn rinto_spec(self) -> ri32 { ri32 { val: self.val as i32 } }
    open spec fn rinto_req(self) -> bool { true }
    #[verifier::external_body]
    fn rinto(self) -> (r: ri32) { unimplemented!() }
}
impl RFrom<ri8> for ri32 {
    open spec fn rfrom_spec(t: ri8) -> ri32 { ri32 { val: t.val as i32 } }
    open spec fn rfrom_req(t: ri8) -> bool { true }
    #[verifier::external_body]
    fn rfrom(t: ri8) -> (r: ri32) { unimplemented!() }
}

impl RInto<ri64> for ri8 {
    open spec fn rinto_spec(self) -> ri64 { ri64 { val: self.val as i64 } }
    open spec fn rinto_req(self) -> bool { true }
    #[verifier::external_body]
    fn rinto(self) -> (r: ri64) { unimplemented!() }
}
impl RFrom<ri8> for ri64 {
    open spec fn rfrom_spec(t: ri8) -> ri64 { ri64 { val: t.val as i64 } }
    open spec fn rfrom_req(t: ri8) -> bool { true }
    #[verifier::external_body]
    fn rfrom(t: ri8) -> (r: ri64) { unimplemented!() }
}

impl RInto<ri128> for ri8 {
    open spec fn rinto_spec(self) -> ri128 { ri128 { val: self.val as i128 } }
    open spec fn rinto_req(self) -> bool { true }
    #[verifier::external_body]
    fn rinto(self) -> (r: ri128) { unimplemented!() }
}
impl RFrom<ri8> for ri128 {
    open spec fn rfrom_spec(t: ri8) -> ri128 { ri128 { val: t.val as i128 } }
    open spec fn rfrom_req(t: ri8) -> bool { true }
    #[verifier::external_body]
    fn rfrom(t: ri8) -> (r: ri128) { unimplemented!() }
}

impl RInto<ri8> for ri16 {
    open spec fn rinto_spec(self) -> ri8 { ri8 { val: self.val as i8 } }
    open spec fn rinto_req(self) -> bool { i8::MIN <= self.val <= i8::MAX }
    #[verifier::external_body]
    fn rinto(self) -> (r: ri8) { unimplemented!() }
}
impl RFrom<ri16> for ri8 {
    open spec fn rfrom_spec(t: ri16) -> ri8 { ri8 { val: t.val as i8 } }
    open spec fn rfrom_req(t: ri16) -> bool { i8::MIN <= t.val <= i8::MAX }
    #[verifier::external_body]
    fn rfrom(t: ri16) -> (r: ri8) { unimplemented!() }
}

impl RInto<ri32> for ri16 {
    open spec fn rinto_spec(self) -> ri32 { ri32 { val: self.val as i32 } }
    open spec fn rinto_req(self) -> bool { true }
    #[verifier::external_body]
    fn rinto(self) -> (r: ri32) { unimplemented!() }
}
impl RFrom<ri16> for ri32 {
    open spec fn rfrom_spec(t: ri16) -> ri32 { ri32 { val: t.val as i32 } }
    open spec fn rfrom_req(t: ri16) -> bool { true }
    #[verifier::external_body]
    fn rfrom(t: ri16) -> (r: ri32) { unimplemented!() }
}

impl RInto<ri64> for ri16 {
    open spec fn rinto_spec(self) -> ri64 { ri64 { val: self.val as i64 } }
    open spec fn rinto_req(self) -> bool { true }
    #[verifier::external_body]
    fn rinto(self) -> (r: ri64) { unimplemented!() }
}
impl RFrom<ri16> for ri64 {
    open spec fn rfrom_spec(t: ri16) -> ri64 { ri64 { val: t.val as i64 } }
    open spec fn rfrom_req(t: ri16) -> bool { true }
    #[verifier::external_body]
    fn rfrom(t: ri16) -> (r: ri64) { unimplemented!() }
}

impl RInto<ri128> for ri16 {
    open spec fn rinto_spec(self) -> ri128 { ri128 { val: self.val as i128 } }
    open spec fn rinto_req(self) -> bool { true }
    #[verifier::external_body]
    fn rinto(self) -> (r: ri128) { unimplemented!() }
}
impl RFrom<ri16> for ri128 {
    open spec fn rfrom_spec(t: ri16) -> ri128 { ri128 { val: t.val as i128 } }
    open spec fn rfrom_req(t: ri16) -> bool { true }
    #[verifier::external_body]
    fn rfrom(t: ri16) -> (r: ri128) { unimplemented!() }
}

impl RInto<ri8> for ri32 {
    open spec fn rinto_spec(self) -> ri8 { ri8 { val: self.val as i8 } }
    open spec fn rinto_req(self) -> bool { i8::MIN <= self.val <= i8::MAX }
    #[verifier::external_body]
    fn rinto(self) -> (r: ri8) { unimplemented!() }
}
impl RFrom<ri32> for ri8 {
    open spec fn rfrom_spec(t: ri32) -> ri8 { ri8 { val: t.val as i8 } }
    open spec fn rfrom_req(t: ri32) -> bool { i8::MIN <= t.val <= i8::MAX }
    #[verifier::external_body]
    fn rfrom(t: ri32) -> (r: ri8) { unimplemented!() }
}

impl RInto<ri16> for ri32 {
    open spec fn rinto_spec(self) -> ri16 { ri16 { val: self.val as i16 } }
    open spec fn rinto_req(self) -> bool { i16::MIN <= self.val <= i16::MAX }
    #[verifier::external_body]
    fn rinto(self) -> (r: ri16) { unimplemented!() }
}
impl RFrom<ri32> for ri16 {
    open spec fn rfrom_spec(t: ri32) -> ri16 { ri16 { val: t.val as i16 } }
    open spec fn rfrom_req(t: ri32) -> bool { i16::MIN <= t.val <= i16::MAX }
    #[verifier::external_body]
    fn rfrom(t: ri32) -> (r: ri16) { unimplemented!() }
}

impl RInto<ri64> for ri32 {
    open spec fn rinto_spec(self) -> ri64 { ri64 { val: self.val as i64 } }
    open spec fn rinto_req(self) -> bool { true }
    #[verifier::external_body]
    fn rinto(self) -> (r: ri64) { unimplemented!() }
}
impl RFrom<ri32> for ri64 {
    open spec fn rfrom_spec(t: ri32) -> ri64 { ri64 { val: t.val as i64 } }
    open spec fn rfrom_req(t: ri32) -> bool { true }
    #[verifier::external_body]
    fn rfrom(t: ri32) -> (r: ri64) { unimplemented!() }
}

impl RInto<ri128> for ri32 {
    open spec fn rinto_spec(self) -> ri128 { ri128 { val: self.val as i128 } }
    open spec fn rinto_req(self) -> bool { true }
    #[verifier::external_body]
    fn rinto(self) -> (r: ri128) { unimplemented!() }
}
impl RFrom<ri32> for ri128 {
    open spec fn rfrom_spec(t: ri32) -> ri128 { ri128 { val: t.val as i128 } }
    open spec fn rfrom_req(t: ri32) -> bool { true }
    #[verifier::external_body]
    fn rfrom(t: ri32) -> (r: ri128) { unimplemented!() }
}

impl RInto<ri8> for ri64 {
    open spec fn rinto_spec(self) -> ri8 { ri8 { val: self.val as i8 } }
    open spec fn rinto_req(self) -> bool { i8::MIN <= self.val <= i8::MAX }
    #[verifier::external_body]
    fn rinto(self) -> (r: ri8) { unimplemented!() }
}
impl RFrom<ri64> for ri8 {
    open spec fn rfrom_spec(t: ri64) -> ri8 { ri8 { val: t.val as i8 } }
    open spec fn rfrom_req(t: ri64) -> bool { i8::MIN <= t.val <= i8::MAX }
    #[verifier::external_body]
    fn rfrom(t: ri64) -> (r: ri8) { unimplemented!() }
}

impl RInto<ri16> for ri64 {
    open spec fn rinto_spec(self) -> ri16 { ri16 { val: self.val as i16 } }
    open spec fn rinto_req(self) -> bool { i16::MIN <= self.val <= i16::MAX }
    #[verifier::external_body]
    fn rinto(self) -> (r: ri16) { unimplemented!() }
}
impl RFrom<ri64> for ri16 {
    open spec fn rfrom_spec(t: ri64) -> ri16 { ri16 { val: t.val as i16 } }
    open spec fn rfrom_req(t: ri64) -> bool { i16::MIN <= t.val <= i16::MAX }
    #[verifier::external_body]
    fn rfrom(t: ri64) -> (r: ri16) { unimplemented!() }
}

impl RInto<ri32> for ri64 {
    open spec fn rinto_spec(self) -> ri32 { ri32 { val: self.val as i32 } }
    open spec fn rinto_req(self) -> bool { i32::MIN <= self.val <= i32::MAX }
    #[verifier::external_body]
    fn rinto(self) -> (r: ri32) { unimplemented!() }
}
impl RFrom<ri64> for ri32 {
    open spec fn rfrom_spec(t: ri64) -> ri32 { ri32 { val: t.val as i32 } }
    open spec fn rfrom_req(t: ri64) -> bool { i32::MIN <= t.val <= i32::MAX }
    #[verifier::external_body]
    fn rfrom(t: ri64) -> (r: ri32) { unimplemented!() }
}

impl RInto<ri128> for ri64 {
    open spec fn rinto_spec(self) -> ri128 { ri128 { val: self.val as i128 } }
    open spec fn rinto_req(self) -> bool { true }
    #[verifier::external_body]
    fn rinto(self) -> (r: ri128) { unimplemented!() }
}
impl RFrom<ri64> for ri128 {
    open spec fn rfrom_spec(t: ri64) -> ri128 { ri128 { val: t.val as i128 } }
    open spec fn rfrom_req(t: ri64) -> bool { true }
    #[verifier::external_body]
    fn rfrom(t: ri64) -> (r: ri128) { unimplemented!() }
}

impl RInto<ri8> for ri128 {
    open spec fn rinto_spec(self) -> ri8 { ri8 { val: self.val as i8 } }
    open spec fn rinto_req(self) -> bool { i8::MIN <= self.val <= i8::MAX }
    #[verifier::external_body]
    fn rinto(self) -> (r: ri8) { unimplemented!() }
}
impl RFrom<ri128> for ri8 {
    open spec fn rfrom_spec(t: ri128) -> ri8 { ri8 { val: t.val as i8 } }
    open spec fn rfrom_req(t: ri128) -> bool { i8::MIN <= t.val <= i8::MAX }
    #[verifier::external_body]
    fn rfrom(t: ri128) -> (r: ri8) { unimplemented!() }
}

impl RInto<ri16> for ri128 {
    open spec fn rinto_spec(self) -> ri16 { ri16 { val: self.val as i16 } }
    open spec fn rinto_req(self) -> bool { i16::MIN <= self.val <= i16::MAX }
    #[verifier::external_body]
    fn rinto(self) -> (r: ri16) { unimplemented!() }
}
impl RFrom<ri128> for ri16 {
    open spec fn rfrom_spec(t: ri128) -> ri16 { ri16 { val: t.val as i16 } }
    open spec fn rfrom_req(t: ri128) -> bool { i16::MIN <= t.val <= i16::MAX }
    #[verifier::external_body]
    fn rfrom(t: ri128) -> (r: ri16) { unimplemented!() }
}

impl RInto<ri32> for ri128 {
    open spec fn rinto_spec(self) -> ri32 { ri32 { val: self.val as i32 } }
    open spec fn rinto_req(self) -> bool { i32::MIN <= self.val <= i32::MAX }
    #[verifier::external_body]
    fn rinto(self) -> (r: ri32) { unimplemented!() }
}
impl RFrom<ri128> for ri32 {
    open spec fn rfrom_spec(t: ri128) -> ri32 { ri32 { val: t.val as i32 } }
    open spec fn rfrom_req(t: ri128) -> bool { i32::MIN <= t.val <= i32::MAX }
    #[verifier::external_body]
    fn rfrom(t: ri128) -> (r: ri32) { unimplemented!() }
}

impl RInto<ri64> for ri128 {
    open spec fn rinto_spec(self) -> ri64 { ri64 { val: self.val as i64 } }
    open spec fn rinto_req(self) -> bool { i64::MIN <= self.val <= i64::MAX }
    #[verifier::external_body]
    fn rinto(self) -> (r: ri64) { unimplemented!() }
}
impl RFrom<ri128> for ri64 {
    open spec fn rfrom_spec(t: ri128) -> ri64 { ri64 { val: t.val as i64 } }
    open spec fn rfrom_req(t: ri128) -> bool { i64::MIN <= t.val <= i64::MAX }
    #[verifier::external_body]
    fn rfrom(t: ri128) -> (r: ri64) { unimplemented!() }
}


// ------------------------------------------------------------------ aliases (bounds re-introduced here only)
#[verifier::external_body]
#[derive(Debug)]
pub struct Error { _p: () }
#[verifier::external_body]
pub fn verif_err() -> Error { unimplemented!() }
pub type NoUnits = ri64;
pub open spec fn NoUnits_MIN() -> int { -9223372036854775808 }
pub open spec fn NoUnits_MAX() -> int { 9223372036854775807 }
pub open spec fn in_NoUnits(v: int) -> bool { -9223372036854775808 <= v <= 9223372036854775807 }
#[verifier::external_body]
pub fn verif_try_rfrom_NoUnits_8(r: ri8) -> (res: Result<ri64, Error>)
    ensures res.is_ok() <==> in_NoUnits(r.val as int), res.is_ok() ==> res.unwrap().val == r.val
{ unimplemented!() }
#[verifier::external_body]
pub fn verif_try_rfrom_NoUnits_16(r: ri16) -> (res: Result<ri64, Error>)
    ensures res.is_ok() <==> in_NoUnits(r.val as int), res.is_ok() ==> res.unwrap().val == r.val
{ unimplemented!() }
#[verifier::external_body]
pub fn verif_try_rfrom_NoUnits_32(r: ri32) -> (res: Result<ri64, Error>)
    ensures res.is_ok() <==> in_NoUnits(r.val as int), res.is_ok() ==> res.unwrap().val == r.val
{ unimplemented!() }
#[verifier::external_body]
pub fn verif_try_rfrom_NoUnits_64(r: ri64) -> (res: Result<ri64, Error>)
    ensures res.is_ok() <==> in_NoUnits(r.val as int), res.is_ok() ==> res.unwrap().val == r.val
{ unimplemented!() }
#[verifier::external_body]
pub fn verif_try_rfrom_NoUnits_128(r: ri128) -> (res: Result<ri64, Error>)
    ensures res.is_ok() <==> in_NoUnits(r.val as int), res.is_ok() ==> res.unwrap().val == r.val
{ unimplemented!() }
#[verifier::external_body]
pub fn verif_try_new_NoUnits(v: i64) -> (res: Result<ri64, Error>)
    ensures res.is_ok() <==> in_NoUnits(v as int), res.is_ok() ==> res.unwrap().val == v
{ unimplemented!() }
#[verifier::external_body]
pub fn verif_try_new128_NoUnits(v: i128) -> (res: Result<ri64, Error>)
    ensures res.is_ok() <==> in_NoUnits(v as int), res.is_ok() ==> res.unwrap().val == v
{ unimplemented!() }
// `NoUnits::MIN` / `NoUnits::MAX` (associated consts of type i128)
pub fn verif_MIN_NoUnits() -> (r: i128) ensures r == NoUnits_MIN() { -9223372036854775808 }
pub fn verif_MAX_NoUnits() -> (r: i128) ensures r == NoUnits_MAX() { 9223372036854775807 }
// `x.try_checked_mul("what", rhs)` with x: NoUnits -- Ok iff the exact product lies within NoUnits::MIN..=MAX
#[verifier::external_body]
pub fn verif_try_checked_mul_NoUnits<R: RInto<ri64>>(x: ri64, rhs: R) -> (res: Result<ri64, Error>)
    requires rhs.rinto_req(),
    ensures res.is_ok() <==> in_NoUnits(x.val * rhs.rinto_spec().val), res.is_ok() ==> res.unwrap().val == x.val * rhs.rinto_spec().val
{ unimplemented!() }
// `x.try_checked_add/sub("what", rhs)` and `x.checked_add/sub/mul(rhs)` with x: NoUnits -- fail iff the exact result leaves NoUnits::MIN..=MAX
#[verifier::external_body]
pub fn verif_try_checked_add_NoUnits<R: RInto<ri64>>(x: ri64, rhs: R) -> (res: Result<ri64, Error>)
    requires rhs.rinto_req(),
    ensures res.is_ok() <==> in_NoUnits(x.val + rhs.rinto_spec().val), res.is_ok() ==> res.unwrap().val == x.val + rhs.rinto_spec().val
{ unimplemented!() }
#[verifier::external_body]
pub fn verif_try_checked_sub_NoUnits<R: RInto<ri64>>(x: ri64, rhs: R) -> (res: Result<ri64, Error>)
    requires rhs.rinto_req(),
    ensures res.is_ok() <==> in_NoUnits(x.val - rhs.rinto_spec().val), res.is_ok() ==> res.unwrap().val == x.val - rhs.rinto_spec().val
{ unimplemented!() }
#[verifier::external_body]
pub fn verif_checked_add_NoUnits<R: RInto<ri64>>(x: ri64, rhs: R) -> (res: Option<ri64>)
    requires rhs.rinto_req(),
    ensures res.is_some() <==> in_NoUnits(x.val + rhs.rinto_spec().val), res.is_some() ==> res.unwrap().val == x.val + rhs.rinto_spec().val
{ unimplemented!() }
#[verifier::external_body]
pub fn verif_checked_sub_NoUnits<R: RInto<ri64>>(x: ri64, rhs: R) -> (res: Option<ri64>)
    requires rhs.rinto_req(),
    ensures res.is_some() <==> in_NoUnits(x.val - rhs.rinto_spec().val), res.is_some() ==> res.unwrap().val == x.val - rhs.rinto_spec().val
{ unimplemented!() }
#[verifier::external_body]
pub fn verif_checked_mul_NoUnits<R: RInto<ri64>>(x: ri64, rhs: R) -> (res: Option<ri64>)
    requires rhs.rinto_req(),
    ensures res.is_some() <==> in_NoUnits(x.val * rhs.rinto_spec().val), res.is_some() ==> res.unwrap().val == x.val * rhs.rinto_spec().val
{ unimplemented!() }
pub type NoUnits128 = ri128;
pub open spec fn NoUnits128_MIN() -> int { -170141183460469231731687303715884105728 }
pub open spec fn NoUnits128_MAX() -> int { 170141183460469231731687303715884105727 }
pub open spec fn in_NoUnits128(v: int) -> bool { -170141183460469231731687303715884105728 <= v <= 170141183460469231731687303715884105727 }
#[verifier::external_body]
pub fn verif_try_rfrom_NoUnits128_8(r: ri8) -> (res: Result<ri128, Error>)
    ensures res.is_ok() <==> in_NoUnits128(r.val as int), res.is_ok() ==> res.unwrap().val == r.val
{ unimplemented!() }
#[verifier::external_body]
pub fn verif_try_rfrom_NoUnits128_16(r: ri16) -> (res: Result<ri128, Error>)
    ensures res.is_ok() <==> in_NoUnits128(r.val as int), res.is_ok() ==> res.unwrap().val == r.val
{ unimplemented!() }
#[verifier::external_body]
pub fn verif_try_rfrom_NoUnits128_32(r: ri32) -> (res: Result<ri128, Error>)
    ensures res.is_ok() <==> in_NoUnits128(r.val as int), res.is_ok() ==> res.unwrap().val == r.val
{ unimplemented!() }
#[verifier::external_body]
pub fn verif_try_rfrom_NoUnits128_64(r: ri64) -> (res: Result<ri128, Error>)
    ensures res.is_ok() <==> in_NoUnits128(r.val as int), res.is_ok() ==> res.unwrap().val == r.val
{ unimplemented!() }
#[verifier::external_body]
pub fn verif_try_rfrom_NoUnits128_128(r: ri128) -> (res: Result<ri128, Error>)
    ensures res.is_ok() <==> in_NoUnits128(r.val as int), res.is_ok() ==> res.unwrap().val == r.val
{ unimplemented!() }
#[verifier::external_body]
pub fn verif_try_new_NoUnits128(v: i64) -> (res: Result<ri128, Error>)
    ensures res.is_ok() <==> in_NoUnits128(v as int), res.is_ok() ==> res.unwrap().val == v
{ unimplemented!() }
#[verifier::external_body]
pub fn verif_try_new128_NoUnits128(v: i128) -> (res: Result<ri128, Error>)
    ensures res.is_ok() <==> in_NoUnits128(v as int), res.is_ok() ==> res.unwrap().val == v
{ unimplemented!() }
// `NoUnits128::MIN` / `NoUnits128::MAX` (associated consts of type i128)
pub fn verif_MIN_NoUnits128() -> (r: i128) ensures r == NoUnits128_MIN() { -170141183460469231731687303715884105728 }
pub fn verif_MAX_NoUnits128() -> (r: i128) ensures r == NoUnits128_MAX() { 170141183460469231731687303715884105727 }
// `x.try_checked_mul("what", rhs)` with x: NoUnits128 -- Ok iff the exact product lies within NoUnits128::MIN..=MAX
#[verifier::external_body]
pub fn verif_try_checked_mul_NoUnits128<R: RInto<ri128>>(x: ri128, rhs: R) -> (res: Result<ri128, Error>)
    requires rhs.rinto_req(),
    ensures res.is_ok() <==> in_NoUnits128(x.val * rhs.rinto_spec().val), res.is_ok() ==> res.unwrap().val == x.val * rhs.rinto_spec().val
{ unimplemented!() }
// `x.try_checked_add/sub("what", rhs)` and `x.checked_add/sub/mul(rhs)` with x: NoUnits128 -- fail iff the exact result leaves NoUnits128::MIN..=MAX
#[verifier::external_body]
pub fn verif_try_checked_add_NoUnits128<R: RInto<ri128>>(x: ri128, rhs: R) -> (res: Result<ri128, Error>)
    requires rhs.rinto_req(),
    ensures res.is_ok() <==> in_NoUnits128(x.val + rhs.rinto_spec().val), res.is_ok() ==> res.unwrap().val == x.val + rhs.rinto_spec().val
{ unimplemented!() }
#[verifier::external_body]
pub fn verif_try_checked_sub_NoUnits128<R: RInto<ri128>>(x: ri128, rhs: R) -> (res: Result<ri128, Error>)
    requires rhs.rinto_req(),
    ensures res.is_ok() <==> in_NoUnits128(x.val - rhs.rinto_spec().val), res.is_ok() ==> res.unwrap().val == x.val - rhs.rinto_spec().val
{ unimplemented!() }
#[verifier::external_body]
pub fn verif_checked_add_NoUnits128<R: RInto<ri128>>(x: ri128, rhs: R) -> (res: Option<ri128>)
    requires rhs.rinto_req(),
    ensures res.is_some() <==> in_NoUnits128(x.val + rhs.rinto_spec().val), res.is_some() ==> res.unwrap().val == x.val + rhs.rinto_spec().val
{ unimplemented!() }
#[verifier::external_body]
pub fn verif_checked_sub_NoUnits128<R: RInto<ri128>>(x: ri128, rhs: R) -> (res: Option<ri128>)
    requires rhs.rinto_req(),
    ensures res.is_some() <==> in_NoUnits128(x.val - rhs.rinto_spec().val), res.is_some() ==> res.unwrap().val == x.val - rhs.rinto_spec().val
{ unimplemented!() }
#[verifier::external_body]
pub fn verif_checked_mul_NoUnits128<R: RInto<ri128>>(x: ri128, rhs: R) -> (res: Option<ri128>)
    requires rhs.rinto_req(),
    ensures res.is_some() <==> in_NoUnits128(x.val * rhs.rinto_spec().val), res.is_some() ==> res.unwrap().val == x.val * rhs.rinto_spec().val
{ unimplemented!() }
pub type NoUnits96 = ri128;
pub open spec fn NoUnits96_MIN() -> int { -39614081257132168796771975168 }
pub open spec fn NoUnits96_MAX() -> int { 39614081257132168796771975167 }
pub open spec fn in_NoUnits96(v: int) -> bool { -39614081257132168796771975168 <= v <= 39614081257132168796771975167 }
#[verifier::external_body]
pub fn verif_try_rfrom_NoUnits96_8(r: ri8) -> (res: Result<ri128, Error>)
    ensures res.is_ok() <==> in_NoUnits96(r.val as int), res.is_ok() ==> res.unwrap().val == r.val
{ unimplemented!() }
#[verifier::external_body]
pub fn verif_try_rfrom_NoUnits96_16(r: ri16) -> (res: Result<ri128, Error>)
    ensures res.is_ok() <==> in_NoUnits96(r.val as int), res.is_ok() ==> res.unwrap().val == r.val
{ unimplemented!() }
#[verifier::external_body]
pub fn verif_try_rfrom_NoUnits96_32(r: ri32) -> (res: Result<ri128, Error>)
    ensures res.is_ok() <==> in_NoUnits96(r.val as int), res.is_ok() ==> res.unwrap().val == r.val
{ unimplemented!() }
#[verifier::external_body]
pub fn verif_try_rfrom_NoUnits96_64(r: ri64) -> (res: Result<ri128, Error>)
    ensures res.is_ok() <==> in_NoUnits96(r.val as int), res.is_ok() ==> res.unwrap().val == r.val
{ unimplemented!() }
#[verifier::external_body]
pub fn verif_try_rfrom_NoUnits96_128(r: ri128) -> (res: Result<ri128, Error>)
    ensures res.is_ok() <==> in_NoUnits96(r.val as int), res.is_ok() ==> res.unwrap().val == r.val
{ unimplemented!() }
#[verifier::external_body]
pub fn verif_try_new_NoUnits96(v: i64) -> (res: Result<ri128, Error>)
    ensures res.is_ok() <==> in_NoUnits96(v as int), res.is_ok() ==> res.unwrap().val == v
{ unimplemented!() }
#[verifier::external_body]
pub fn verif_try_new128_NoUnits96(v: i128) -> (res: Result<ri128, Error>)
    ensures res.is_ok() <==> in_NoUnits96(v as int), res.is_ok() ==> res.unwrap().val == v
{ unimplemented!() }
// `NoUnits96::MIN` / `NoUnits96::MAX` (associated consts of type i128)
pub fn verif_MIN_NoUnits96() -> (r: i128) ensures r == NoUnits96_MIN() { -39614081257132168796771975168 }
pub fn verif_MAX_NoUnits96() -> (r: i128) ensures r == NoUnits96_MAX() { 39614081257132168796771975167 }
// `x.try_checked_mul("what", rhs)` with x: NoUnits96 -- Ok iff the exact product lies within NoUnits96::MIN..=MAX
#[verifier::external_body]
pub fn verif_try_checked_mul_NoUnits96<R: RInto<ri128>>(x: ri128, rhs: R) -> (res: Result<ri128, Error>)
    requires rhs.rinto_req(),
    ensures res.is_ok() <==> in_NoUnits96(x.val * rhs.rinto_spec().val), res.is_ok() ==> res.unwrap().val == x.val * rhs.rinto_spec().val
{ unimplemented!() }
// `x.try_checked_add/sub("what", rhs)` and `x.checked_add/sub/mul(rhs)` with x: NoUnits96 -- fail iff the exact result leaves NoUnits96::MIN..=MAX
#[verifier::external_body]
pub fn verif_try_checked_add_NoUnits96<R: RInto<ri128>>(x: ri128, rhs: R) -> (res: Result<ri128, Error>)
    requires rhs.rinto_req(),
    ensures res.is_ok() <==> in_NoUnits96(x.val + rhs.rinto_spec().val), res.is_ok() ==> res.unwrap().val == x.val + rhs.rinto_spec().val
{ unimplemented!() }
#[verifier::external_body]
pub fn verif_try_checked_sub_NoUnits96<R: RInto<ri128>>(x: ri128, rhs: R) -> (res: Result<ri128, Error>)
    requires rhs.rinto_req(),
    ensures res.is_ok() <==> in_NoUnits96(x.val - rhs.rinto_spec().val), res.is_ok() ==> res.unwrap().val == x.val - rhs.rinto_spec().val
{ unimplemented!() }
#[verifier::external_body]
pub fn verif_checked_add_NoUnits96<R: RInto<ri128>>(x: ri128, rhs: R) -> (res: Option<ri128>)
    requires rhs.rinto_req(),
    ensures res.is_some() <==> in_NoUnits96(x.val + rhs.rinto_spec().val), res.is_some() ==> res.unwrap().val == x.val + rhs.rinto_spec().val
{ unimplemented!() }
#[verifier::external_body]
pub fn verif_checked_sub_NoUnits96<R: RInto<ri128>>(x: ri128, rhs: R) -> (res: Option<ri128>)
    requires rhs.rinto_req(),
    ensures res.is_some() <==> in_NoUnits96(x.val - rhs.rinto_spec().val), res.is_some() ==> res.unwrap().val == x.val - rhs.rinto_spec().val
{ unimplemented!() }
#[verifier::external_body]
pub fn verif_checked_mul_NoUnits96<R: RInto<ri128>>(x: ri128, rhs: R) -> (res: Option<ri128>)
    requires rhs.rinto_req(),
    ensures res.is_some() <==> in_NoUnits96(x.val * rhs.rinto_spec().val), res.is_some() ==> res.unwrap().val == x.val * rhs.rinto_spec().val
{ unimplemented!() }
pub type NoUnits32 = ri32;
pub open spec fn NoUnits32_MIN() -> int { -2147483648 }
pub open spec fn NoUnits32_MAX() -> int { 2147483647 }
pub open spec fn in_NoUnits32(v: int) -> bool { -2147483648 <= v <= 2147483647 }
#[verifier::external_body]
pub fn verif_try_rfrom_NoUnits32_8(r: ri8) -> (res: Result<ri32, Error>)
    ensures res.is_ok() <==> in_NoUnits32(r.val as int), res.is_ok() ==> res.unwrap().val == r.val
{ unimplemented!() }
#[verifier::external_body]
pub fn verif_try_rfrom_NoUnits32_16(r: ri16) -> (res: Result<ri32, Error>)
    ensures res.is_ok() <==> in_NoUnits32(r.val as int), res.is_ok() ==> res.unwrap().val == r.val
{ unimplemented!() }
#[verifier::external_body]
pub fn verif_try_rfrom_NoUnits32_32(r: ri32) -> (res: Result<ri32, Error>)
    ensures res.is_ok() <==> in_NoUnits32(r.val as int), res.is_ok() ==> res.unwrap().val == r.val
{ unimplemented!() }
#[verifier::external_body]
pub fn verif_try_rfrom_NoUnits32_64(r: ri64) -> (res: Result<ri32, Error>)
    ensures res.is_ok() <==> in_NoUnits32(r.val as int), res.is_ok() ==> res.unwrap().val == r.val
{ unimplemented!() }
#[verifier::external_body]
pub fn verif_try_rfrom_NoUnits32_128(r: ri128) -> (res: Result<ri32, Error>)
    ensures res.is_ok() <==> in_NoUnits32(r.val as int), res.is_ok() ==> res.unwrap().val == r.val
{ unimplemented!() }
#[verifier::external_body]
pub fn verif_try_new_NoUnits32(v: i64) -> (res: Result<ri32, Error>)
    ensures res.is_ok() <==> in_NoUnits32(v as int), res.is_ok() ==> res.unwrap().val == v
{ unimplemented!() }
#[verifier::external_body]
pub fn verif_try_new128_NoUnits32(v: i128) -> (res: Result<ri32, Error>)
    ensures res.is_ok() <==> in_NoUnits32(v as int), res.is_ok() ==> res.unwrap().val == v
{ unimplemented!() }
// `NoUnits32::MIN` / `NoUnits32::MAX` (associated consts of type i128)
pub fn verif_MIN_NoUnits32() -> (r: i128) ensures r == NoUnits32_MIN() { -2147483648 }
pub fn verif_MAX_NoUnits32() -> (r: i128) ensures r == NoUnits32_MAX() { 2147483647 }
// `x.try_checked_mul("what", rhs)` with x: NoUnits32 -- Ok iff the exact product lies within NoUnits32::MIN..=MAX
#[verifier::external_body]
pub fn verif_try_checked_mul_NoUnits32<R: RInto<ri32>>(x: ri32, rhs: R) -> (res: Result<ri32, Error>)
    requires rhs.rinto_req(),
    ensures res.is_ok() <==> in_NoUnits32(x.val * rhs.rinto_spec().val), res.is_ok() ==> res.unwrap().val == x.val * rhs.rinto_spec().val
{ unimplemented!() }
// `x.try_checked_add/sub("what", rhs)` and `x.checked_add/sub/mul(rhs)` with x: NoUnits32 -- fail iff the exact result leaves NoUnits32::MIN..=MAX
#[verifier::external_body]
pub fn verif_try_checked_add_NoUnits32<R: RInto<ri32>>(x: ri32, rhs: R) -> (res: Result<ri32, Error>)
    requires rhs.rinto_req(),
    ensures res.is_ok() <==> in_NoUnits32(x.val + rhs.rinto_spec().val), res.is_ok() ==> res.unwrap().val == x.val + rhs.rinto_spec().val
{ unimplemented!() }
#[verifier::external_body]
pub fn verif_try_checked_sub_NoUnits32<R: RInto<ri32>>(x: ri32, rhs: R) -> (res: Result<ri32, Error>)
    requires rhs.rinto_req(),
    ensures res.is_ok() <==> in_NoUnits32(x.val - rhs.rinto_spec().val), res.is_ok() ==> res.unwrap().val == x.val - rhs.rinto_spec().val
{ unimplemented!() }
#[verifier::external_body]
pub fn verif_checked_add_NoUnits32<R: RInto<ri32>>(x: ri32, rhs: R) -> (res: Option<ri32>)
    requires rhs.rinto_req(),
    ensures res.is_some() <==> in_NoUnits32(x.val + rhs.rinto_spec().val), res.is_some() ==> res.unwrap().val == x.val + rhs.rinto_spec().val
{ unimplemented!() }
#[verifier::external_body]
pub fn verif_checked_sub_NoUnits32<R: RInto<ri32>>(x: ri32, rhs: R) -> (res: Option<ri32>)
    requires rhs.rinto_req(),
    ensures res.is_some() <==> in_NoUnits32(x.val - rhs.rinto_spec().val), res.is_some() ==> res.unwrap().val == x.val - rhs.rinto_spec().val
{ unimplemented!() }
#[verifier::external_body]
pub fn verif_checked_mul_NoUnits32<R: RInto<ri32>>(x: ri32, rhs: R) -> (res: Option<ri32>)
    requires rhs.rinto_req(),
    ensures res.is_some() <==> in_NoUnits32(x.val * rhs.rinto_spec().val), res.is_some() ==> res.unwrap().val == x.val * rhs.rinto_spec().val
{ unimplemented!() }
pub type NoUnits16 = ri16;
pub open spec fn NoUnits16_MIN() -> int { -32768 }
pub open spec fn NoUnits16_MAX() -> int { 32767 }
pub open spec fn in_NoUnits16(v: int) -> bool { -32768 <= v <= 32767 }
#[verifier::external_body]
pub fn verif_try_rfrom_NoUnits16_8(r: ri8) -> (res: Result<ri16, Error>)
    ensures res.is_ok() <==> in_NoUnits16(r.val as int), res.is_ok() ==> res.unwrap().val == r.val
{ unimplemented!() }
#[verifier::external_body]
pub fn verif_try_rfrom_NoUnits16_16(r: ri16) -> (res: Result<ri16, Error>)
    ensures res.is_ok() <==> in_NoUnits16(r.val as int), res.is_ok() ==> res.unwrap().val == r.val
{ unimplemented!() }
#[verifier::external_body]
pub fn verif_try_rfrom_NoUnits16_32(r: ri32) -> (res: Result<ri16, Error>)
    ensures res.is_ok() <==> in_NoUnits16(r.val as int), res.is_ok() ==> res.unwrap().val == r.val
{ unimplemented!() }
#[verifier::external_body]
pub fn verif_try_rfrom_NoUnits16_64(r: ri64) -> (res: Result<ri16, Error>)
    ensures res.is_ok() <==> in_NoUnits16(r.val as int), res.is_ok() ==> res.unwrap().val == r.val
{ unimplemented!() }
#[verifier::external_body]
pub fn verif_try_rfrom_NoUnits16_128(r: ri128) -> (res: Result<ri16, Error>)
    ensures res.is_ok() <==> in_NoUnits16(r.val as int), res.is_ok() ==> res.unwrap().val == r.val
{ unimplemented!() }
#[verifier::external_body]
pub fn verif_try_new_NoUnits16(v: i64) -> (res: Result<ri16, Error>)
    ensures res.is_ok() <==> in_NoUnits16(v as int), res.is_ok() ==> res.unwrap().val == v
{ unimplemented!() }
#[verifier::external_body]
pub fn verif_try_new128_NoUnits16(v: i128) -> (res: Result<ri16, Error>)
    ensures res.is_ok() <==> in_NoUnits16(v as int), res.is_ok() ==> res.unwrap().val == v
{ unimplemented!() }
// `NoUnits16::MIN` / `NoUnits16::MAX` (associated consts of type i128)
pub fn verif_MIN_NoUnits16() -> (r: i128) ensures r == NoUnits16_MIN() { -32768 }
pub fn verif_MAX_NoUnits16() -> (r: i128) ensures r == NoUnits16_MAX() { 32767 }
// `x.try_checked_mul("what", rhs)` with x: NoUnits16 -- Ok iff the exact product lies within NoUnits16::MIN..=MAX
#[verifier::external_body]
pub fn verif_try_checked_mul_NoUnits16<R: RInto<ri16>>(x: ri16, rhs: R) -> (res: Result<ri16, Error>)
    requires rhs.rinto_req(),
    ensures res.is_ok() <==> in_NoUnits16(x.val * rhs.rinto_spec().val), res.is_ok() ==> res.unwrap().val == x.val * rhs.rinto_spec().val
{ unimplemented!() }
// `x.try_checked_add/sub("what", rhs)` and `x.checked_add/sub/mul(rhs)` with x: NoUnits16 -- fail iff the exact result leaves NoUnits16::MIN..=MAX
#[verifier::external_body]
pub fn verif_try_checked_add_NoUnits16<R: RInto<ri16>>(x: ri16, rhs: R) -> (res: Result<ri16, Error>)
    requires rhs.rinto_req(),
    ensures res.is_ok() <==> in_NoUnits16(x.val + rhs.rinto_spec().val), res.is_ok() ==> res.unwrap().val == x.val + rhs.rinto_spec().val
{ unimplemented!() }
#[verifier::external_body]
pub fn verif_try_checked_sub_NoUnits16<R: RInto<ri16>>(x: ri16, rhs: R) -> (res: Result<ri16, Error>)
    requires rhs.rinto_req(),
    ensures res.is_ok() <==> in_NoUnits16(x.val - rhs.rinto_spec().val), res.is_ok() ==> res.unwrap().val == x.val - rhs.rinto_spec().val
{ unimplemented!() }
#[verifier::external_body]
pub fn verif_checked_add_NoUnits16<R: RInto<ri16>>(x: ri16, rhs: R) -> (res: Option<ri16>)
    requires rhs.rinto_req(),
    ensures res.is_some() <==> in_NoUnits16(x.val + rhs.rinto_spec().val), res.is_some() ==> res.unwrap().val == x.val + rhs.rinto_spec().val
{ unimplemented!() }
#[verifier::external_body]
pub fn verif_checked_sub_NoUnits16<R: RInto<ri16>>(x: ri16, rhs: R) -> (res: Option<ri16>)
    requires rhs.rinto_req(),
    ensures res.is_some() <==> in_NoUnits16(x.val - rhs.rinto_spec().val), res.is_some() ==> res.unwrap().val == x.val - rhs.rinto_spec().val
{ unimplemented!() }
#[verifier::external_body]
pub fn verif_checked_mul_NoUnits16<R: RInto<ri16>>(x: ri16, rhs: R) -> (res: Option<ri16>)
    requires rhs.rinto_req(),
    ensures res.is_some() <==> in_NoUnits16(x.val * rhs.rinto_spec().val), res.is_some() ==> res.unwrap().val == x.val * rhs.rinto_spec().val
{ unimplemented!() }
pub type NoUnits8 = ri8;
pub open spec fn NoUnits8_MIN() -> int { -128 }
pub open spec fn NoUnits8_MAX() -> int { 127 }
pub open spec fn in_NoUnits8(v: int) -> bool { -128 <= v <= 127 }
#[verifier::external_body]
pub fn verif_try_rfrom_NoUnits8_8(r: ri8) -> (res: Result<ri8, Error>)
    ensures res.is_ok() <==> in_NoUnits8(r.val as int), res.is_ok() ==> res.unwrap().val == r.val
{ unimplemented!() }
#[verifier::external_body]
pub fn verif_try_rfrom_NoUnits8_16(r: ri16) -> (res: Result<ri8, Error>)
    ensures res.is_ok() <==> in_NoUnits8(r.val as int), res.is_ok() ==> res.unwrap().val == r.val
{ unimplemented!() }
#[verifier::external_body]
pub fn verif_try_rfrom_NoUnits8_32(r: ri32) -> (res: Result<ri8, Error>)
    ensures res.is_ok() <==> in_NoUnits8(r.val as int), res.is_ok() ==> res.unwrap().val == r.val
{ unimplemented!() }
#[verifier::external_body]
pub fn verif_try_rfrom_NoUnits8_64(r: ri64) -> (res: Result<ri8, Error>)
    ensures res.is_ok() <==> in_NoUnits8(r.val as int), res.is_ok() ==> res.unwrap().val == r.val
{ unimplemented!() }
#[verifier::external_body]
pub fn verif_try_rfrom_NoUnits8_128(r: ri128) -> (res: Result<ri8, Error>)
    ensures res.is_ok() <==> in_NoUnits8(r.val as int), res.is_ok() ==> res.unwrap().val == r.val
{ unimplemented!() }
#[verifier::external_body]
pub fn verif_try_new_NoUnits8(v: i64) -> (res: Result<ri8, Error>)
    ensures res.is_ok() <==> in_NoUnits8(v as int), res.is_ok() ==> res.unwrap().val == v
{ unimplemented!() }
#[verifier::external_body]
pub fn verif_try_new128_NoUnits8(v: i128) -> (res: Result<ri8, Error>)
    ensures res.is_ok() <==> in_NoUnits8(v as int), res.is_ok() ==> res.unwrap().val == v
{ unimplemented!() }
// `NoUnits8::MIN` / `NoUnits8::MAX` (associated consts of type i128)
pub fn verif_MIN_NoUnits8() -> (r: i128) ensures r == NoUnits8_MIN() { -128 }
pub fn verif_MAX_NoUnits8() -> (r: i128) ensures r == NoUnits8_MAX() { 127 }
// `x.try_checked_mul("what", rhs)` with x: NoUnits8 -- Ok iff the exact product lies within NoUnits8::MIN..=MAX
#[verifier::external_body]
pub fn verif_try_checked_mul_NoUnits8<R: RInto<ri8>>(x: ri8, rhs: R) -> (res: Result<ri8, Error>)
    requires rhs.rinto_req(),
    ensures res.is_ok() <==> in_NoUnits8(x.val * rhs.rinto_spec().val), res.is_ok() ==> res.unwrap().val == x.val * rhs.rinto_spec().val
{ unimplemented!() }
// `x.try_checked_add/sub("what", rhs)` and `x.checked_add/sub/mul(rhs)` with x: NoUnits8 -- fail iff the exact result leaves NoUnits8::MIN..=MAX
#[verifier::external_body]
pub fn verif_try_checked_add_NoUnits8<R: RInto<ri8>>(x: ri8, rhs: R) -> (res: Result<ri8, Error>)
    requires rhs.rinto_req(),
    ensures res.is_ok() <==> in_NoUnits8(x.val + rhs.rinto_spec().val), res.is_ok() ==> res.unwrap().val == x.val + rhs.rinto_spec().val
{ unimplemented!() }
#[verifier::external_body]
pub fn verif_try_checked_sub_NoUnits8<R: RInto<ri8>>(x: ri8, rhs: R) -> (res: Result<ri8, Error>)
    requires rhs.rinto_req(),
    ensures res.is_ok() <==> in_NoUnits8(x.val - rhs.rinto_spec().val), res.is_ok() ==> res.unwrap().val == x.val - rhs.rinto_spec().val
{ unimplemented!() }
#[verifier::external_body]
pub fn verif_checked_add_NoUnits8<R: RInto<ri8>>(x: ri8, rhs: R) -> (res: Option<ri8>)
    requires rhs.rinto_req(),
    ensures res.is_some() <==> in_NoUnits8(x.val + rhs.rinto_spec().val), res.is_some() ==> res.unwrap().val == x.val + rhs.rinto_spec().val
{ unimplemented!() }
#[verifier::external_body]
pub fn verif_checked_sub_NoUnits8<R: RInto<ri8>>(x: ri8, rhs: R) -> (res: Option<ri8>)
    requires rhs.rinto_req(),
    ensures res.is_some() <==> in_NoUnits8(x.val - rhs.rinto_spec().val), res.is_some() ==> res.unwrap().val == x.val - rhs.rinto_spec().val
{ unimplemented!() }
#[verifier::external_body]
pub fn verif_checked_mul_NoUnits8<R: RInto<ri8>>(x: ri8, rhs: R) -> (res: Option<ri8>)
    requires rhs.rinto_req(),
    ensures res.is_some() <==> in_NoUnits8(x.val * rhs.rinto_spec().val), res.is_some() ==> res.unwrap().val == x.val * rhs.rinto_spec().val
{ unimplemented!() }
pub type Sign = ri8;
pub open spec fn Sign_MIN() -> int { -1 }
pub open spec fn Sign_MAX() -> int { 1 }
pub open spec fn in_Sign(v: int) -> bool { -1 <= v <= 1 }
#[verifier::external_body]
pub fn verif_try_rfrom_Sign_8(r: ri8) -> (res: Result<ri8, Error>)
    ensures res.is_ok() <==> in_Sign(r.val as int), res.is_ok() ==> res.unwrap().val == r.val
{ unimplemented!() }
#[verifier::external_body]
pub fn verif_try_rfrom_Sign_16(r: ri16) -> (res: Result<ri8, Error>)
    ensures res.is_ok() <==> in_Sign(r.val as int), res.is_ok() ==> res.unwrap().val == r.val
{ unimplemented!() }
#[verifier::external_body]
pub fn verif_try_rfrom_Sign_32(r: ri32) -> (res: Result<ri8, Error>)
    ensures res.is_ok() <==> in_Sign(r.val as int), res.is_ok() ==> res.unwrap().val == r.val
{ unimplemented!() }
#[verifier::external_body]
pub fn verif_try_rfrom_Sign_64(r: ri64) -> (res: Result<ri8, Error>)
    ensures res.is_ok() <==> in_Sign(r.val as int), res.is_ok() ==> res.unwrap().val == r.val
{ unimplemented!() }
#[verifier::external_body]
pub fn verif_try_rfrom_Sign_128(r: ri128) -> (res: Result<ri8, Error>)
    ensures res.is_ok() <==> in_Sign(r.val as int), res.is_ok() ==> res.unwrap().val == r.val
{ unimplemented!() }
#[verifier::external_body]
pub fn verif_try_new_Sign(v: i64) -> (res: Result<ri8, Error>)
    ensures res.is_ok() <==> in_Sign(v as int), res.is_ok() ==> res.unwrap().val == v
{ unimplemented!() }
#[verifier::external_body]
pub fn verif_try_new128_Sign(v: i128) -> (res: Result<ri8, Error>)
    ensures res.is_ok() <==> in_Sign(v as int), res.is_ok() ==> res.unwrap().val == v
{ unimplemented!() }
// `Sign::MIN` / `Sign::MAX` (associated consts of type i128)
pub fn verif_MIN_Sign() -> (r: i128) ensures r == Sign_MIN() { -1 }
pub fn verif_MAX_Sign() -> (r: i128) ensures r == Sign_MAX() { 1 }
// `x.try_checked_mul("what", rhs)` with x: Sign -- Ok iff the exact product lies within Sign::MIN..=MAX
#[verifier::external_body]
pub fn verif_try_checked_mul_Sign<R: RInto<ri8>>(x: ri8, rhs: R) -> (res: Result<ri8, Error>)
    requires rhs.rinto_req(),
    ensures res.is_ok() <==> in_Sign(x.val * rhs.rinto_spec().val), res.is_ok() ==> res.unwrap().val == x.val * rhs.rinto_spec().val
{ unimplemented!() }
// `x.try_checked_add/sub("what", rhs)` and `x.checked_add/sub/mul(rhs)` with x: Sign -- fail iff the exact result leaves Sign::MIN..=MAX
#[verifier::external_body]
pub fn verif_try_checked_add_Sign<R: RInto<ri8>>(x: ri8, rhs: R) -> (res: Result<ri8, Error>)
    requires rhs.rinto_req(),
    ensures res.is_ok() <==> in_Sign(x.val + rhs.rinto_spec().val), res.is_ok() ==> res.unwrap().val == x.val + rhs.rinto_spec().val
{ unimplemented!() }
#[verifier::external_body]
pub fn verif_try_checked_sub_Sign<R: RInto<ri8>>(x: ri8, rhs: R) -> (res: Result<ri8, Error>)
    requires rhs.rinto_req(),
    ensures res.is_ok() <==> in_Sign(x.val - rhs.rinto_spec().val), res.is_ok() ==> res.unwrap().val == x.val - rhs.rinto_spec().val
{ unimplemented!() }
#[verifier::external_body]
pub fn verif_checked_add_Sign<R: RInto<ri8>>(x: ri8, rhs: R) -> (res: Option<ri8>)
    requires rhs.rinto_req(),
    ensures res.is_some() <==> in_Sign(x.val + rhs.rinto_spec().val), res.is_some() ==> res.unwrap().val == x.val + rhs.rinto_spec().val
{ unimplemented!() }
#[verifier::external_body]
pub fn verif_checked_sub_Sign<R: RInto<ri8>>(x: ri8, rhs: R) -> (res: Option<ri8>)
    requires rhs.rinto_req(),
    ensures res.is_some() <==> in_Sign(x.val - rhs.rinto_spec().val), res.is_some() ==> res.unwrap().val == x.val - rhs.rinto_spec().val
{ unimplemented!() }
#[verifier::external_body]
pub fn verif_checked_mul_Sign<R: RInto<ri8>>(x: ri8, rhs: R) -> (res: Option<ri8>)
    requires rhs.rinto_req(),
    ensures res.is_some() <==> in_Sign(x.val * rhs.rinto_spec().val), res.is_some() ==> res.unwrap().val == x.val * rhs.rinto_spec().val
{ unimplemented!() }
pub type Year = ri16;
pub open spec fn Year_MIN() -> int { -9999 }
pub open spec fn Year_MAX() -> int { 9999 }
pub open spec fn in_Year(v: int) -> bool { -9999 <= v <= 9999 }
#[verifier::external_body]
pub fn verif_try_rfrom_Year_8(r: ri8) -> (res: Result<ri16, Error>)
    ensures res.is_ok() <==> in_Year(r.val as int), res.is_ok() ==> res.unwrap().val == r.val
{ unimplemented!() }
#[verifier::external_body]
pub fn verif_try_rfrom_Year_16(r: ri16) -> (res: Result<ri16, Error>)
    ensures res.is_ok() <==> in_Year(r.val as int), res.is_ok() ==> res.unwrap().val == r.val
{ unimplemented!() }
#[verifier::external_body]
pub fn verif_try_rfrom_Year_32(r: ri32) -> (res: Result<ri16, Error>)
    ensures res.is_ok() <==> in_Year(r.val as int), res.is_ok() ==> res.unwrap().val == r.val
{ unimplemented!() }
#[verifier::external_body]
pub fn verif_try_rfrom_Year_64(r: ri64) -> (res: Result<ri16, Error>)
    ensures res.is_ok() <==> in_Year(r.val as int), res.is_ok() ==> res.unwrap().val == r.val
{ unimplemented!() }
#[verifier::external_body]
pub fn verif_try_rfrom_Year_128(r: ri128) -> (res: Result<ri16, Error>)
    ensures res.is_ok() <==> in_Year(r.val as int), res.is_ok() ==> res.unwrap().val == r.val
{ unimplemented!() }
#[verifier::external_body]
pub fn verif_try_new_Year(v: i64) -> (res: Result<ri16, Error>)
    ensures res.is_ok() <==> in_Year(v as int), res.is_ok() ==> res.unwrap().val == v
{ unimplemented!() }
#[verifier::external_body]
pub fn verif_try_new128_Year(v: i128) -> (res: Result<ri16, Error>)
    ensures res.is_ok() <==> in_Year(v as int), res.is_ok() ==> res.unwrap().val == v
{ unimplemented!() }
// `Year::MIN` / `Year::MAX` (associated consts of type i128)
pub fn verif_MIN_Year() -> (r: i128) ensures r == Year_MIN() { -9999 }
pub fn verif_MAX_Year() -> (r: i128) ensures r == Year_MAX() { 9999 }
// `x.try_checked_mul("what", rhs)` with x: Year -- Ok iff the exact product lies within Year::MIN..=MAX
#[verifier::external_body]
pub fn verif_try_checked_mul_Year<R: RInto<ri16>>(x: ri16, rhs: R) -> (res: Result<ri16, Error>)
    requires rhs.rinto_req(),
    ensures res.is_ok() <==> in_Year(x.val * rhs.rinto_spec().val), res.is_ok() ==> res.unwrap().val == x.val * rhs.rinto_spec().val
{ unimplemented!() }
// `x.try_checked_add/sub("what", rhs)` and `x.checked_add/sub/mul(rhs)` with x: Year -- fail iff the exact result leaves Year::MIN..=MAX
#[verifier::external_body]
pub fn verif_try_checked_add_Year<R: RInto<ri16>>(x: ri16, rhs: R) -> (res: Result<ri16, Error>)
    requires rhs.rinto_req(),
    ensures res.is_ok() <==> in_Year(x.val + rhs.rinto_spec().val), res.is_ok() ==> res.unwrap().val == x.val + rhs.rinto_spec().val
{ unimplemented!() }
#[verifier::external_body]
pub fn verif_try_checked_sub_Year<R: RInto<ri16>>(x: ri16, rhs: R) -> (res: Result<ri16, Error>)
    requires rhs.rinto_req(),
    ensures res.is_ok() <==> in_Year(x.val - rhs.rinto_spec().val), res.is_ok() ==> res.unwrap().val == x.val - rhs.rinto_spec().val
{ unimplemented!() }
#[verifier::external_body]
pub fn verif_checked_add_Year<R: RInto<ri16>>(x: ri16, rhs: R) -> (res: Option<ri16>)
    requires rhs.rinto_req(),
    ensures res.is_some() <==> in_Year(x.val + rhs.rinto_spec().val), res.is_some() ==> res.unwrap().val == x.val + rhs.rinto_spec().val
{ unimplemented!() }
#[verifier::external_body]
pub fn verif_checked_sub_Year<R: RInto<ri16>>(x: ri16, rhs: R) -> (res: Option<ri16>)
    requires rhs.rinto_req(),
    ensures res.is_some() <==> in_Year(x.val - rhs.rinto_spec().val), res.is_some() ==> res.unwrap().val == x.val - rhs.rinto_spec().val
{ unimplemented!() }
#[verifier::external_body]
pub fn verif_checked_mul_Year<R: RInto<ri16>>(x: ri16, rhs: R) -> (res: Option<ri16>)
    requires rhs.rinto_req(),
    ensures res.is_some() <==> in_Year(x.val * rhs.rinto_spec().val), res.is_some() ==> res.unwrap().val == x.val * rhs.rinto_spec().val
{ unimplemented!() }
pub type Month = ri8;
pub open spec fn Month_MIN() -> int { 1 }
pub open spec fn Month_MAX() -> int { 12 }
pub open spec fn in_Month(v: int) -> bool { 1 <= v <= 12 }
#[verifier::external_body]
pub fn verif_try_rfrom_Month_8(r: ri8) -> (res: Result<ri8, Error>)
    ensures res.is_ok() <==> in_Month(r.val as int), res.is_ok() ==> res.unwrap().val == r.val
{ unimplemented!() }
#[verifier::external_body]
pub fn verif_try_rfrom_Month_16(r: ri16) -> (res: Result<ri8, Error>)
    ensures res.is_ok() <==> in_Month(r.val as int), res.is_ok() ==> res.unwrap().val == r.val
{ unimplemented!() }
#[verifier::external_body]
pub fn verif_try_rfrom_Month_32(r: ri32) -> (res: Result<ri8, Error>)
    ensures res.is_ok() <==> in_Month(r.val as int), res.is_ok() ==> res.unwrap().val == r.val
{ unimplemented!() }
#[verifier::external_body]
pub fn verif_try_rfrom_Month_64(r: ri64) -> (res: Result<ri8, Error>)
    ensures res.is_ok() <==> in_Month(r.val as int), res.is_ok() ==> res.unwrap().val == r.val
{ unimplemented!() }
#[verifier::external_body]
pub fn verif_try_rfrom_Month_128(r: ri128) -> (res: Result<ri8, Error>)
    ensures res.is_ok() <==> in_Month(r.val as int), res.is_ok() ==> res.unwrap().val == r.val
{ unimplemented!() }
#[verifier::external_body]
pub fn verif_try_new_Month(v: i64) -> (res: Result<ri8, Error>)
    ensures res.is_ok() <==> in_Month(v as int), res.is_ok() ==> res.unwrap().val == v
{ unimplemented!() }
#[verifier::external_body]
pub fn verif_try_new128_Month(v: i128) -> (res: Result<ri8, Error>)
    ensures res.is_ok() <==> in_Month(v as int), res.is_ok() ==> res.unwrap().val == v
{ unimplemented!() }
// `Month::MIN` / `Month::MAX` (associated consts of type i128)
pub fn verif_MIN_Month() -> (r: i128) ensures r == Month_MIN() { 1 }
pub fn verif_MAX_Month() -> (r: i128) ensures r == Month_MAX() { 12 }
// `x.try_checked_mul("what", rhs)` with x: Month -- Ok iff the exact product lies within Month::MIN..=MAX
#[verifier::external_body]
pub fn verif_try_checked_mul_Month<R: RInto<ri8>>(x: ri8, rhs: R) -> (res: Result<ri8, Error>)
    requires rhs.rinto_req(),
    ensures res.is_ok() <==> in_Month(x.val * rhs.rinto_spec().val), res.is_ok() ==> res.unwrap().val == x.val * rhs.rinto_spec().val
{ unimplemented!() }
// `x.try_checked_add/sub("what", rhs)` and `x.checked_add/sub/mul(rhs)` with x: Month -- fail iff the exact result leaves Month::MIN..=MAX
#[verifier::external_body]
pub fn verif_try_checked_add_Month<R: RInto<ri8>>(x: ri8, rhs: R) -> (res: Result<ri8, Error>)
    requires rhs.rinto_req(),
    ensures res.is_ok() <==> in_Month(x.val + rhs.rinto_spec().val), res.is_ok() ==> res.unwrap().val == x.val + rhs.rinto_spec().val
{ unimplemented!() }
#[verifier::external_body]
pub fn verif_try_checked_sub_Month<R: RInto<ri8>>(x: ri8, rhs: R) -> (res: Result<ri8, Error>)
    requires rhs.rinto_req(),
    ensures res.is_ok() <==> in_Month(x.val - rhs.rinto_spec().val), res.is_ok() ==> res.unwrap().val == x.val - rhs.rinto_spec().val
{ unimplemented!() }
#[verifier::external_body]
pub fn verif_checked_add_Month<R: RInto<ri8>>(x: ri8, rhs: R) -> (res: Option<ri8>)
    requires rhs.rinto_req(),
    ensures res.is_some() <==> in_Month(x.val + rhs.rinto_spec().val), res.is_some() ==> res.unwrap().val == x.val + rhs.rinto_spec().val
{ unimplemented!() }
#[verifier::external_body]
pub fn verif_checked_sub_Month<R: RInto<ri8>>(x: ri8, rhs: R) -> (res: Option<ri8>)
    requires rhs.rinto_req(),
    ensures res.is_some() <==> in_Month(x.val - rhs.rinto_spec().val), res.is_some() ==> res.unwrap().val == x.val - rhs.rinto_spec().val
{ unimplemented!() }
#[verifier::external_body]
pub fn verif_checked_mul_Month<R: RInto<ri8>>(x: ri8, rhs: R) -> (res: Option<ri8>)
    requires rhs.rinto_req(),
    ensures res.is_some() <==> in_Month(x.val * rhs.rinto_spec().val), res.is_some() ==> res.unwrap().val == x.val * rhs.rinto_spec().val
{ unimplemented!() }
pub type Day = ri8;
pub open spec fn Day_MIN() -> int { 1 }
pub open spec fn Day_MAX() -> int { 31 }
pub open spec fn in_Day(v: int) -> bool { 1 <= v <= 31 }
#[verifier::external_body]
pub fn verif_try_rfrom_Day_8(r: ri8) -> (res: Result<ri8, Error>)
    ensures res.is_ok() <==> in_Day(r.val as int), res.is_ok() ==> res.unwrap().val == r.val
{ unimplemented!() }
#[verifier::external_body]
pub fn verif_try_rfrom_Day_16(r: ri16) -> (res: Result<ri8, Error>)
    ensures res.is_ok() <==> in_Day(r.val as int), res.is_ok() ==> res.unwrap().val == r.val
{ unimplemented!() }
#[verifier::external_body]
pub fn verif_try_rfrom_Day_32(r: ri32) -> (res: Result<ri8, Error>)
    ensures res.is_ok() <==> in_Day(r.val as int), res.is_ok() ==> res.unwrap().val == r.val
{ unimplemented!() }
#[verifier::external_body]
pub fn verif_try_rfrom_Day_64(r: ri64) -> (res: Result<ri8, Error>)
    ensures res.is_ok() <==> in_Day(r.val as int), res.is_ok() ==> res.unwrap().val == r.val
{ unimplemented!() }
#[verifier::external_body]
pub fn verif_try_rfrom_Day_128(r: ri128) -> (res: Result<ri8, Error>)
    ensures res.is_ok() <==> in_Day(r.val as int), res.is_ok() ==> res.unwrap().val == r.val
{ unimplemented!() }
#[verifier::external_body]
pub fn verif_try_new_Day(v: i64) -> (res: Result<ri8, Error>)
    ensures res.is_ok() <==> in_Day(v as int), res.is_ok() ==> res.unwrap().val == v
{ unimplemented!() }
#[verifier::external_body]
pub fn verif_try_new128_Day(v: i128) -> (res: Result<ri8, Error>)
    ensures res.is_ok() <==> in_Day(v as int), res.is_ok() ==> res.unwrap().val == v
{ unimplemented!() }
// `Day::MIN` / `Day::MAX` (associated consts of type i128)
pub fn verif_MIN_Day() -> (r: i128) ensures r == Day_MIN() { 1 }
pub fn verif_MAX_Day() -> (r: i128) ensures r == Day_MAX() { 31 }
// `x.try_checked_mul("what", rhs)` with x: Day -- Ok iff the exact product lies within Day::MIN..=MAX
#[verifier::external_body]
pub fn verif_try_checked_mul_Day<R: RInto<ri8>>(x: ri8, rhs: R) -> (res: Result<ri8, Error>)
    requires rhs.rinto_req(),
    ensures res.is_ok() <==> in_Day(x.val * rhs.rinto_spec().val), res.is_ok() ==> res.unwrap().val == x.val * rhs.rinto_spec().val
{ unimplemented!() }
// `x.try_checked_add/sub("what", rhs)` and `x.checked_add/sub/mul(rhs)` with x: Day -- fail iff the exact result leaves Day::MIN..=MAX
#[verifier::external_body]
pub fn verif_try_checked_add_Day<R: RInto<ri8>>(x: ri8, rhs: R) -> (res: Result<ri8, Error>)
    requires rhs.rinto_req(),
    ensures res.is_ok() <==> in_Day(x.val + rhs.rinto_spec().val), res.is_ok() ==> res.unwrap().val == x.val + rhs.rinto_spec().val
{ unimplemented!() }
#[verifier::external_body]
pub fn verif_try_checked_sub_Day<R: RInto<ri8>>(x: ri8, rhs: R) -> (res: Result<ri8, Error>)
    requires rhs.rinto_req(),
    ensures res.is_ok() <==> in_Day(x.val - rhs.rinto_spec().val), res.is_ok() ==> res.unwrap().val == x.val - rhs.rinto_spec().val
{ unimplemented!() }
#[verifier::external_body]
pub fn verif_checked_add_Day<R: RInto<ri8>>(x: ri8, rhs: R) -> (res: Option<ri8>)
    requires rhs.rinto_req(),
    ensures res.is_some() <==> in_Day(x.val + rhs.rinto_spec().val), res.is_some() ==> res.unwrap().val == x.val + rhs.rinto_spec().val
{ unimplemented!() }
#[verifier::external_body]
pub fn verif_checked_sub_Day<R: RInto<ri8>>(x: ri8, rhs: R) -> (res: Option<ri8>)
    requires rhs.rinto_req(),
    ensures res.is_some() <==> in_Day(x.val - rhs.rinto_spec().val), res.is_some() ==> res.unwrap().val == x.val - rhs.rinto_spec().val
{ unimplemented!() }
#[verifier::external_body]
pub fn verif_checked_mul_Day<R: RInto<ri8>>(x: ri8, rhs: R) -> (res: Option<ri8>)
    requires rhs.rinto_req(),
    ensures res.is_some() <==> in_Day(x.val * rhs.rinto_spec().val), res.is_some() ==> res.unwrap().val == x.val * rhs.rinto_spec().val
{ unimplemented!() }
pub type Hour = ri8;
pub open spec fn Hour_MIN() -> int { 0 }
pub open spec fn Hour_MAX() -> int { 23 }
pub open spec fn in_Hour(v: int) -> bool { 0 <= v <= 23 }
#[verifier::external_body]
pub fn verif_try_rfrom_Hour_8(r: ri8) -> (res: Result<ri8, Error>)
    ensures res.is_ok() <==> in_Hour(r.val as int), res.is_ok() ==> res.unwrap().val == r.val
{ unimplemented!() }
#[verifier::external_body]
pub fn verif_try_rfrom_Hour_16(r: ri16) -> (res: Result<ri8, Error>)
    ensures res.is_ok() <==> in_Hour(r.val as int), res.is_ok() ==> res.unwrap().val == r.val
{ unimplemented!() }
#[verifier::external_body]
pub fn verif_try_rfrom_Hour_32(r: ri32) -> (res: Result<ri8, Error>)
    ensures res.is_ok() <==> in_Hour(r.val as int), res.is_ok() ==> res.unwrap().val == r.val
{ unimplemented!() }
#[verifier::external_body]
pub fn verif_try_rfrom_Hour_64(r: ri64) -> (res: Result<ri8, Error>)
    ensures res.is_ok() <==> in_Hour(r.val as int), res.is_ok() ==> res.unwrap().val == r.val
{ unimplemented!() }
#[verifier::external_body]
pub fn verif_try_rfrom_Hour_128(r: ri128) -> (res: Result<ri8, Error>)
    ensures res.is_ok() <==> in_Hour(r.val as int), res.is_ok() ==> res.unwrap().val == r.val
{ unimplemented!() }
#[verifier::external_body]
pub fn verif_try_new_Hour(v: i64) -> (res: Result<ri8, Error>)
    ensures res.is_ok() <==> in_Hour(v as int), res.is_ok() ==> res.unwrap().val == v
{ unimplemented!() }
#[verifier::external_body]
pub fn verif_try_new128_Hour(v: i128) -> (res: Result<ri8, Error>)
    ensures res.is_ok() <==> in_Hour(v as int), res.is_ok() ==> res.unwrap().val == v
{ unimplemented!() }
// `Hour::MIN` / `Hour::MAX` (associated consts of type i128)
pub fn verif_MIN_Hour() -> (r: i128) ensures r == Hour_MIN() { 0 }
pub fn verif_MAX_Hour() -> (r: i128) ensures r == Hour_MAX() { 23 }
// `x.try_checked_mul("what", rhs)` with x: Hour -- Ok iff the exact product lies within Hour::MIN..=MAX
#[verifier::external_body]
pub fn verif_try_checked_mul_Hour<R: RInto<ri8>>(x: ri8, rhs: R) -> (res: Result<ri8, Error>)
    requires rhs.rinto_req(),
    ensures res.is_ok() <==> in_Hour(x.val * rhs.rinto_spec().val), res.is_ok() ==> res.unwrap().val == x.val * rhs.rinto_spec().val
{ unimplemented!() }
// `x.try_checked_add/sub("what", rhs)` and `x.checked_add/sub/mul(rhs)` with x: Hour -- fail iff the exact result leaves Hour::MIN..=MAX
#[verifier::external_body]
pub fn verif_try_checked_add_Hour<R: RInto<ri8>>(x: ri8, rhs: R) -> (res: Result<ri8, Error>)
    requires rhs.rinto_req(),
    ensures res.is_ok() <==> in_Hour(x.val + rhs.rinto_spec().val), res.is_ok() ==> res.unwrap().val == x.val + rhs.rinto_spec().val
{ unimplemented!() }
#[verifier::external_body]
pub fn verif_try_checked_sub_Hour<R: RInto<ri8>>(x: ri8, rhs: R) -> (res: Result<ri8, Error>)
    requires rhs.rinto_req(),
    ensures res.is_ok() <==> in_Hour(x.val - rhs.rinto_spec().val), res.is_ok() ==> res.unwrap().val == x.val - rhs.rinto_spec().val
{ unimplemented!() }
#[verifier::external_body]
pub fn verif_checked_add_Hour<R: RInto<ri8>>(x: ri8, rhs: R) -> (res: Option<ri8>)
    requires rhs.rinto_req(),
    ensures res.is_some() <==> in_Hour(x.val + rhs.rinto_spec().val), res.is_some() ==> res.unwrap().val == x.val + rhs.rinto_spec().val
{ unimplemented!() }
#[verifier::external_body]
pub fn verif_checked_sub_Hour<R: RInto<ri8>>(x: ri8, rhs: R) -> (res: Option<ri8>)
    requires rhs.rinto_req(),
    ensures res.is_some() <==> in_Hour(x.val - rhs.rinto_spec().val), res.is_some() ==> res.unwrap().val == x.val - rhs.rinto_spec().val
{ unimplemented!() }
#[verifier::external_body]
pub fn verif_checked_mul_Hour<R: RInto<ri8>>(x: ri8, rhs: R) -> (res: Option<ri8>)
    requires rhs.rinto_req(),
    ensures res.is_some() <==> in_Hour(x.val * rhs.rinto_spec().val), res.is_some() ==> res.unwrap().val == x.val * rhs.rinto_spec().val
{ unimplemented!() }
pub type Minute = ri8;
pub open spec fn Minute_MIN() -> int { 0 }
pub open spec fn Minute_MAX() -> int { 59 }
pub open spec fn in_Minute(v: int) -> bool { 0 <= v <= 59 }
#[verifier::external_body]
pub fn verif_try_rfrom_Minute_8(r: ri8) -> (res: Result<ri8, Error>)
    ensures res.is_ok() <==> in_Minute(r.val as int), res.is_ok() ==> res.unwrap().val == r.val
{ unimplemented!() }
#[verifier::external_body]
pub fn verif_try_rfrom_Minute_16(r: ri16) -> (res: Result<ri8, Error>)
    ensures res.is_ok() <==> in_Minute(r.val as int), res.is_ok() ==> res.unwrap().val == r.val
{ unimplemented!() }
#[verifier::external_body]
pub fn verif_try_rfrom_Minute_32(r: ri32) -> (res: Result<ri8, Error>)
    ensures res.is_ok() <==> in_Minute(r.val as int), res.is_ok() ==> res.unwrap().val == r.val
{ unimplemented!() }
#[verifier::external_body]
pub fn verif_try_rfrom_Minute_64(r: ri64) -> (res: Result<ri8, Error>)
    ensures res.is_ok() <==> in_Minute(r.val as int), res.is_ok() ==> res.unwrap().val == r.val
{ unimplemented!() }
#[verifier::external_body]
pub fn verif_try_rfrom_Minute_128(r: ri128) -> (res: Result<ri8, Error>)
    ensures res.is_ok() <==> in_Minute(r.val as int), res.is_ok() ==> res.unwrap().val == r.val
{ unimplemented!() }
#[verifier::external_body]
pub fn verif_try_new_Minute(v: i64) -> (res: Result<ri8, Error>)
    ensures res.is_ok() <==> in_Minute(v as int), res.is_ok() ==> res.unwrap().val == v
{ unimplemented!() }
#[verifier::external_body]
pub fn verif_try_new128_Minute(v: i128) -> (res: Result<ri8, Error>)
    ensures res.is_ok() <==> in_Minute(v as int), res.is_ok() ==> res.unwrap().val == v
{ unimplemented!() }
// `Minute::MIN` / `Minute::MAX` (associated consts of type i128)
pub fn verif_MIN_Minute() -> (r: i128) ensures r == Minute_MIN() { 0 }
pub fn verif_MAX_Minute() -> (r: i128) ensures r == Minute_MAX() { 59 }
// `x.try_checked_mul("what", rhs)` with x: Minute -- Ok iff the exact product lies within Minute::MIN..=MAX
#[verifier::external_body]
pub fn verif_try_checked_mul_Minute<R: RInto<ri8>>(x: ri8, rhs: R) -> (res: Result<ri8, Error>)
    requires rhs.rinto_req(),
    ensures res.is_ok() <==> in_Minute(x.val * rhs.rinto_spec().val), res.is_ok() ==> res.unwrap().val == x.val * rhs.rinto_spec().val
{ unimplemented!() }
// `x.try_checked_add/sub("what", rhs)` and `x.checked_add/sub/mul(rhs)` with x: Minute -- fail iff the exact result leaves Minute::MIN..=MAX
#[verifier::external_body]
pub fn verif_try_checked_add_Minute<R: RInto<ri8>>(x: ri8, rhs: R) -> (res: Result<ri8, Error>)
    requires rhs.rinto_req(),
    ensures res.is_ok() <==> in_Minute(x.val + rhs.rinto_spec().val), res.is_ok() ==> res.unwrap().val == x.val + rhs.rinto_spec().val
{ unimplemented!() }
#[verifier::external_body]
pub fn verif_try_checked_sub_Minute<R: RInto<ri8>>(x: ri8, rhs: R) -> (res: Result<ri8, Error>)
    requires rhs.rinto_req(),
    ensures res.is_ok() <==> in_Minute(x.val - rhs.rinto_spec().val), res.is_ok() ==> res.unwrap().val == x.val - rhs.rinto_spec().val
{ unimplemented!() }
#[verifier::external_body]
pub fn verif_checked_add_Minute<R: RInto<ri8>>(x: ri8, rhs: R) -> (res: Option<ri8>)
    requires rhs.rinto_req(),
    ensures res.is_some() <==> in_Minute(x.val + rhs.rinto_spec().val), res.is_some() ==> res.unwrap().val == x.val + rhs.rinto_spec().val
{ unimplemented!() }
#[verifier::external_body]
pub fn verif_checked_sub_Minute<R: RInto<ri8>>(x: ri8, rhs: R) -> (res: Option<ri8>)
    requires rhs.rinto_req(),
    ensures res.is_some() <==> in_Minute(x.val - rhs.rinto_spec().val), res.is_some() ==> res.unwrap().val == x.val - rhs.rinto_spec().val
{ unimplemented!() }
#[verifier::external_body]
pub fn verif_checked_mul_Minute<R: RInto<ri8>>(x: ri8, rhs: R) -> (res: Option<ri8>)
    requires rhs.rinto_req(),
    ensures res.is_some() <==> in_Minute(x.val * rhs.rinto_spec().val), res.is_some() ==> res.unwrap().val == x.val * rhs.rinto_spec().val
{ unimplemented!() }
pub type Second = ri8;
pub open spec fn Second_MIN() -> int { 0 }
pub open spec fn Second_MAX() -> int { 59 }
pub open spec fn in_Second(v: int) -> bool { 0 <= v <= 59 }
#[verifier::external_body]
pub fn verif_try_rfrom_Second_8(r: ri8) -> (res: Result<ri8, Error>)
    ensures res.is_ok() <==> in_Second(r.val as int), res.is_ok() ==> res.unwrap().val == r.val
{ unimplemented!() }
#[verifier::external_body]
pub fn verif_try_rfrom_Second_16(r: ri16) -> (res: Result<ri8, Error>)
    ensures res.is_ok() <==> in_Second(r.val as int), res.is_ok() ==> res.unwrap().val == r.val
{ unimplemented!() }
#[verifier::external_body]
pub fn verif_try_rfrom_Second_32(r: ri32) -> (res: Result<ri8, Error>)
    ensures res.is_ok() <==> in_Second(r.val as int), res.is_ok() ==> res.unwrap().val == r.val
{ unimplemented!() }
#[verifier::external_body]
pub fn verif_try_rfrom_Second_64(r: ri64) -> (res: Result<ri8, Error>)
    ensures res.is_ok() <==> in_Second(r.val as int), res.is_ok() ==> res.unwrap().val == r.val
{ unimplemented!() }
#[verifier::external_body]
pub fn verif_try_rfrom_Second_128(r: ri128) -> (res: Result<ri8, Error>)
    ensures res.is_ok() <==> in_Second(r.val as int), res.is_ok() ==> res.unwrap().val == r.val
{ unimplemented!() }
#[verifier::external_body]
pub fn verif_try_new_Second(v: i64) -> (res: Result<ri8, Error>)
    ensures res.is_ok() <==> in_Second(v as int), res.is_ok() ==> res.unwrap().val == v
{ unimplemented!() }
#[verifier::external_body]
pub fn verif_try_new128_Second(v: i128) -> (res: Result<ri8, Error>)
    ensures res.is_ok() <==> in_Second(v as int), res.is_ok() ==> res.unwrap().val == v
{ unimplemented!() }
// `Second::MIN` / `Second::MAX` (associated consts of type i128)
pub fn verif_MIN_Second() -> (r: i128) ensures r == Second_MIN() { 0 }
pub fn verif_MAX_Second() -> (r: i128) ensures r == Second_MAX() { 59 }
// `x.try_checked_mul("what", rhs)` with x: Second -- Ok iff the exact product lies within Second::MIN..=MAX
#[verifier::external_body]
pub fn verif_try_checked_mul_Second<R: RInto<ri8>>(x: ri8, rhs: R) -> (res: Result<ri8, Error>)
    requires rhs.rinto_req(),
    ensures res.is_ok() <==> in_Second(x.val * rhs.rinto_spec().val), res.is_ok() ==> res.unwrap().val == x.val * rhs.rinto_spec().val
{ unimplemented!() }
// `x.try_checked_add/sub("what", rhs)` and `x.checked_add/sub/mul(rhs)` with x: Second -- fail iff the exact result leaves Second::MIN..=MAX
#[verifier::external_body]
pub fn verif_try_checked_add_Second<R: RInto<ri8>>(x: ri8, rhs: R) -> (res: Result<ri8, Error>)
    requires rhs.rinto_req(),
    ensures res.is_ok() <==> in_Second(x.val + rhs.rinto_spec().val), res.is_ok() ==> res.unwrap().val == x.val + rhs.rinto_spec().val
{ unimplemented!() }
#[verifier::external_body]
pub fn verif_try_checked_sub_Second<R: RInto<ri8>>(x: ri8, rhs: R) -> (res: Result<ri8, Error>)
    requires rhs.rinto_req(),
    ensures res.is_ok() <==> in_Second(x.val - rhs.rinto_spec().val), res.is_ok() ==> res.unwrap().val == x.val - rhs.rinto_spec().val
{ unimplemented!() }
#[verifier::external_body]
pub fn verif_checked_add_Second<R: RInto<ri8>>(x: ri8, rhs: R) -> (res: Option<ri8>)
    requires rhs.rinto_req(),
    ensures res.is_some() <==> in_Second(x.val + rhs.rinto_spec().val), res.is_some() ==> res.unwrap().val == x.val + rhs.rinto_spec().val
{ unimplemented!() }
#[verifier::external_body]
pub fn verif_checked_sub_Second<R: RInto<ri8>>(x: ri8, rhs: R) -> (res: Option<ri8>)
    requires rhs.rinto_req(),
    ensures res.is_some() <==> in_Second(x.val - rhs.rinto_spec().val), res.is_some() ==> res.unwrap().val == x.val - rhs.rinto_spec().val
{ unimplemented!() }
#[verifier::external_body]
pub fn verif_checked_mul_Second<R: RInto<ri8>>(x: ri8, rhs: R) -> (res: Option<ri8>)
    requires rhs.rinto_req(),
    ensures res.is_some() <==> in_Second(x.val * rhs.rinto_spec().val), res.is_some() ==> res.unwrap().val == x.val * rhs.rinto_spec().val
{ unimplemented!() }
pub type SubsecNanosecond = ri32;
pub open spec fn SubsecNanosecond_MIN() -> int { 0 }
pub open spec fn SubsecNanosecond_MAX() -> int { 999999999 }
pub open spec fn in_SubsecNanosecond(v: int) -> bool { 0 <= v <= 999999999 }
#[verifier::external_body]
pub fn verif_try_rfrom_SubsecNanosecond_8(r: ri8) -> (res: Result<ri32, Error>)
    ensures res.is_ok() <==> in_SubsecNanosecond(r.val as int), res.is_ok() ==> res.unwrap().val == r.val
{ unimplemented!() }
#[verifier::external_body]
pub fn verif_try_rfrom_SubsecNanosecond_16(r: ri16) -> (res: Result<ri32, Error>)
    ensures res.is_ok() <==> in_SubsecNanosecond(r.val as int), res.is_ok() ==> res.unwrap().val == r.val
{ unimplemented!() }
#[verifier::external_body]
pub fn verif_try_rfrom_SubsecNanosecond_32(r: ri32) -> (res: Result<ri32, Error>)
    ensures res.is_ok() <==> in_SubsecNanosecond(r.val as int), res.is_ok() ==> res.unwrap().val == r.val
{ unimplemented!() }
#[verifier::external_body]
pub fn verif_try_rfrom_SubsecNanosecond_64(r: ri64) -> (res: Result<ri32, Error>)
    ensures res.is_ok() <==> in_SubsecNanosecond(r.val as int), res.is_ok() ==> res.unwrap().val == r.val
{ unimplemented!() }
#[verifier::external_body]
pub fn verif_try_rfrom_SubsecNanosecond_128(r: ri128) -> (res: Result<ri32, Error>)
    ensures res.is_ok() <==> in_SubsecNanosecond(r.val as int), res.is_ok() ==> res.unwrap().val == r.val
{ unimplemented!() }
#[verifier::external_body]
pub fn verif_try_new_SubsecNanosecond(v: i64) -> (res: Result<ri32, Error>)
    ensures res.is_ok() <==> in_SubsecNanosecond(v as int), res.is_ok() ==> res.unwrap().val == v
{ unimplemented!() }
#[verifier::external_body]
pub fn verif_try_new128_SubsecNanosecond(v: i128) -> (res: Result<ri32, Error>)
    ensures res.is_ok() <==> in_SubsecNanosecond(v as int), res.is_ok() ==> res.unwrap().val == v
{ unimplemented!() }
// `SubsecNanosecond::MIN` / `SubsecNanosecond::MAX` (associated consts of type i128)
pub fn verif_MIN_SubsecNanosecond() -> (r: i128) ensures r == SubsecNanosecond_MIN() { 0 }
pub fn verif_MAX_SubsecNanosecond() -> (r: i128) ensures r == SubsecNanosecond_MAX() { 999999999 }
// `x.try_checked_mul("what", rhs)` with x: SubsecNanosecond -- Ok iff the exact product lies within SubsecNanosecond::MIN..=MAX
#[verifier::external_body]
pub fn verif_try_checked_mul_SubsecNanosecond<R: RInto<ri32>>(x: ri32, rhs: R) -> (res: Result<ri32, Error>)
    requires rhs.rinto_req(),
    ensures res.is_ok() <==> in_SubsecNanosecond(x.val * rhs.rinto_spec().val), res.is_ok() ==> res.unwrap().val == x.val * rhs.rinto_spec().val
{ unimplemented!() }
// `x.try_checked_add/sub("what", rhs)` and `x.checked_add/sub/mul(rhs)` with x: SubsecNanosecond -- fail iff the exact result leaves SubsecNanosecond::MIN..=MAX
#[verifier::external_body]
pub fn verif_try_checked_add_SubsecNanosecond<R: RInto<ri32>>(x: ri32, rhs: R) -> (res: Result<ri32, Error>)
    requires rhs.rinto_req(),
    ensures res.is_ok() <==> in_SubsecNanosecond(x.val + rhs.rinto_spec().val), res.is_ok() ==> res.unwrap().val == x.val + rhs.rinto_spec().val
{ unimplemented!() }
#[verifier::external_body]
pub fn verif_try_checked_sub_SubsecNanosecond<R: RInto<ri32>>(x: ri32, rhs: R) -> (res: Result<ri32, Error>)
    requires rhs.rinto_req(),
    ensures res.is_ok() <==> in_SubsecNanosecond(x.val - rhs.rinto_spec().val), res.is_ok() ==> res.unwrap().val == x.val - rhs.rinto_spec().val
{ unimplemented!() }
#[verifier::external_body]
pub fn verif_checked_add_SubsecNanosecond<R: RInto<ri32>>(x: ri32, rhs: R) -> (res: Option<ri32>)
    requires rhs.rinto_req(),
    ensures res.is_some() <==> in_SubsecNanosecond(x.val + rhs.rinto_spec().val), res.is_some() ==> res.unwrap().val == x.val + rhs.rinto_spec().val
{ unimplemented!() }
#[verifier::external_body]
pub fn verif_checked_sub_SubsecNanosecond<R: RInto<ri32>>(x: ri32, rhs: R) -> (res: Option<ri32>)
    requires rhs.rinto_req(),
    ensures res.is_some() <==> in_SubsecNanosecond(x.val - rhs.rinto_spec().val), res.is_some() ==> res.unwrap().val == x.val - rhs.rinto_spec().val
{ unimplemented!() }
#[verifier::external_body]
pub fn verif_checked_mul_SubsecNanosecond<R: RInto<ri32>>(x: ri32, rhs: R) -> (res: Option<ri32>)
    requires rhs.rinto_req(),
    ensures res.is_some() <==> in_SubsecNanosecond(x.val * rhs.rinto_spec().val), res.is_some() ==> res.unwrap().val == x.val * rhs.rinto_spec().val
{ unimplemented!() }
pub type CivilDayNanosecond = ri64;
pub open spec fn CivilDayNanosecond_MIN() -> int { 0 }
pub open spec fn CivilDayNanosecond_MAX() -> int { 86399999999999 }
pub open spec fn in_CivilDayNanosecond(v: int) -> bool { 0 <= v <= 86399999999999 }
#[verifier::external_body]
pub fn verif_try_rfrom_CivilDayNanosecond_8(r: ri8) -> (res: Result<ri64, Error>)
    ensures res.is_ok() <==> in_CivilDayNanosecond(r.val as int), res.is_ok() ==> res.unwrap().val == r.val
{ unimplemented!() }
#[verifier::external_body]
pub fn verif_try_rfrom_CivilDayNanosecond_16(r: ri16) -> (res: Result<ri64, Error>)
    ensures res.is_ok() <==> in_CivilDayNanosecond(r.val as int), res.is_ok() ==> res.unwrap().val == r.val
{ unimplemented!() }
#[verifier::external_body]
pub fn verif_try_rfrom_CivilDayNanosecond_32(r: ri32) -> (res: Result<ri64, Error>)
    ensures res.is_ok() <==> in_CivilDayNanosecond(r.val as int), res.is_ok() ==> res.unwrap().val == r.val
{ unimplemented!() }
#[verifier::external_body]
pub fn verif_try_rfrom_CivilDayNanosecond_64(r: ri64) -> (res: Result<ri64, Error>)
    ensures res.is_ok() <==> in_CivilDayNanosecond(r.val as int), res.is_ok() ==> res.unwrap().val == r.val
{ unimplemented!() }
#[verifier::external_body]
pub fn verif_try_rfrom_CivilDayNanosecond_128(r: ri128) -> (res: Result<ri64, Error>)
    ensures res.is_ok() <==> in_CivilDayNanosecond(r.val as int), res.is_ok() ==> res.unwrap().val == r.val
{ unimplemented!() }
#[verifier::external_body]
pub fn verif_try_new_CivilDayNanosecond(v: i64) -> (res: Result<ri64, Error>)
    ensures res.is_ok() <==> in_CivilDayNanosecond(v as int), res.is_ok() ==> res.unwrap().val == v
{ unimplemented!() }
#[verifier::external_body]
pub fn verif_try_new128_CivilDayNanosecond(v: i128) -> (res: Result<ri64, Error>)
    ensures res.is_ok() <==> in_CivilDayNanosecond(v as int), res.is_ok() ==> res.unwrap().val == v
{ unimplemented!() }
// `CivilDayNanosecond::MIN` / `CivilDayNanosecond::MAX` (associated consts of type i128)
pub fn verif_MIN_CivilDayNanosecond() -> (r: i128) ensures r == CivilDayNanosecond_MIN() { 0 }
pub fn verif_MAX_CivilDayNanosecond() -> (r: i128) ensures r == CivilDayNanosecond_MAX() { 86399999999999 }
// `x.try_checked_mul("what", rhs)` with x: CivilDayNanosecond -- Ok iff the exact product lies within CivilDayNanosecond::MIN..=MAX
#[verifier::external_body]
pub fn verif_try_checked_mul_CivilDayNanosecond<R: RInto<ri64>>(x: ri64, rhs: R) -> (res: Result<ri64, Error>)
    requires rhs.rinto_req(),
    ensures res.is_ok() <==> in_CivilDayNanosecond(x.val * rhs.rinto_spec().val), res.is_ok() ==> res.unwrap().val == x.val * rhs.rinto_spec().val
{ unimplemented!() }
// `x.try_checked_add/sub("what", rhs)` and `x.checked_add/sub/mul(rhs)` with x: CivilDayNanosecond -- fail iff the exact result leaves CivilDayNanosecond::MIN..=MAX
#[verifier::external_body]
pub fn verif_try_checked_add_CivilDayNanosecond<R: RInto<ri64>>(x: ri64, rhs: R) -> (res: Result<ri64, Error>)
    requires rhs.rinto_req(),
    ensures res.is_ok() <==> in_CivilDayNanosecond(x.val + rhs.rinto_spec().val), res.is_ok() ==> res.unwrap().val == x.val + rhs.rinto_spec().val
{ unimplemented!() }
#[verifier::external_body]
pub fn verif_try_checked_sub_CivilDayNanosecond<R: RInto<ri64>>(x: ri64, rhs: R) -> (res: Result<ri64, Error>)
    requires rhs.rinto_req(),
    ensures res.is_ok() <==> in_CivilDayNanosecond(x.val - rhs.rinto_spec().val), res.is_ok() ==> res.unwrap().val == x.val - rhs.rinto_spec().val
{ unimplemented!() }
#[verifier::external_body]
pub fn verif_checked_add_CivilDayNanosecond<R: RInto<ri64>>(x: ri64, rhs: R) -> (res: Option<ri64>)
    requires rhs.rinto_req(),
    ensures res.is_some() <==> in_CivilDayNanosecond(x.val + rhs.rinto_spec().val), res.is_some() ==> res.unwrap().val == x.val + rhs.rinto_spec().val
{ unimplemented!() }
#[verifier::external_body]
pub fn verif_checked_sub_CivilDayNanosecond<R: RInto<ri64>>(x: ri64, rhs: R) -> (res: Option<ri64>)
    requires rhs.rinto_req(),
    ensures res.is_some() <==> in_CivilDayNanosecond(x.val - rhs.rinto_spec().val), res.is_some() ==> res.unwrap().val == x.val - rhs.rinto_spec().val
{ unimplemented!() }
#[verifier::external_body]
pub fn verif_checked_mul_CivilDayNanosecond<R: RInto<ri64>>(x: ri64, rhs: R) -> (res: Option<ri64>)
    requires rhs.rinto_req(),
    ensures res.is_some() <==> in_CivilDayNanosecond(x.val * rhs.rinto_spec().val), res.is_some() ==> res.unwrap().val == x.val * rhs.rinto_spec().val
{ unimplemented!() }
pub type CivilDaySecond = ri32;
pub open spec fn CivilDaySecond_MIN() -> int { 0 }
pub open spec fn CivilDaySecond_MAX() -> int { 86399 }
pub open spec fn in_CivilDaySecond(v: int) -> bool { 0 <= v <= 86399 }
#[verifier::external_body]
pub fn verif_try_rfrom_CivilDaySecond_8(r: ri8) -> (res: Result<ri32, Error>)
    ensures res.is_ok() <==> in_CivilDaySecond(r.val as int), res.is_ok() ==> res.unwrap().val == r.val
{ unimplemented!() }
#[verifier::external_body]
pub fn verif_try_rfrom_CivilDaySecond_16(r: ri16) -> (res: Result<ri32, Error>)
    ensures res.is_ok() <==> in_CivilDaySecond(r.val as int), res.is_ok() ==> res.unwrap().val == r.val
{ unimplemented!() }
#[verifier::external_body]
pub fn verif_try_rfrom_CivilDaySecond_32(r: ri32) -> (res: Result<ri32, Error>)
    ensures res.is_ok() <==> in_CivilDaySecond(r.val as int), res.is_ok() ==> res.unwrap().val == r.val
{ unimplemented!() }
#[verifier::external_body]
pub fn verif_try_rfrom_CivilDaySecond_64(r: ri64) -> (res: Result<ri32, Error>)
    ensures res.is_ok() <==> in_CivilDaySecond(r.val as int), res.is_ok() ==> res.unwrap().val == r.val
{ unimplemented!() }
#[verifier::external_body]
pub fn verif_try_rfrom_CivilDaySecond_128(r: ri128) -> (res: Result<ri32, Error>)
    ensures res.is_ok() <==> in_CivilDaySecond(r.val as int), res.is_ok() ==> res.unwrap().val == r.val
{ unimplemented!() }
#[verifier::external_body]
pub fn verif_try_new_CivilDaySecond(v: i64) -> (res: Result<ri32, Error>)
    ensures res.is_ok() <==> in_CivilDaySecond(v as int), res.is_ok() ==> res.unwrap().val == v
{ unimplemented!() }
#[verifier::external_body]
pub fn verif_try_new128_CivilDaySecond(v: i128) -> (res: Result<ri32, Error>)
    ensures res.is_ok() <==> in_CivilDaySecond(v as int), res.is_ok() ==> res.unwrap().val == v
{ unimplemented!() }
// `CivilDaySecond::MIN` / `CivilDaySecond::MAX` (associated consts of type i128)
pub fn verif_MIN_CivilDaySecond() -> (r: i128) ensures r == CivilDaySecond_MIN() { 0 }
pub fn verif_MAX_CivilDaySecond() -> (r: i128) ensures r == CivilDaySecond_MAX() { 86399 }
// `x.try_checked_mul("what", rhs)` with x: CivilDaySecond -- Ok iff the exact product lies within CivilDaySecond::MIN..=MAX
#[verifier::external_body]
pub fn verif_try_checked_mul_CivilDaySecond<R: RInto<ri32>>(x: ri32, rhs: R) -> (res: Result<ri32, Error>)
    requires rhs.rinto_req(),
    ensures res.is_ok() <==> in_CivilDaySecond(x.val * rhs.rinto_spec().val), res.is_ok() ==> res.unwrap().val == x.val * rhs.rinto_spec().val
{ unimplemented!() }
// `x.try_checked_add/sub("what", rhs)` and `x.checked_add/sub/mul(rhs)` with x: CivilDaySecond -- fail iff the exact result leaves CivilDaySecond::MIN..=MAX
#[verifier::external_body]
pub fn verif_try_checked_add_CivilDaySecond<R: RInto<ri32>>(x: ri32, rhs: R) -> (res: Result<ri32, Error>)
    requires rhs.rinto_req(),
    ensures res.is_ok() <==> in_CivilDaySecond(x.val + rhs.rinto_spec().val), res.is_ok() ==> res.unwrap().val == x.val + rhs.rinto_spec().val
{ unimplemented!() }
#[verifier::external_body]
pub fn verif_try_checked_sub_CivilDaySecond<R: RInto<ri32>>(x: ri32, rhs: R) -> (res: Result<ri32, Error>)
    requires rhs.rinto_req(),
    ensures res.is_ok() <==> in_CivilDaySecond(x.val - rhs.rinto_spec().val), res.is_ok() ==> res.unwrap().val == x.val - rhs.rinto_spec().val
{ unimplemented!() }
#[verifier::external_body]
pub fn verif_checked_add_CivilDaySecond<R: RInto<ri32>>(x: ri32, rhs: R) -> (res: Option<ri32>)
    requires rhs.rinto_req(),
    ensures res.is_some() <==> in_CivilDaySecond(x.val + rhs.rinto_spec().val), res.is_some() ==> res.unwrap().val == x.val + rhs.rinto_spec().val
{ unimplemented!() }
#[verifier::external_body]
pub fn verif_checked_sub_CivilDaySecond<R: RInto<ri32>>(x: ri32, rhs: R) -> (res: Option<ri32>)
    requires rhs.rinto_req(),
    ensures res.is_some() <==> in_CivilDaySecond(x.val - rhs.rinto_spec().val), res.is_some() ==> res.unwrap().val == x.val - rhs.rinto_spec().val
{ unimplemented!() }
#[verifier::external_body]
pub fn verif_checked_mul_CivilDaySecond<R: RInto<ri32>>(x: ri32, rhs: R) -> (res: Option<ri32>)
    requires rhs.rinto_req(),
    ensures res.is_some() <==> in_CivilDaySecond(x.val * rhs.rinto_spec().val), res.is_some() ==> res.unwrap().val == x.val * rhs.rinto_spec().val
{ unimplemented!() }
pub type UnixEpochDay = ri32;
pub open spec fn UnixEpochDay_MIN() -> int { -4371587 }
pub open spec fn UnixEpochDay_MAX() -> int { 2932896 }
pub open spec fn in_UnixEpochDay(v: int) -> bool { -4371587 <= v <= 2932896 }
#[verifier::external_body]
pub fn verif_try_rfrom_UnixEpochDay_8(r: ri8) -> (res: Result<ri32, Error>)
    ensures res.is_ok() <==> in_UnixEpochDay(r.val as int), res.is_ok() ==> res.unwrap().val == r.val
{ unimplemented!() }
#[verifier::external_body]
pub fn verif_try_rfrom_UnixEpochDay_16(r: ri16) -> (res: Result<ri32, Error>)
    ensures res.is_ok() <==> in_UnixEpochDay(r.val as int), res.is_ok() ==> res.unwrap().val == r.val
{ unimplemented!() }
#[verifier::external_body]
pub fn verif_try_rfrom_UnixEpochDay_32(r: ri32) -> (res: Result<ri32, Error>)
    ensures res.is_ok() <==> in_UnixEpochDay(r.val as int), res.is_ok() ==> res.unwrap().val == r.val
{ unimplemented!() }
#[verifier::external_body]
pub fn verif_try_rfrom_UnixEpochDay_64(r: ri64) -> (res: Result<ri32, Error>)
    ensures res.is_ok() <==> in_UnixEpochDay(r.val as int), res.is_ok() ==> res.unwrap().val == r.val
{ unimplemented!() }
#[verifier::external_body]
pub fn verif_try_rfrom_UnixEpochDay_128(r: ri128) -> (res: Result<ri32, Error>)
    ensures res.is_ok() <==> in_UnixEpochDay(r.val as int), res.is_ok() ==> res.unwrap().val == r.val
{ unimplemented!() }
#[verifier::external_body]
pub fn verif_try_new_UnixEpochDay(v: i64) -> (res: Result<ri32, Error>)
    ensures res.is_ok() <==> in_UnixEpochDay(v as int), res.is_ok() ==> res.unwrap().val == v
{ unimplemented!() }
#[verifier::external_body]
pub fn verif_try_new128_UnixEpochDay(v: i128) -> (res: Result<ri32, Error>)
    ensures res.is_ok() <==> in_UnixEpochDay(v as int), res.is_ok() ==> res.unwrap().val == v
{ unimplemented!() }
// `UnixEpochDay::MIN` / `UnixEpochDay::MAX` (associated consts of type i128)
pub fn verif_MIN_UnixEpochDay() -> (r: i128) ensures r == UnixEpochDay_MIN() { -4371587 }
pub fn verif_MAX_UnixEpochDay() -> (r: i128) ensures r == UnixEpochDay_MAX() { 2932896 }
// `x.try_checked_mul("what", rhs)` with x: UnixEpochDay -- Ok iff the exact product lies within UnixEpochDay::MIN..=MAX
#[verifier::external_body]
pub fn verif_try_checked_mul_UnixEpochDay<R: RInto<ri32>>(x: ri32, rhs: R) -> (res: Result<ri32, Error>)
    requires rhs.rinto_req(),
    ensures res.is_ok() <==> in_UnixEpochDay(x.val * rhs.rinto_spec().val), res.is_ok() ==> res.unwrap().val == x.val * rhs.rinto_spec().val
{ unimplemented!() }
// `x.try_checked_add/sub("what", rhs)` and `x.checked_add/sub/mul(rhs)` with x: UnixEpochDay -- fail iff the exact result leaves UnixEpochDay::MIN..=MAX
#[verifier::external_body]
pub fn verif_try_checked_add_UnixEpochDay<R: RInto<ri32>>(x: ri32, rhs: R) -> (res: Result<ri32, Error>)
    requires rhs.rinto_req(),
    ensures res.is_ok() <==> in_UnixEpochDay(x.val + rhs.rinto_spec().val), res.is_ok() ==> res.unwrap().val == x.val + rhs.rinto_spec().val
{ unimplemented!() }
#[verifier::external_body]
pub fn verif_try_checked_sub_UnixEpochDay<R: RInto<ri32>>(x: ri32, rhs: R) -> (res: Result<ri32, Error>)
    requires rhs.rinto_req(),
    ensures res.is_ok() <==> in_UnixEpochDay(x.val - rhs.rinto_spec().val), res.is_ok() ==> res.unwrap().val == x.val - rhs.rinto_spec().val
{ unimplemented!() }
#[verifier::external_body]
pub fn verif_checked_add_UnixEpochDay<R: RInto<ri32>>(x: ri32, rhs: R) -> (res: Option<ri32>)
    requires rhs.rinto_req(),
    ensures res.is_some() <==> in_UnixEpochDay(x.val + rhs.rinto_spec().val), res.is_some() ==> res.unwrap().val == x.val + rhs.rinto_spec().val
{ unimplemented!() }
#[verifier::external_body]
pub fn verif_checked_sub_UnixEpochDay<R: RInto<ri32>>(x: ri32, rhs: R) -> (res: Option<ri32>)
    requires rhs.rinto_req(),
    ensures res.is_some() <==> in_UnixEpochDay(x.val - rhs.rinto_spec().val), res.is_some() ==> res.unwrap().val == x.val - rhs.rinto_spec().val
{ unimplemented!() }
#[verifier::external_body]
pub fn verif_checked_mul_UnixEpochDay<R: RInto<ri32>>(x: ri32, rhs: R) -> (res: Option<ri32>)
    requires rhs.rinto_req(),
    ensures res.is_some() <==> in_UnixEpochDay(x.val * rhs.rinto_spec().val), res.is_some() ==> res.unwrap().val == x.val * rhs.rinto_spec().val
{ unimplemented!() }
pub type UnixSeconds = ri64;
pub open spec fn UnixSeconds_MIN() -> int { -377705023201 }
pub open spec fn UnixSeconds_MAX() -> int { 253402207200 }
pub open spec fn in_UnixSeconds(v: int) -> bool { -377705023201 <= v <= 253402207200 }
#[verifier::external_body]
pub fn verif_try_rfrom_UnixSeconds_8(r: ri8) -> (res: Result<ri64, Error>)
    ensures res.is_ok() <==> in_UnixSeconds(r.val as int), res.is_ok() ==> res.unwrap().val == r.val
{ unimplemented!() }
#[verifier::external_body]
pub fn verif_try_rfrom_UnixSeconds_16(r: ri16) -> (res: Result<ri64, Error>)
    ensures res.is_ok() <==> in_UnixSeconds(r.val as int), res.is_ok() ==> res.unwrap().val == r.val
{ unimplemented!() }
#[verifier::external_body]
pub fn verif_try_rfrom_UnixSeconds_32(r: ri32) -> (res: Result<ri64, Error>)
    ensures res.is_ok() <==> in_UnixSeconds(r.val as int), res.is_ok() ==> res.unwrap().val == r.val
{ unimplemented!() }
#[verifier::external_body]
pub fn verif_try_rfrom_UnixSeconds_64(r: ri64) -> (res: Result<ri64, Error>)
    ensures res.is_ok() <==> in_UnixSeconds(r.val as int), res.is_ok() ==> res.unwrap().val == r.val
{ unimplemented!() }
#[verifier::external_body]
pub fn verif_try_rfrom_UnixSeconds_128(r: ri128) -> (res: Result<ri64, Error>)
    ensures res.is_ok() <==> in_UnixSeconds(r.val as int), res.is_ok() ==> res.unwrap().val == r.val
{ unimplemented!() }
#[verifier::external_body]
pub fn verif_try_new_UnixSeconds(v: i64) -> (res: Result<ri64, Error>)
    ensures res.is_ok() <==> in_UnixSeconds(v as int), res.is_ok() ==> res.unwrap().val == v
{ unimplemented!() }
#[verifier::external_body]
pub fn verif_try_new128_UnixSeconds(v: i128) -> (res: Result<ri64, Error>)
    ensures res.is_ok() <==> in_UnixSeconds(v as int), res.is_ok() ==> res.unwrap().val == v
{ unimplemented!() }
// `UnixSeconds::MIN` / `UnixSeconds::MAX` (associated consts of type i128)
pub fn verif_MIN_UnixSeconds() -> (r: i128) ensures r == UnixSeconds_MIN() { -377705023201 }
pub fn verif_MAX_UnixSeconds() -> (r: i128) ensures r == UnixSeconds_MAX() { 253402207200 }
// `x.try_checked_mul("what", rhs)` with x: UnixSeconds -- Ok iff the exact product lies within UnixSeconds::MIN..=MAX
#[verifier::external_body]
pub fn verif_try_checked_mul_UnixSeconds<R: RInto<ri64>>(x: ri64, rhs: R) -> (res: Result<ri64, Error>)
    requires rhs.rinto_req(),
    ensures res.is_ok() <==> in_UnixSeconds(x.val * rhs.rinto_spec().val), res.is_ok() ==> res.unwrap().val == x.val * rhs.rinto_spec().val
{ unimplemented!() }
// `x.try_checked_add/sub("what", rhs)` and `x.checked_add/sub/mul(rhs)` with x: UnixSeconds -- fail iff the exact result leaves UnixSeconds::MIN..=MAX
#[verifier::external_body]
pub fn verif_try_checked_add_UnixSeconds<R: RInto<ri64>>(x: ri64, rhs: R) -> (res: Result<ri64, Error>)
    requires rhs.rinto_req(),
    ensures res.is_ok() <==> in_UnixSeconds(x.val + rhs.rinto_spec().val), res.is_ok() ==> res.unwrap().val == x.val + rhs.rinto_spec().val
{ unimplemented!() }
#[verifier::external_body]
pub fn verif_try_checked_sub_UnixSeconds<R: RInto<ri64>>(x: ri64, rhs: R) -> (res: Result<ri64, Error>)
    requires rhs.rinto_req(),
    ensures res.is_ok() <==> in_UnixSeconds(x.val - rhs.rinto_spec().val), res.is_ok() ==> res.unwrap().val == x.val - rhs.rinto_spec().val
{ unimplemented!() }
#[verifier::external_body]
pub fn verif_checked_add_UnixSeconds<R: RInto<ri64>>(x: ri64, rhs: R) -> (res: Option<ri64>)
    requires rhs.rinto_req(),
    ensures res.is_some() <==> in_UnixSeconds(x.val + rhs.rinto_spec().val), res.is_some() ==> res.unwrap().val == x.val + rhs.rinto_spec().val
{ unimplemented!() }
#[verifier::external_body]
pub fn verif_checked_sub_UnixSeconds<R: RInto<ri64>>(x: ri64, rhs: R) -> (res: Option<ri64>)
    requires rhs.rinto_req(),
    ensures res.is_some() <==> in_UnixSeconds(x.val - rhs.rinto_spec().val), res.is_some() ==> res.unwrap().val == x.val - rhs.rinto_spec().val
{ unimplemented!() }
#[verifier::external_body]
pub fn verif_checked_mul_UnixSeconds<R: RInto<ri64>>(x: ri64, rhs: R) -> (res: Option<ri64>)
    requires rhs.rinto_req(),
    ensures res.is_some() <==> in_UnixSeconds(x.val * rhs.rinto_spec().val), res.is_some() ==> res.unwrap().val == x.val * rhs.rinto_spec().val
{ unimplemented!() }
pub type UnixNanoseconds = ri128;
pub open spec fn UnixNanoseconds_MIN() -> int { -377705023201000000000 }
pub open spec fn UnixNanoseconds_MAX() -> int { 253402207200999999999 }
pub open spec fn in_UnixNanoseconds(v: int) -> bool { -377705023201000000000 <= v <= 253402207200999999999 }
#[verifier::external_body]
pub fn verif_try_rfrom_UnixNanoseconds_8(r: ri8) -> (res: Result<ri128, Error>)
    ensures res.is_ok() <==> in_UnixNanoseconds(r.val as int), res.is_ok() ==> res.unwrap().val == r.val
{ unimplemented!() }
#[verifier::external_body]
pub fn verif_try_rfrom_UnixNanoseconds_16(r: ri16) -> (res: Result<ri128, Error>)
    ensures res.is_ok() <==> in_UnixNanoseconds(r.val as int), res.is_ok() ==> res.unwrap().val == r.val
{ unimplemented!() }
#[verifier::external_body]
pub fn verif_try_rfrom_UnixNanoseconds_32(r: ri32) -> (res: Result<ri128, Error>)
    ensures res.is_ok() <==> in_UnixNanoseconds(r.val as int), res.is_ok() ==> res.unwrap().val == r.val
{ unimplemented!() }
#[verifier::external_body]
pub fn verif_try_rfrom_UnixNanoseconds_64(r: ri64) -> (res: Result<ri128, Error>)
    ensures res.is_ok() <==> in_UnixNanoseconds(r.val as int), res.is_ok() ==> res.unwrap().val == r.val
{ unimplemented!() }
#[verifier::external_body]
pub fn verif_try_rfrom_UnixNanoseconds_128(r: ri128) -> (res: Result<ri128, Error>)
    ensures res.is_ok() <==> in_UnixNanoseconds(r.val as int), res.is_ok() ==> res.unwrap().val == r.val
{ unimplemented!() }
#[verifier::external_body]
pub fn verif_try_new_UnixNanoseconds(v: i64) -> (res: Result<ri128, Error>)
    ensures res.is_ok() <==> in_UnixNanoseconds(v as int), res.is_ok() ==> res.unwrap().val == v
{ unimplemented!() }
#[verifier::external_body]
pub fn verif_try_new128_UnixNanoseconds(v: i128) -> (res: Result<ri128, Error>)
    ensures res.is_ok() <==> in_UnixNanoseconds(v as int), res.is_ok() ==> res.unwrap().val == v
{ unimplemented!() }
// `UnixNanoseconds::MIN` / `UnixNanoseconds::MAX` (associated consts of type i128)
pub fn verif_MIN_UnixNanoseconds() -> (r: i128) ensures r == UnixNanoseconds_MIN() { -377705023201000000000 }
pub fn verif_MAX_UnixNanoseconds() -> (r: i128) ensures r == UnixNanoseconds_MAX() { 253402207200999999999 }
// `x.try_checked_mul("what", rhs)` with x: UnixNanoseconds -- Ok iff the exact product lies within UnixNanoseconds::MIN..=MAX
#[verifier::external_body]
pub fn verif_try_checked_mul_UnixNanoseconds<R: RInto<ri128>>(x: ri128, rhs: R) -> (res: Result<ri128, Error>)
    requires rhs.rinto_req(),
    ensures res.is_ok() <==> in_UnixNanoseconds(x.val * rhs.rinto_spec().val), res.is_ok() ==> res.unwrap().val == x.val * rhs.rinto_spec().val
{ unimplemented!() }
// `x.try_checked_add/sub("what", rhs)` and `x.checked_add/sub/mul(rhs)` with x: UnixNanoseconds -- fail iff the exact result leaves UnixNanoseconds::MIN..=MAX
#[verifier::external_body]
pub fn verif_try_checked_add_UnixNanoseconds<R: RInto<ri128>>(x: ri128, rhs: R) -> (res: Result<ri128, Error>)
    requires rhs.rinto_req(),
    ensures res.is_ok() <==> in_UnixNanoseconds(x.val + rhs.rinto_spec().val), res.is_ok() ==> res.unwrap().val == x.val + rhs.rinto_spec().val
{ unimplemented!() }
#[verifier::external_body]
pub fn verif_try_checked_sub_UnixNanoseconds<R: RInto<ri128>>(x: ri128, rhs: R) -> (res: Result<ri128, Error>)
    requires rhs.rinto_req(),
    ensures res.is_ok() <==> in_UnixNanoseconds(x.val - rhs.rinto_spec().val), res.is_ok() ==> res.unwrap().val == x.val - rhs.rinto_spec().val
{ unimplemented!() }
#[verifier::external_body]
pub fn verif_checked_add_UnixNanoseconds<R: RInto<ri128>>(x: ri128, rhs: R) -> (res: Option<ri128>)
    requires rhs.rinto_req(),
    ensures res.is_some() <==> in_UnixNanoseconds(x.val + rhs.rinto_spec().val), res.is_some() ==> res.unwrap().val == x.val + rhs.rinto_spec().val
{ unimplemented!() }
#[verifier::external_body]
pub fn verif_checked_sub_UnixNanoseconds<R: RInto<ri128>>(x: ri128, rhs: R) -> (res: Option<ri128>)
    requires rhs.rinto_req(),
    ensures res.is_some() <==> in_UnixNanoseconds(x.val - rhs.rinto_spec().val), res.is_some() ==> res.unwrap().val == x.val - rhs.rinto_spec().val
{ unimplemented!() }
#[verifier::external_body]
pub fn verif_checked_mul_UnixNanoseconds<R: RInto<ri128>>(x: ri128, rhs: R) -> (res: Option<ri128>)
    requires rhs.rinto_req(),
    ensures res.is_some() <==> in_UnixNanoseconds(x.val * rhs.rinto_spec().val), res.is_some() ==> res.unwrap().val == x.val * rhs.rinto_spec().val
{ unimplemented!() }
pub type SpanYears = ri16;
pub open spec fn SpanYears_MIN() -> int { -19998 }
pub open spec fn SpanYears_MAX() -> int { 19998 }
pub open spec fn in_SpanYears(v: int) -> bool { -19998 <= v <= 19998 }
#[verifier::external_body]
pub fn verif_try_rfrom_SpanYears_8(r: ri8) -> (res: Result<ri16, Error>)
    ensures res.is_ok() <==> in_SpanYears(r.val as int), res.is_ok() ==> res.unwrap().val == r.val
{ unimplemented!() }
#[verifier::external_body]
pub fn verif_try_rfrom_SpanYears_16(r: ri16) -> (res: Result<ri16, Error>)
    ensures res.is_ok() <==> in_SpanYears(r.val as int), res.is_ok() ==> res.unwrap().val == r.val
{ unimplemented!() }
#[verifier::external_body]
pub fn verif_try_rfrom_SpanYears_32(r: ri32) -> (res: Result<ri16, Error>)
    ensures res.is_ok() <==> in_SpanYears(r.val as int), res.is_ok() ==> res.unwrap().val == r.val
{ unimplemented!() }
#[verifier::external_body]
pub fn verif_try_rfrom_SpanYears_64(r: ri64) -> (res: Result<ri16, Error>)
    ensures res.is_ok() <==> in_SpanYears(r.val as int), res.is_ok() ==> res.unwrap().val == r.val
{ unimplemented!() }
#[verifier::external_body]
pub fn verif_try_rfrom_SpanYears_128(r: ri128) -> (res: Result<ri16, Error>)
    ensures res.is_ok() <==> in_SpanYears(r.val as int), res.is_ok() ==> res.unwrap().val == r.val
{ unimplemented!() }
#[verifier::external_body]
pub fn verif_try_new_SpanYears(v: i64) -> (res: Result<ri16, Error>)
    ensures res.is_ok() <==> in_SpanYears(v as int), res.is_ok() ==> res.unwrap().val == v
{ unimplemented!() }
#[verifier::external_body]
pub fn verif_try_new128_SpanYears(v: i128) -> (res: Result<ri16, Error>)
    ensures res.is_ok() <==> in_SpanYears(v as int), res.is_ok() ==> res.unwrap().val == v
{ unimplemented!() }
// `SpanYears::MIN` / `SpanYears::MAX` (associated consts of type i128)
pub fn verif_MIN_SpanYears() -> (r: i128) ensures r == SpanYears_MIN() { -19998 }
pub fn verif_MAX_SpanYears() -> (r: i128) ensures r == SpanYears_MAX() { 19998 }
// `x.try_checked_mul("what", rhs)` with x: SpanYears -- Ok iff the exact product lies within SpanYears::MIN..=MAX
#[verifier::external_body]
pub fn verif_try_checked_mul_SpanYears<R: RInto<ri16>>(x: ri16, rhs: R) -> (res: Result<ri16, Error>)
    requires rhs.rinto_req(),
    ensures res.is_ok() <==> in_SpanYears(x.val * rhs.rinto_spec().val), res.is_ok() ==> res.unwrap().val == x.val * rhs.rinto_spec().val
{ unimplemented!() }
// `x.try_checked_add/sub("what", rhs)` and `x.checked_add/sub/mul(rhs)` with x: SpanYears -- fail iff the exact result leaves SpanYears::MIN..=MAX
#[verifier::external_body]
pub fn verif_try_checked_add_SpanYears<R: RInto<ri16>>(x: ri16, rhs: R) -> (res: Result<ri16, Error>)
    requires rhs.rinto_req(),
    ensures res.is_ok() <==> in_SpanYears(x.val + rhs.rinto_spec().val), res.is_ok() ==> res.unwrap().val == x.val + rhs.rinto_spec().val
{ unimplemented!() }
#[verifier::external_body]
pub fn verif_try_checked_sub_SpanYears<R: RInto<ri16>>(x: ri16, rhs: R) -> (res: Result<ri16, Error>)
    requires rhs.rinto_req(),
    ensures res.is_ok() <==> in_SpanYears(x.val - rhs.rinto_spec().val), res.is_ok() ==> res.unwrap().val == x.val - rhs.rinto_spec().val
{ unimplemented!() }
#[verifier::external_body]
pub fn verif_checked_add_SpanYears<R: RInto<ri16>>(x: ri16, rhs: R) -> (res: Option<ri16>)
    requires rhs.rinto_req(),
    ensures res.is_some() <==> in_SpanYears(x.val + rhs.rinto_spec().val), res.is_some() ==> res.unwrap().val == x.val + rhs.rinto_spec().val
{ unimplemented!() }
#[verifier::external_body]
pub fn verif_checked_sub_SpanYears<R: RInto<ri16>>(x: ri16, rhs: R) -> (res: Option<ri16>)
    requires rhs.rinto_req(),
    ensures res.is_some() <==> in_SpanYears(x.val - rhs.rinto_spec().val), res.is_some() ==> res.unwrap().val == x.val - rhs.rinto_spec().val
{ unimplemented!() }
#[verifier::external_body]
pub fn verif_checked_mul_SpanYears<R: RInto<ri16>>(x: ri16, rhs: R) -> (res: Option<ri16>)
    requires rhs.rinto_req(),
    ensures res.is_some() <==> in_SpanYears(x.val * rhs.rinto_spec().val), res.is_some() ==> res.unwrap().val == x.val * rhs.rinto_spec().val
{ unimplemented!() }
pub type SpanMonths = ri32;
pub open spec fn SpanMonths_MIN() -> int { -239976 }
pub open spec fn SpanMonths_MAX() -> int { 239976 }
pub open spec fn in_SpanMonths(v: int) -> bool { -239976 <= v <= 239976 }
#[verifier::external_body]
pub fn verif_try_rfrom_SpanMonths_8(r: ri8) -> (res: Result<ri32, Error>)
    ensures res.is_ok() <==> in_SpanMonths(r.val as int), res.is_ok() ==> res.unwrap().val == r.val
{ unimplemented!() }
#[verifier::external_body]
pub fn verif_try_rfrom_SpanMonths_16(r: ri16) -> (res: Result<ri32, Error>)
    ensures res.is_ok() <==> in_SpanMonths(r.val as int), res.is_ok() ==> res.unwrap().val == r.val
{ unimplemented!() }
#[verifier::external_body]
pub fn verif_try_rfrom_SpanMonths_32(r: ri32) -> (res: Result<ri32, Error>)
    ensures res.is_ok() <==> in_SpanMonths(r.val as int), res.is_ok() ==> res.unwrap().val == r.val
{ unimplemented!() }
#[verifier::external_body]
pub fn verif_try_rfrom_SpanMonths_64(r: ri64) -> (res: Result<ri32, Error>)
    ensures res.is_ok() <==> in_SpanMonths(r.val as int), res.is_ok() ==> res.unwrap().val == r.val
{ unimplemented!() }
#[verifier::external_body]
pub fn verif_try_rfrom_SpanMonths_128(r: ri128) -> (res: Result<ri32, Error>)
    ensures res.is_ok() <==> in_SpanMonths(r.val as int), res.is_ok() ==> res.unwrap().val == r.val
{ unimplemented!() }
#[verifier::external_body]
pub fn verif_try_new_SpanMonths(v: i64) -> (res: Result<ri32, Error>)
    ensures res.is_ok() <==> in_SpanMonths(v as int), res.is_ok() ==> res.unwrap().val == v
{ unimplemented!() }
#[verifier::external_body]
pub fn verif_try_new128_SpanMonths(v: i128) -> (res: Result<ri32, Error>)
    ensures res.is_ok() <==> in_SpanMonths(v as int), res.is_ok() ==> res.unwrap().val == v
{ unimplemented!() }
// `SpanMonths::MIN` / `SpanMonths::MAX` (associated consts of type i128)
pub fn verif_MIN_SpanMonths() -> (r: i128) ensures r == SpanMonths_MIN() { -239976 }
pub fn verif_MAX_SpanMonths() -> (r: i128) ensures r == SpanMonths_MAX() { 239976 }
// `x.try_checked_mul("what", rhs)` with x: SpanMonths -- Ok iff the exact product lies within SpanMonths::MIN..=MAX
#[verifier::external_body]
pub fn verif_try_checked_mul_SpanMonths<R: RInto<ri32>>(x: ri32, rhs: R) -> (res: Result<ri32, Error>)
    requires rhs.rinto_req(),
    ensures res.is_ok() <==> in_SpanMonths(x.val * rhs.rinto_spec().val), res.is_ok() ==> res.unwrap().val == x.val * rhs.rinto_spec().val
{ unimplemented!() }
// `x.try_checked_add/sub("what", rhs)` and `x.checked_add/sub/mul(rhs)` with x: SpanMonths -- fail iff the exact result leaves SpanMonths::MIN..=MAX
#[verifier::external_body]
pub fn verif_try_checked_add_SpanMonths<R: RInto<ri32>>(x: ri32, rhs: R) -> (res: Result<ri32, Error>)
    requires rhs.rinto_req(),
    ensures res.is_ok() <==> in_SpanMonths(x.val + rhs.rinto_spec().val), res.is_ok() ==> res.unwrap().val == x.val + rhs.rinto_spec().val
{ unimplemented!() }
#[verifier::external_body]
pub fn verif_try_checked_sub_SpanMonths<R: RInto<ri32>>(x: ri32, rhs: R) -> (res: Result<ri32, Error>)
    requires rhs.rinto_req(),
    ensures res.is_ok() <==> in_SpanMonths(x.val - rhs.rinto_spec().val), res.is_ok() ==> res.unwrap().val == x.val - rhs.rinto_spec().val
{ unimplemented!() }
#[verifier::external_body]
pub fn verif_checked_add_SpanMonths<R: RInto<ri32>>(x: ri32, rhs: R) -> (res: Option<ri32>)
    requires rhs.rinto_req(),
    ensures res.is_some() <==> in_SpanMonths(x.val + rhs.rinto_spec().val), res.is_some() ==> res.unwrap().val == x.val + rhs.rinto_spec().val
{ unimplemented!() }
#[verifier::external_body]
pub fn verif_checked_sub_SpanMonths<R: RInto<ri32>>(x: ri32, rhs: R) -> (res: Option<ri32>)
    requires rhs.rinto_req(),
    ensures res.is_some() <==> in_SpanMonths(x.val - rhs.rinto_spec().val), res.is_some() ==> res.unwrap().val == x.val - rhs.rinto_spec().val
{ unimplemented!() }
#[verifier::external_body]
pub fn verif_checked_mul_SpanMonths<R: RInto<ri32>>(x: ri32, rhs: R) -> (res: Option<ri32>)
    requires rhs.rinto_req(),
    ensures res.is_some() <==> in_SpanMonths(x.val * rhs.rinto_spec().val), res.is_some() ==> res.unwrap().val == x.val * rhs.rinto_spec().val
{ unimplemented!() }
pub type SpanWeeks = ri32;
pub open spec fn SpanWeeks_MIN() -> int { -1043497 }
pub open spec fn SpanWeeks_MAX() -> int { 1043497 }
pub open spec fn in_SpanWeeks(v: int) -> bool { -1043497 <= v <= 1043497 }
#[verifier::external_body]
pub fn verif_try_rfrom_SpanWeeks_8(r: ri8) -> (res: Result<ri32, Error>)
    ensures res.is_ok() <==> in_SpanWeeks(r.val as int), res.is_ok() ==> res.unwrap().val == r.val
{ unimplemented!() }
#[verifier::external_body]
pub fn verif_try_rfrom_SpanWeeks_16(r: ri16) -> (res: Result<ri32, Error>)
    ensures res.is_ok() <==> in_SpanWeeks(r.val as int), res.is_ok() ==> res.unwrap().val == r.val
{ unimplemented!() }
#[verifier::external_body]
pub fn verif_try_rfrom_SpanWeeks_32(r: ri32) -> (res: Result<ri32, Error>)
    ensures res.is_ok() <==> in_SpanWeeks(r.val as int), res.is_ok() ==> res.unwrap().val == r.val
{ unimplemented!() }
#[verifier::external_body]
pub fn verif_try_rfrom_SpanWeeks_64(r: ri64) -> (res: Result<ri32, Error>)
    ensures res.is_ok() <==> in_SpanWeeks(r.val as int), res.is_ok() ==> res.unwrap().val == r.val
{ unimplemented!() }
#[verifier::external_body]
pub fn verif_try_rfrom_SpanWeeks_128(r: ri128) -> (res: Result<ri32, Error>)
    ensures res.is_ok() <==> in_SpanWeeks(r.val as int), res.is_ok() ==> res.unwrap().val == r.val
{ unimplemented!() }
#[verifier::external_body]
pub fn verif_try_new_SpanWeeks(v: i64) -> (res: Result<ri32, Error>)
    ensures res.is_ok() <==> in_SpanWeeks(v as int), res.is_ok() ==> res.unwrap().val == v
{ unimplemented!() }
#[verifier::external_body]
pub fn verif_try_new128_SpanWeeks(v: i128) -> (res: Result<ri32, Error>)
    ensures res.is_ok() <==> in_SpanWeeks(v as int), res.is_ok() ==> res.unwrap().val == v
{ unimplemented!() }
// `SpanWeeks::MIN` / `SpanWeeks::MAX` (associated consts of type i128)
pub fn verif_MIN_SpanWeeks() -> (r: i128) ensures r == SpanWeeks_MIN() { -1043497 }
pub fn verif_MAX_SpanWeeks() -> (r: i128) ensures r == SpanWeeks_MAX() { 1043497 }
// `x.try_checked_mul("what", rhs)` with x: SpanWeeks -- Ok iff the exact product lies within SpanWeeks::MIN..=MAX
#[verifier::external_body]
pub fn verif_try_checked_mul_SpanWeeks<R: RInto<ri32>>(x: ri32, rhs: R) -> (res: Result<ri32, Error>)
    requires rhs.rinto_req(),
    ensures res.is_ok() <==> in_SpanWeeks(x.val * rhs.rinto_spec().val), res.is_ok() ==> res.unwrap().val == x.val * rhs.rinto_spec().val
{ unimplemented!() }
// `x.try_checked_add/sub("what", rhs)` and `x.checked_add/sub/mul(rhs)` with x: SpanWeeks -- fail iff the exact result leaves SpanWeeks::MIN..=MAX
#[verifier::external_body]
pub fn verif_try_checked_add_SpanWeeks<R: RInto<ri32>>(x: ri32, rhs: R) -> (res: Result<ri32, Error>)
    requires rhs.rinto_req(),
    ensures res.is_ok() <==> in_SpanWeeks(x.val + rhs.rinto_spec().val), res.is_ok() ==> res.unwrap().val == x.val + rhs.rinto_spec().val
{ unimplemented!() }
#[verifier::external_body]
pub fn verif_try_checked_sub_SpanWeeks<R: RInto<ri32>>(x: ri32, rhs: R) -> (res: Result<ri32, Error>)
    requires rhs.rinto_req(),
    ensures res.is_ok() <==> in_SpanWeeks(x.val - rhs.rinto_spec().val), res.is_ok() ==> res.unwrap().val == x.val - rhs.rinto_spec().val
{ unimplemented!() }
#[verifier::external_body]
pub fn verif_checked_add_SpanWeeks<R: RInto<ri32>>(x: ri32, rhs: R) -> (res: Option<ri32>)
    requires rhs.rinto_req(),
    ensures res.is_some() <==> in_SpanWeeks(x.val + rhs.rinto_spec().val), res.is_some() ==> res.unwrap().val == x.val + rhs.rinto_spec().val
{ unimplemented!() }
#[verifier::external_body]
pub fn verif_checked_sub_SpanWeeks<R: RInto<ri32>>(x: ri32, rhs: R) -> (res: Option<ri32>)
    requires rhs.rinto_req(),
    ensures res.is_some() <==> in_SpanWeeks(x.val - rhs.rinto_spec().val), res.is_some() ==> res.unwrap().val == x.val - rhs.rinto_spec().val
{ unimplemented!() }
#[verifier::external_body]
pub fn verif_checked_mul_SpanWeeks<R: RInto<ri32>>(x: ri32, rhs: R) -> (res: Option<ri32>)
    requires rhs.rinto_req(),
    ensures res.is_some() <==> in_SpanWeeks(x.val * rhs.rinto_spec().val), res.is_some() ==> res.unwrap().val == x.val * rhs.rinto_spec().val
{ unimplemented!() }
pub type SpanDays = ri32;
pub open spec fn SpanDays_MIN() -> int { -7304484 }
pub open spec fn SpanDays_MAX() -> int { 7304484 }
pub open spec fn in_SpanDays(v: int) -> bool { -7304484 <= v <= 7304484 }
#[verifier::external_body]
pub fn verif_try_rfrom_SpanDays_8(r: ri8) -> (res: Result<ri32, Error>)
    ensures res.is_ok() <==> in_SpanDays(r.val as int), res.is_ok() ==> res.unwrap().val == r.val
{ unimplemented!() }
#[verifier::external_body]
pub fn verif_try_rfrom_SpanDays_16(r: ri16) -> (res: Result<ri32, Error>)
    ensures res.is_ok() <==> in_SpanDays(r.val as int), res.is_ok() ==> res.unwrap().val == r.val
{ unimplemented!() }
#[verifier::external_body]
pub fn verif_try_rfrom_SpanDays_32(r: ri32) -> (res: Result<ri32, Error>)
    ensures res.is_ok() <==> in_SpanDays(r.val as int), res.is_ok() ==> res.unwrap().val == r.val
{ unimplemented!() }
#[verifier::external_body]
pub fn verif_try_rfrom_SpanDays_64(r: ri64) -> (res: Result<ri32, Error>)
    ensures res.is_ok() <==> in_SpanDays(r.val as int), res.is_ok() ==> res.unwrap().val == r.val
{ unimplemented!() }
#[verifier::external_body]
pub fn verif_try_rfrom_SpanDays_128(r: ri128) -> (res: Result<ri32, Error>)
    ensures res.is_ok() <==> in_SpanDays(r.val as int), res.is_ok() ==> res.unwrap().val == r.val
{ unimplemented!() }
#[verifier::external_body]
pub fn verif_try_new_SpanDays(v: i64) -> (res: Result<ri32, Error>)
    ensures res.is_ok() <==> in_SpanDays(v as int), res.is_ok() ==> res.unwrap().val == v
{ unimplemented!() }
#[verifier::external_body]
pub fn verif_try_new128_SpanDays(v: i128) -> (res: Result<ri32, Error>)
    ensures res.is_ok() <==> in_SpanDays(v as int), res.is_ok() ==> res.unwrap().val == v
{ unimplemented!() }
// `SpanDays::MIN` / `SpanDays::MAX` (associated consts of type i128)
pub fn verif_MIN_SpanDays() -> (r: i128) ensures r == SpanDays_MIN() { -7304484 }
pub fn verif_MAX_SpanDays() -> (r: i128) ensures r == SpanDays_MAX() { 7304484 }
// `x.try_checked_mul("what", rhs)` with x: SpanDays -- Ok iff the exact product lies within SpanDays::MIN..=MAX
#[verifier::external_body]
pub fn verif_try_checked_mul_SpanDays<R: RInto<ri32>>(x: ri32, rhs: R) -> (res: Result<ri32, Error>)
    requires rhs.rinto_req(),
    ensures res.is_ok() <==> in_SpanDays(x.val * rhs.rinto_spec().val), res.is_ok() ==> res.unwrap().val == x.val * rhs.rinto_spec().val
{ unimplemented!() }
// `x.try_checked_add/sub("what", rhs)` and `x.checked_add/sub/mul(rhs)` with x: SpanDays -- fail iff the exact result leaves SpanDays::MIN..=MAX
#[verifier::external_body]
pub fn verif_try_checked_add_SpanDays<R: RInto<ri32>>(x: ri32, rhs: R) -> (res: Result<ri32, Error>)
    requires rhs.rinto_req(),
    ensures res.is_ok() <==> in_SpanDays(x.val + rhs.rinto_spec().val), res.is_ok() ==> res.unwrap().val == x.val + rhs.rinto_spec().val
{ unimplemented!() }
#[verifier::external_body]
pub fn verif_try_checked_sub_SpanDays<R: RInto<ri32>>(x: ri32, rhs: R) -> (res: Result<ri32, Error>)
    requires rhs.rinto_req(),
    ensures res.is_ok() <==> in_SpanDays(x.val - rhs.rinto_spec().val), res.is_ok() ==> res.unwrap().val == x.val - rhs.rinto_spec().val
{ unimplemented!() }
#[verifier::external_body]
pub fn verif_checked_add_SpanDays<R: RInto<ri32>>(x: ri32, rhs: R) -> (res: Option<ri32>)
    requires rhs.rinto_req(),
    ensures res.is_some() <==> in_SpanDays(x.val + rhs.rinto_spec().val), res.is_some() ==> res.unwrap().val == x.val + rhs.rinto_spec().val
{ unimplemented!() }
#[verifier::external_body]
pub fn verif_checked_sub_SpanDays<R: RInto<ri32>>(x: ri32, rhs: R) -> (res: Option<ri32>)
    requires rhs.rinto_req(),
    ensures res.is_some() <==> in_SpanDays(x.val - rhs.rinto_spec().val), res.is_some() ==> res.unwrap().val == x.val - rhs.rinto_spec().val
{ unimplemented!() }
#[verifier::external_body]
pub fn verif_checked_mul_SpanDays<R: RInto<ri32>>(x: ri32, rhs: R) -> (res: Option<ri32>)
    requires rhs.rinto_req(),
    ensures res.is_some() <==> in_SpanDays(x.val * rhs.rinto_spec().val), res.is_some() ==> res.unwrap().val == x.val * rhs.rinto_spec().val
{ unimplemented!() }
pub type SpanHours = ri32;
pub open spec fn SpanHours_MIN() -> int { -175307616 }
pub open spec fn SpanHours_MAX() -> int { 175307616 }
pub open spec fn in_SpanHours(v: int) -> bool { -175307616 <= v <= 175307616 }
#[verifier::external_body]
pub fn verif_try_rfrom_SpanHours_8(r: ri8) -> (res: Result<ri32, Error>)
    ensures res.is_ok() <==> in_SpanHours(r.val as int), res.is_ok() ==> res.unwrap().val == r.val
{ unimplemented!() }
#[verifier::external_body]
pub fn verif_try_rfrom_SpanHours_16(r: ri16) -> (res: Result<ri32, Error>)
    ensures res.is_ok() <==> in_SpanHours(r.val as int), res.is_ok() ==> res.unwrap().val == r.val
{ unimplemented!() }
#[verifier::external_body]
pub fn verif_try_rfrom_SpanHours_32(r: ri32) -> (res: Result<ri32, Error>)
    ensures res.is_ok() <==> in_SpanHours(r.val as int), res.is_ok() ==> res.unwrap().val == r.val
{ unimplemented!() }
#[verifier::external_body]
pub fn verif_try_rfrom_SpanHours_64(r: ri64) -> (res: Result<ri32, Error>)
    ensures res.is_ok() <==> in_SpanHours(r.val as int), res.is_ok() ==> res.unwrap().val == r.val
{ unimplemented!() }
#[verifier::external_body]
pub fn verif_try_rfrom_SpanHours_128(r: ri128) -> (res: Result<ri32, Error>)
    ensures res.is_ok() <==> in_SpanHours(r.val as int), res.is_ok() ==> res.unwrap().val == r.val
{ unimplemented!() }
#[verifier::external_body]
pub fn verif_try_new_SpanHours(v: i64) -> (res: Result<ri32, Error>)
    ensures res.is_ok() <==> in_SpanHours(v as int), res.is_ok() ==> res.unwrap().val == v
{ unimplemented!() }
#[verifier::external_body]
pub fn verif_try_new128_SpanHours(v: i128) -> (res: Result<ri32, Error>)
    ensures res.is_ok() <==> in_SpanHours(v as int), res.is_ok() ==> res.unwrap().val == v
{ unimplemented!() }
// `SpanHours::MIN` / `SpanHours::MAX` (associated consts of type i128)
pub fn verif_MIN_SpanHours() -> (r: i128) ensures r == SpanHours_MIN() { -175307616 }
pub fn verif_MAX_SpanHours() -> (r: i128) ensures r == SpanHours_MAX() { 175307616 }
// `x.try_checked_mul("what", rhs)` with x: SpanHours -- Ok iff the exact product lies within SpanHours::MIN..=MAX
#[verifier::external_body]
pub fn verif_try_checked_mul_SpanHours<R: RInto<ri32>>(x: ri32, rhs: R) -> (res: Result<ri32, Error>)
    requires rhs.rinto_req(),
    ensures res.is_ok() <==> in_SpanHours(x.val * rhs.rinto_spec().val), res.is_ok() ==> res.unwrap().val == x.val * rhs.rinto_spec().val
{ unimplemented!() }
// `x.try_checked_add/sub("what", rhs)` and `x.checked_add/sub/mul(rhs)` with x: SpanHours -- fail iff the exact result leaves SpanHours::MIN..=MAX
#[verifier::external_body]
pub fn verif_try_checked_add_SpanHours<R: RInto<ri32>>(x: ri32, rhs: R) -> (res: Result<ri32, Error>)
    requires rhs.rinto_req(),
    ensures res.is_ok() <==> in_SpanHours(x.val + rhs.rinto_spec().val), res.is_ok() ==> res.unwrap().val == x.val + rhs.rinto_spec().val
{ unimplemented!() }
#[verifier::external_body]
pub fn verif_try_checked_sub_SpanHours<R: RInto<ri32>>(x: ri32, rhs: R) -> (res: Result<ri32, Error>)
    requires rhs.rinto_req(),
    ensures res.is_ok() <==> in_SpanHours(x.val - rhs.rinto_spec().val), res.is_ok() ==> res.unwrap().val == x.val - rhs.rinto_spec().val
{ unimplemented!() }
#[verifier::external_body]
pub fn verif_checked_add_SpanHours<R: RInto<ri32>>(x: ri32, rhs: R) -> (res: Option<ri32>)
    requires rhs.rinto_req(),
    ensures res.is_some() <==> in_SpanHours(x.val + rhs.rinto_spec().val), res.is_some() ==> res.unwrap().val == x.val + rhs.rinto_spec().val
{ unimplemented!() }
#[verifier::external_body]
pub fn verif_checked_sub_SpanHours<R: RInto<ri32>>(x: ri32, rhs: R) -> (res: Option<ri32>)
    requires rhs.rinto_req(),
    ensures res.is_some() <==> in_SpanHours(x.val - rhs.rinto_spec().val), res.is_some() ==> res.unwrap().val == x.val - rhs.rinto_spec().val
{ unimplemented!() }
#[verifier::external_body]
pub fn verif_checked_mul_SpanHours<R: RInto<ri32>>(x: ri32, rhs: R) -> (res: Option<ri32>)
    requires rhs.rinto_req(),
    ensures res.is_some() <==> in_SpanHours(x.val * rhs.rinto_spec().val), res.is_some() ==> res.unwrap().val == x.val * rhs.rinto_spec().val
{ unimplemented!() }
pub type SpanMinutes = ri64;
pub open spec fn SpanMinutes_MIN() -> int { -10518456960 }
pub open spec fn SpanMinutes_MAX() -> int { 10518456960 }
pub open spec fn in_SpanMinutes(v: int) -> bool { -10518456960 <= v <= 10518456960 }
#[verifier::external_body]
pub fn verif_try_rfrom_SpanMinutes_8(r: ri8) -> (res: Result<ri64, Error>)
    ensures res.is_ok() <==> in_SpanMinutes(r.val as int), res.is_ok() ==> res.unwrap().val == r.val
{ unimplemented!() }
#[verifier::external_body]
pub fn verif_try_rfrom_SpanMinutes_16(r: ri16) -> (res: Result<ri64, Error>)
    ensures res.is_ok() <==> in_SpanMinutes(r.val as int), res.is_ok() ==> res.unwrap().val == r.val
{ unimplemented!() }
#[verifier::external_body]
pub fn verif_try_rfrom_SpanMinutes_32(r: ri32) -> (res: Result<ri64, Error>)
    ensures res.is_ok() <==> in_SpanMinutes(r.val as int), res.is_ok() ==> res.unwrap().val == r.val
{ unimplemented!() }
#[verifier::external_body]
pub fn verif_try_rfrom_SpanMinutes_64(r: ri64) -> (res: Result<ri64, Error>)
    ensures res.is_ok() <==> in_SpanMinutes(r.val as int), res.is_ok() ==> res.unwrap().val == r.val
{ unimplemented!() }
#[verifier::external_body]
pub fn verif_try_rfrom_SpanMinutes_128(r: ri128) -> (res: Result<ri64, Error>)
    ensures res.is_ok() <==> in_SpanMinutes(r.val as int), res.is_ok() ==> res.unwrap().val == r.val
{ unimplemented!() }
#[verifier::external_body]
pub fn verif_try_new_SpanMinutes(v: i64) -> (res: Result<ri64, Error>)
    ensures res.is_ok() <==> in_SpanMinutes(v as int), res.is_ok() ==> res.unwrap().val == v
{ unimplemented!() }
#[verifier::external_body]
pub fn verif_try_new128_SpanMinutes(v: i128) -> (res: Result<ri64, Error>)
    ensures res.is_ok() <==> in_SpanMinutes(v as int), res.is_ok() ==> res.unwrap().val == v
{ unimplemented!() }
// `SpanMinutes::MIN` / `SpanMinutes::MAX` (associated consts of type i128)
pub fn verif_MIN_SpanMinutes() -> (r: i128) ensures r == SpanMinutes_MIN() { -10518456960 }
pub fn verif_MAX_SpanMinutes() -> (r: i128) ensures r == SpanMinutes_MAX() { 10518456960 }
// `x.try_checked_mul("what", rhs)` with x: SpanMinutes -- Ok iff the exact product lies within SpanMinutes::MIN..=MAX
#[verifier::external_body]
pub fn verif_try_checked_mul_SpanMinutes<R: RInto<ri64>>(x: ri64, rhs: R) -> (res: Result<ri64, Error>)
    requires rhs.rinto_req(),
    ensures res.is_ok() <==> in_SpanMinutes(x.val * rhs.rinto_spec().val), res.is_ok() ==> res.unwrap().val == x.val * rhs.rinto_spec().val
{ unimplemented!() }
// `x.try_checked_add/sub("what", rhs)` and `x.checked_add/sub/mul(rhs)` with x: SpanMinutes -- fail iff the exact result leaves SpanMinutes::MIN..=MAX
#[verifier::external_body]
pub fn verif_try_checked_add_SpanMinutes<R: RInto<ri64>>(x: ri64, rhs: R) -> (res: Result<ri64, Error>)
    requires rhs.rinto_req(),
    ensures res.is_ok() <==> in_SpanMinutes(x.val + rhs.rinto_spec().val), res.is_ok() ==> res.unwrap().val == x.val + rhs.rinto_spec().val
{ unimplemented!() }
#[verifier::external_body]
pub fn verif_try_checked_sub_SpanMinutes<R: RInto<ri64>>(x: ri64, rhs: R) -> (res: Result<ri64, Error>)
    requires rhs.rinto_req(),
    ensures res.is_ok() <==> in_SpanMinutes(x.val - rhs.rinto_spec().val), res.is_ok() ==> res.unwrap().val == x.val - rhs.rinto_spec().val
{ unimplemented!() }
#[verifier::external_body]
pub fn verif_checked_add_SpanMinutes<R: RInto<ri64>>(x: ri64, rhs: R) -> (res: Option<ri64>)
    requires rhs.rinto_req(),
    ensures res.is_some() <==> in_SpanMinutes(x.val + rhs.rinto_spec().val), res.is_some() ==> res.unwrap().val == x.val + rhs.rinto_spec().val
{ unimplemented!() }
#[verifier::external_body]
pub fn verif_checked_sub_SpanMinutes<R: RInto<ri64>>(x: ri64, rhs: R) -> (res: Option<ri64>)
    requires rhs.rinto_req(),
    ensures res.is_some() <==> in_SpanMinutes(x.val - rhs.rinto_spec().val), res.is_some() ==> res.unwrap().val == x.val - rhs.rinto_spec().val
{ unimplemented!() }
#[verifier::external_body]
pub fn verif_checked_mul_SpanMinutes<R: RInto<ri64>>(x: ri64, rhs: R) -> (res: Option<ri64>)
    requires rhs.rinto_req(),
    ensures res.is_some() <==> in_SpanMinutes(x.val * rhs.rinto_spec().val), res.is_some() ==> res.unwrap().val == x.val * rhs.rinto_spec().val
{ unimplemented!() }
pub type SpanSeconds = ri64;
pub open spec fn SpanSeconds_MIN() -> int { -631107417600 }
pub open spec fn SpanSeconds_MAX() -> int { 631107417600 }
pub open spec fn in_SpanSeconds(v: int) -> bool { -631107417600 <= v <= 631107417600 }
#[verifier::external_body]
pub fn verif_try_rfrom_SpanSeconds_8(r: ri8) -> (res: Result<ri64, Error>)
    ensures res.is_ok() <==> in_SpanSeconds(r.val as int), res.is_ok() ==> res.unwrap().val == r.val
{ unimplemented!() }
#[verifier::external_body]
pub fn verif_try_rfrom_SpanSeconds_16(r: ri16) -> (res: Result<ri64, Error>)
    ensures res.is_ok() <==> in_SpanSeconds(r.val as int), res.is_ok() ==> res.unwrap().val == r.val
{ unimplemented!() }
#[verifier::external_body]
pub fn verif_try_rfrom_SpanSeconds_32(r: ri32) -> (res: Result<ri64, Error>)
    ensures res.is_ok() <==> in_SpanSeconds(r.val as int), res.is_ok() ==> res.unwrap().val == r.val
{ unimplemented!() }
#[verifier::external_body]
pub fn verif_try_rfrom_SpanSeconds_64(r: ri64) -> (res: Result<ri64, Error>)
    ensures res.is_ok() <==> in_SpanSeconds(r.val as int), res.is_ok() ==> res.unwrap().val == r.val
{ unimplemented!() }
#[verifier::external_body]
pub fn verif_try_rfrom_SpanSeconds_128(r: ri128) -> (res: Result<ri64, Error>)
    ensures res.is_ok() <==> in_SpanSeconds(r.val as int), res.is_ok() ==> res.unwrap().val == r.val
{ unimplemented!() }
#[verifier::external_body]
pub fn verif_try_new_SpanSeconds(v: i64) -> (res: Result<ri64, Error>)
    ensures res.is_ok() <==> in_SpanSeconds(v as int), res.is_ok() ==> res.unwrap().val == v
{ unimplemented!() }
#[verifier::external_body]
pub fn verif_try_new128_SpanSeconds(v: i128) -> (res: Result<ri64, Error>)
    ensures res.is_ok() <==> in_SpanSeconds(v as int), res.is_ok() ==> res.unwrap().val == v
{ unimplemented!() }
// `SpanSeconds::MIN` / `SpanSeconds::MAX` (associated consts of type i128)
pub fn verif_MIN_SpanSeconds() -> (r: i128) ensures r == SpanSeconds_MIN() { -631107417600 }
pub fn verif_MAX_SpanSeconds() -> (r: i128) ensures r == SpanSeconds_MAX() { 631107417600 }
// `x.try_checked_mul("what", rhs)` with x: SpanSeconds -- Ok iff the exact product lies within SpanSeconds::MIN..=MAX
#[verifier::external_body]
pub fn verif_try_checked_mul_SpanSeconds<R: RInto<ri64>>(x: ri64, rhs: R) -> (res: Result<ri64, Error>)
    requires rhs.rinto_req(),
    ensures res.is_ok() <==> in_SpanSeconds(x.val * rhs.rinto_spec().val), res.is_ok() ==> res.unwrap().val == x.val * rhs.rinto_spec().val
{ unimplemented!() }
// `x.try_checked_add/sub("what", rhs)` and `x.checked_add/sub/mul(rhs)` with x: SpanSeconds -- fail iff the exact result leaves SpanSeconds::MIN..=MAX
#[verifier::external_body]
pub fn verif_try_checked_add_SpanSeconds<R: RInto<ri64>>(x: ri64, rhs: R) -> (res: Result<ri64, Error>)
    requires rhs.rinto_req(),
    ensures res.is_ok() <==> in_SpanSeconds(x.val + rhs.rinto_spec().val), res.is_ok() ==> res.unwrap().val == x.val + rhs.rinto_spec().val
{ unimplemented!() }
#[verifier::external_body]
pub fn verif_try_checked_sub_SpanSeconds<R: RInto<ri64>>(x: ri64, rhs: R) -> (res: Result<ri64, Error>)
    requires rhs.rinto_req(),
    ensures res.is_ok() <==> in_SpanSeconds(x.val - rhs.rinto_spec().val), res.is_ok() ==> res.unwrap().val == x.val - rhs.rinto_spec().val
{ unimplemented!() }
#[verifier::external_body]
pub fn verif_checked_add_SpanSeconds<R: RInto<ri64>>(x: ri64, rhs: R) -> (res: Option<ri64>)
    requires rhs.rinto_req(),
    ensures res.is_some() <==> in_SpanSeconds(x.val + rhs.rinto_spec().val), res.is_some() ==> res.unwrap().val == x.val + rhs.rinto_spec().val
{ unimplemented!() }
#[verifier::external_body]
pub fn verif_checked_sub_SpanSeconds<R: RInto<ri64>>(x: ri64, rhs: R) -> (res: Option<ri64>)
    requires rhs.rinto_req(),
    ensures res.is_some() <==> in_SpanSeconds(x.val - rhs.rinto_spec().val), res.is_some() ==> res.unwrap().val == x.val - rhs.rinto_spec().val
{ unimplemented!() }
#[verifier::external_body]
pub fn verif_checked_mul_SpanSeconds<R: RInto<ri64>>(x: ri64, rhs: R) -> (res: Option<ri64>)
    requires rhs.rinto_req(),
    ensures res.is_some() <==> in_SpanSeconds(x.val * rhs.rinto_spec().val), res.is_some() ==> res.unwrap().val == x.val * rhs.rinto_spec().val
{ unimplemented!() }
pub type SpanMilliseconds = ri64;
pub open spec fn SpanMilliseconds_MIN() -> int { -631107417600000 }
pub open spec fn SpanMilliseconds_MAX() -> int { 631107417600000 }
pub open spec fn in_SpanMilliseconds(v: int) -> bool { -631107417600000 <= v <= 631107417600000 }
#[verifier::external_body]
pub fn verif_try_rfrom_SpanMilliseconds_8(r: ri8) -> (res: Result<ri64, Error>)
    ensures res.is_ok() <==> in_SpanMilliseconds(r.val as int), res.is_ok() ==> res.unwrap().val == r.val
{ unimplemented!() }
#[verifier::external_body]
pub fn verif_try_rfrom_SpanMilliseconds_16(r: ri16) -> (res: Result<ri64, Error>)
    ensures res.is_ok() <==> in_SpanMilliseconds(r.val as int), res.is_ok() ==> res.unwrap().val == r.val
{ unimplemented!() }
#[verifier::external_body]
pub fn verif_try_rfrom_SpanMilliseconds_32(r: ri32) -> (res: Result<ri64, Error>)
    ensures res.is_ok() <==> in_SpanMilliseconds(r.val as int), res.is_ok() ==> res.unwrap().val == r.val
{ unimplemented!() }
#[verifier::external_body]
pub fn verif_try_rfrom_SpanMilliseconds_64(r: ri64) -> (res: Result<ri64, Error>)
    ensures res.is_ok() <==> in_SpanMilliseconds(r.val as int), res.is_ok() ==> res.unwrap().val == r.val
{ unimplemented!() }
#[verifier::external_body]
pub fn verif_try_rfrom_SpanMilliseconds_128(r: ri128) -> (res: Result<ri64, Error>)
    ensures res.is_ok() <==> in_SpanMilliseconds(r.val as int), res.is_ok() ==> res.unwrap().val == r.val
{ unimplemented!() }
#[verifier::external_body]
pub fn verif_try_new_SpanMilliseconds(v: i64) -> (res: Result<ri64, Error>)
    ensures res.is_ok() <==> in_SpanMilliseconds(v as int), res.is_ok() ==> res.unwrap().val == v
{ unimplemented!() }
#[verifier::external_body]
pub fn verif_try_new128_SpanMilliseconds(v: i128) -> (res: Result<ri64, Error>)
    ensures res.is_ok() <==> in_SpanMilliseconds(v as int), res.is_ok() ==> res.unwrap().val == v
{ unimplemented!() }
// `SpanMilliseconds::MIN` / `SpanMilliseconds::MAX` (associated consts of type i128)
pub fn verif_MIN_SpanMilliseconds() -> (r: i128) ensures r == SpanMilliseconds_MIN() { -631107417600000 }
pub fn verif_MAX_SpanMilliseconds() -> (r: i128) ensures r == SpanMilliseconds_MAX() { 631107417600000 }
// `x.try_checked_mul("what", rhs)` with x: SpanMilliseconds -- Ok iff the exact product lies within SpanMilliseconds::MIN..=MAX
#[verifier::external_body]
pub fn verif_try_checked_mul_SpanMilliseconds<R: RInto<ri64>>(x: ri64, rhs: R) -> (res: Result<ri64, Error>)
    requires rhs.rinto_req(),
    ensures res.is_ok() <==> in_SpanMilliseconds(x.val * rhs.rinto_spec().val), res.is_ok() ==> res.unwrap().val == x.val * rhs.rinto_spec().val
{ unimplemented!() }
// `x.try_checked_add/sub("what", rhs)` and `x.checked_add/sub/mul(rhs)` with x: SpanMilliseconds -- fail iff the exact result leaves SpanMilliseconds::MIN..=MAX
#[verifier::external_body]
pub fn verif_try_checked_add_SpanMilliseconds<R: RInto<ri64>>(x: ri64, rhs: R) -> (res: Result<ri64, Error>)
    requires rhs.rinto_req(),
    ensures res.is_ok() <==> in_SpanMilliseconds(x.val + rhs.rinto_spec().val), res.is_ok() ==> res.unwrap().val == x.val + rhs.rinto_spec().val
{ unimplemented!() }
#[verifier::external_body]
pub fn verif_try_checked_sub_SpanMilliseconds<R: RInto<ri64>>(x: ri64, rhs: R) -> (res: Result<ri64, Error>)
    requires rhs.rinto_req(),
    ensures res.is_ok() <==> in_SpanMilliseconds(x.val - rhs.rinto_spec().val), res.is_ok() ==> res.unwrap().val == x.val - rhs.rinto_spec().val
{ unimplemented!() }
#[verifier::external_body]
pub fn verif_checked_add_SpanMilliseconds<R: RInto<ri64>>(x: ri64, rhs: R) -> (res: Option<ri64>)
    requires rhs.rinto_req(),
    ensures res.is_some() <==> in_SpanMilliseconds(x.val + rhs.rinto_spec().val), res.is_some() ==> res.unwrap().val == x.val + rhs.rinto_spec().val
{ unimplemented!() }
#[verifier::external_body]
pub fn verif_checked_sub_SpanMilliseconds<R: RInto<ri64>>(x: ri64, rhs: R) -> (res: Option<ri64>)
    requires rhs.rinto_req(),
    ensures res.is_some() <==> in_SpanMilliseconds(x.val - rhs.rinto_spec().val), res.is_some() ==> res.unwrap().val == x.val - rhs.rinto_spec().val
{ unimplemented!() }
#[verifier::external_body]
pub fn verif_checked_mul_SpanMilliseconds<R: RInto<ri64>>(x: ri64, rhs: R) -> (res: Option<ri64>)
    requires rhs.rinto_req(),
    ensures res.is_some() <==> in_SpanMilliseconds(x.val * rhs.rinto_spec().val), res.is_some() ==> res.unwrap().val == x.val * rhs.rinto_spec().val
{ unimplemented!() }
pub type SpanMicroseconds = ri64;
pub open spec fn SpanMicroseconds_MIN() -> int { -631107417600000000 }
pub open spec fn SpanMicroseconds_MAX() -> int { 631107417600000000 }
pub open spec fn in_SpanMicroseconds(v: int) -> bool { -631107417600000000 <= v <= 631107417600000000 }
#[verifier::external_body]
pub fn verif_try_rfrom_SpanMicroseconds_8(r: ri8) -> (res: Result<ri64, Error>)
    ensures res.is_ok() <==> in_SpanMicroseconds(r.val as int), res.is_ok() ==> res.unwrap().val == r.val
{ unimplemented!() }
#[verifier::external_body]
pub fn verif_try_rfrom_SpanMicroseconds_16(r: ri16) -> (res: Result<ri64, Error>)
    ensures res.is_ok() <==> in_SpanMicroseconds(r.val as int), res.is_ok() ==> res.unwrap().val == r.val
{ unimplemented!() }
#[verifier::external_body]
pub fn verif_try_rfrom_SpanMicroseconds_32(r: ri32) -> (res: Result<ri64, Error>)
    ensures res.is_ok() <==> in_SpanMicroseconds(r.val as int), res.is_ok() ==> res.unwrap().val == r.val
{ unimplemented!() }
#[verifier::external_body]
pub fn verif_try_rfrom_SpanMicroseconds_64(r: ri64) -> (res: Result<ri64, Error>)
    ensures res.is_ok() <==> in_SpanMicroseconds(r.val as int), res.is_ok() ==> res.unwrap().val == r.val
{ unimplemented!() }
#[verifier::external_body]
pub fn verif_try_rfrom_SpanMicroseconds_128(r: ri128) -> (res: Result<ri64, Error>)
    ensures res.is_ok() <==> in_SpanMicroseconds(r.val as int), res.is_ok() ==> res.unwrap().val == r.val
{ unimplemented!() }
#[verifier::external_body]
pub fn verif_try_new_SpanMicroseconds(v: i64) -> (res: Result<ri64, Error>)
    ensures res.is_ok() <==> in_SpanMicroseconds(v as int), res.is_ok() ==> res.unwrap().val == v
{ unimplemented!() }
#[verifier::external_body]
pub fn verif_try_new128_SpanMicroseconds(v: i128) -> (res: Result<ri64, Error>)
    ensures res.is_ok() <==> in_SpanMicroseconds(v as int), res.is_ok() ==> res.unwrap().val == v
{ unimplemented!() }
// `SpanMicroseconds::MIN` / `SpanMicroseconds::MAX` (associated consts of type i128)
pub fn verif_MIN_SpanMicroseconds() -> (r: i128) ensures r == SpanMicroseconds_MIN() { -631107417600000000 }
pub fn verif_MAX_SpanMicroseconds() -> (r: i128) ensures r == SpanMicroseconds_MAX() { 631107417600000000 }
// `x.try_checked_mul("what", rhs)` with x: SpanMicroseconds -- Ok iff the exact product lies within SpanMicroseconds::MIN..=MAX
#[verifier::external_body]
pub fn verif_try_checked_mul_SpanMicroseconds<R: RInto<ri64>>(x: ri64, rhs: R) -> (res: Result<ri64, Error>)
    requires rhs.rinto_req(),
    ensures res.is_ok() <==> in_SpanMicroseconds(x.val * rhs.rinto_spec().val), res.is_ok() ==> res.unwrap().val == x.val * rhs.rinto_spec().val
{ unimplemented!() }
// `x.try_checked_add/sub("what", rhs)` and `x.checked_add/sub/mul(rhs)` with x: SpanMicroseconds -- fail iff the exact result leaves SpanMicroseconds::MIN..=MAX
#[verifier::external_body]
pub fn verif_try_checked_add_SpanMicroseconds<R: RInto<ri64>>(x: ri64, rhs: R) -> (res: Result<ri64, Error>)
    requires rhs.rinto_req(),
    ensures res.is_ok() <==> in_SpanMicroseconds(x.val + rhs.rinto_spec().val), res.is_ok() ==> res.unwrap().val == x.val + rhs.rinto_spec().val
{ unimplemented!() }
#[verifier::external_body]
pub fn verif_try_checked_sub_SpanMicroseconds<R: RInto<ri64>>(x: ri64, rhs: R) -> (res: Result<ri64, Error>)
    requires rhs.rinto_req(),
    ensures res.is_ok() <==> in_SpanMicroseconds(x.val - rhs.rinto_spec().val), res.is_ok() ==> res.unwrap().val == x.val - rhs.rinto_spec().val
{ unimplemented!() }
#[verifier::external_body]
pub fn verif_checked_add_SpanMicroseconds<R: RInto<ri64>>(x: ri64, rhs: R) -> (res: Option<ri64>)
    requires rhs.rinto_req(),
    ensures res.is_some() <==> in_SpanMicroseconds(x.val + rhs.rinto_spec().val), res.is_some() ==> res.unwrap().val == x.val + rhs.rinto_spec().val
{ unimplemented!() }
#[verifier::external_body]
pub fn verif_checked_sub_SpanMicroseconds<R: RInto<ri64>>(x: ri64, rhs: R) -> (res: Option<ri64>)
    requires rhs.rinto_req(),
    ensures res.is_some() <==> in_SpanMicroseconds(x.val - rhs.rinto_spec().val), res.is_some() ==> res.unwrap().val == x.val - rhs.rinto_spec().val
{ unimplemented!() }
#[verifier::external_body]
pub fn verif_checked_mul_SpanMicroseconds<R: RInto<ri64>>(x: ri64, rhs: R) -> (res: Option<ri64>)
    requires rhs.rinto_req(),
    ensures res.is_some() <==> in_SpanMicroseconds(x.val * rhs.rinto_spec().val), res.is_some() ==> res.unwrap().val == x.val * rhs.rinto_spec().val
{ unimplemented!() }
pub type SpanNanoseconds = ri64;
pub open spec fn SpanNanoseconds_MIN() -> int { -9223372036854775807 }
pub open spec fn SpanNanoseconds_MAX() -> int { 9223372036854775807 }
pub open spec fn in_SpanNanoseconds(v: int) -> bool { -9223372036854775807 <= v <= 9223372036854775807 }
#[verifier::external_body]
pub fn verif_try_rfrom_SpanNanoseconds_8(r: ri8) -> (res: Result<ri64, Error>)
    ensures res.is_ok() <==> in_SpanNanoseconds(r.val as int), res.is_ok() ==> res.unwrap().val == r.val
{ unimplemented!() }
#[verifier::external_body]
pub fn verif_try_rfrom_SpanNanoseconds_16(r: ri16) -> (res: Result<ri64, Error>)
    ensures res.is_ok() <==> in_SpanNanoseconds(r.val as int), res.is_ok() ==> res.unwrap().val == r.val
{ unimplemented!() }
#[verifier::external_body]
pub fn verif_try_rfrom_SpanNanoseconds_32(r: ri32) -> (res: Result<ri64, Error>)
    ensures res.is_ok() <==> in_SpanNanoseconds(r.val as int), res.is_ok() ==> res.unwrap().val == r.val
{ unimplemented!() }
#[verifier::external_body]
pub fn verif_try_rfrom_SpanNanoseconds_64(r: ri64) -> (res: Result<ri64, Error>)
    ensures res.is_ok() <==> in_SpanNanoseconds(r.val as int), res.is_ok() ==> res.unwrap().val == r.val
{ unimplemented!() }
#[verifier::external_body]
pub fn verif_try_rfrom_SpanNanoseconds_128(r: ri128) -> (res: Result<ri64, Error>)
    ensures res.is_ok() <==> in_SpanNanoseconds(r.val as int), res.is_ok() ==> res.unwrap().val == r.val
{ unimplemented!() }
#[verifier::external_body]
pub fn verif_try_new_SpanNanoseconds(v: i64) -> (res: Result<ri64, Error>)
    ensures res.is_ok() <==> in_SpanNanoseconds(v as int), res.is_ok() ==> res.unwrap().val == v
{ unimplemented!() }
#[verifier::external_body]
pub fn verif_try_new128_SpanNanoseconds(v: i128) -> (res: Result<ri64, Error>)
    ensures res.is_ok() <==> in_SpanNanoseconds(v as int), res.is_ok() ==> res.unwrap().val == v
{ unimplemented!() }
// `SpanNanoseconds::MIN` / `SpanNanoseconds::MAX` (associated consts of type i128)
pub fn verif_MIN_SpanNanoseconds() -> (r: i128) ensures r == SpanNanoseconds_MIN() { -9223372036854775807 }
pub fn verif_MAX_SpanNanoseconds() -> (r: i128) ensures r == SpanNanoseconds_MAX() { 9223372036854775807 }
// `x.try_checked_mul("what", rhs)` with x: SpanNanoseconds -- Ok iff the exact product lies within SpanNanoseconds::MIN..=MAX
#[verifier::external_body]
pub fn verif_try_checked_mul_SpanNanoseconds<R: RInto<ri64>>(x: ri64, rhs: R) -> (res: Result<ri64, Error>)
    requires rhs.rinto_req(),
    ensures res.is_ok() <==> in_SpanNanoseconds(x.val * rhs.rinto_spec().val), res.is_ok() ==> res.unwrap().val == x.val * rhs.rinto_spec().val
{ unimplemented!() }
// `x.try_checked_add/sub("what", rhs)` and `x.checked_add/sub/mul(rhs)` with x: SpanNanoseconds -- fail iff the exact result leaves SpanNanoseconds::MIN..=MAX
#[verifier::external_body]
pub fn verif_try_checked_add_SpanNanoseconds<R: RInto<ri64>>(x: ri64, rhs: R) -> (res: Result<ri64, Error>)
    requires rhs.rinto_req(),
    ensures res.is_ok() <==> in_SpanNanoseconds(x.val + rhs.rinto_spec().val), res.is_ok() ==> res.unwrap().val == x.val + rhs.rinto_spec().val
{ unimplemented!() }
#[verifier::external_body]
pub fn verif_try_checked_sub_SpanNanoseconds<R: RInto<ri64>>(x: ri64, rhs: R) -> (res: Result<ri64, Error>)
    requires rhs.rinto_req(),
    ensures res.is_ok() <==> in_SpanNanoseconds(x.val - rhs.rinto_spec().val), res.is_ok() ==> res.unwrap().val == x.val - rhs.rinto_spec().val
{ unimplemented!() }
#[verifier::external_body]
pub fn verif_checked_add_SpanNanoseconds<R: RInto<ri64>>(x: ri64, rhs: R) -> (res: Option<ri64>)
    requires rhs.rinto_req(),
    ensures res.is_some() <==> in_SpanNanoseconds(x.val + rhs.rinto_spec().val), res.is_some() ==> res.unwrap().val == x.val + rhs.rinto_spec().val
{ unimplemented!() }
#[verifier::external_body]
pub fn verif_checked_sub_SpanNanoseconds<R: RInto<ri64>>(x: ri64, rhs: R) -> (res: Option<ri64>)
    requires rhs.rinto_req(),
    ensures res.is_some() <==> in_SpanNanoseconds(x.val - rhs.rinto_spec().val), res.is_some() ==> res.unwrap().val == x.val - rhs.rinto_spec().val
{ unimplemented!() }
#[verifier::external_body]
pub fn verif_checked_mul_SpanNanoseconds<R: RInto<ri64>>(x: ri64, rhs: R) -> (res: Option<ri64>)
    requires rhs.rinto_req(),
    ensures res.is_some() <==> in_SpanNanoseconds(x.val * rhs.rinto_spec().val), res.is_some() ==> res.unwrap().val == x.val * rhs.rinto_spec().val
{ unimplemented!() }
pub type SpanZoneOffset = ri32;
pub open spec fn SpanZoneOffset_MIN() -> int { -93599 }
pub open spec fn SpanZoneOffset_MAX() -> int { 93599 }
pub open spec fn in_SpanZoneOffset(v: int) -> bool { -93599 <= v <= 93599 }
#[verifier::external_body]
pub fn verif_try_rfrom_SpanZoneOffset_8(r: ri8) -> (res: Result<ri32, Error>)
    ensures res.is_ok() <==> in_SpanZoneOffset(r.val as int), res.is_ok() ==> res.unwrap().val == r.val
{ unimplemented!() }
#[verifier::external_body]
pub fn verif_try_rfrom_SpanZoneOffset_16(r: ri16) -> (res: Result<ri32, Error>)
    ensures res.is_ok() <==> in_SpanZoneOffset(r.val as int), res.is_ok() ==> res.unwrap().val == r.val
{ unimplemented!() }
#[verifier::external_body]
pub fn verif_try_rfrom_SpanZoneOffset_32(r: ri32) -> (res: Result<ri32, Error>)
    ensures res.is_ok() <==> in_SpanZoneOffset(r.val as int), res.is_ok() ==> res.unwrap().val == r.val
{ unimplemented!() }
#[verifier::external_body]
pub fn verif_try_rfrom_SpanZoneOffset_64(r: ri64) -> (res: Result<ri32, Error>)
    ensures res.is_ok() <==> in_SpanZoneOffset(r.val as int), res.is_ok() ==> res.unwrap().val == r.val
{ unimplemented!() }
#[verifier::external_body]
pub fn verif_try_rfrom_SpanZoneOffset_128(r: ri128) -> (res: Result<ri32, Error>)
    ensures res.is_ok() <==> in_SpanZoneOffset(r.val as int), res.is_ok() ==> res.unwrap().val == r.val
{ unimplemented!() }
#[verifier::external_body]
pub fn verif_try_new_SpanZoneOffset(v: i64) -> (res: Result<ri32, Error>)
    ensures res.is_ok() <==> in_SpanZoneOffset(v as int), res.is_ok() ==> res.unwrap().val == v
{ unimplemented!() }
#[verifier::external_body]
pub fn verif_try_new128_SpanZoneOffset(v: i128) -> (res: Result<ri32, Error>)
    ensures res.is_ok() <==> in_SpanZoneOffset(v as int), res.is_ok() ==> res.unwrap().val == v
{ unimplemented!() }
// `SpanZoneOffset::MIN` / `SpanZoneOffset::MAX` (associated consts of type i128)
pub fn verif_MIN_SpanZoneOffset() -> (r: i128) ensures r == SpanZoneOffset_MIN() { -93599 }
pub fn verif_MAX_SpanZoneOffset() -> (r: i128) ensures r == SpanZoneOffset_MAX() { 93599 }
// `x.try_checked_mul("what", rhs)` with x: SpanZoneOffset -- Ok iff the exact product lies within SpanZoneOffset::MIN..=MAX
#[verifier::external_body]
pub fn verif_try_checked_mul_SpanZoneOffset<R: RInto<ri32>>(x: ri32, rhs: R) -> (res: Result<ri32, Error>)
    requires rhs.rinto_req(),
    ensures res.is_ok() <==> in_SpanZoneOffset(x.val * rhs.rinto_spec().val), res.is_ok() ==> res.unwrap().val == x.val * rhs.rinto_spec().val
{ unimplemented!() }
// `x.try_checked_add/sub("what", rhs)` and `x.checked_add/sub/mul(rhs)` with x: SpanZoneOffset -- fail iff the exact result leaves SpanZoneOffset::MIN..=MAX
#[verifier::external_body]
pub fn verif_try_checked_add_SpanZoneOffset<R: RInto<ri32>>(x: ri32, rhs: R) -> (res: Result<ri32, Error>)
    requires rhs.rinto_req(),
    ensures res.is_ok() <==> in_SpanZoneOffset(x.val + rhs.rinto_spec().val), res.is_ok() ==> res.unwrap().val == x.val + rhs.rinto_spec().val
{ unimplemented!() }
#[verifier::external_body]
pub fn verif_try_checked_sub_SpanZoneOffset<R: RInto<ri32>>(x: ri32, rhs: R) -> (res: Result<ri32, Error>)
    requires rhs.rinto_req(),
    ensures res.is_ok() <==> in_SpanZoneOffset(x.val - rhs.rinto_spec().val), res.is_ok() ==> res.unwrap().val == x.val - rhs.rinto_spec().val
{ unimplemented!() }
#[verifier::external_body]
pub fn verif_checked_add_SpanZoneOffset<R: RInto<ri32>>(x: ri32, rhs: R) -> (res: Option<ri32>)
    requires rhs.rinto_req(),
    ensures res.is_some() <==> in_SpanZoneOffset(x.val + rhs.rinto_spec().val), res.is_some() ==> res.unwrap().val == x.val + rhs.rinto_spec().val
{ unimplemented!() }
#[verifier::external_body]
pub fn verif_checked_sub_SpanZoneOffset<R: RInto<ri32>>(x: ri32, rhs: R) -> (res: Option<ri32>)
    requires rhs.rinto_req(),
    ensures res.is_some() <==> in_SpanZoneOffset(x.val - rhs.rinto_spec().val), res.is_some() ==> res.unwrap().val == x.val - rhs.rinto_spec().val
{ unimplemented!() }
#[verifier::external_body]
pub fn verif_checked_mul_SpanZoneOffset<R: RInto<ri32>>(x: ri32, rhs: R) -> (res: Option<ri32>)
    requires rhs.rinto_req(),
    ensures res.is_some() <==> in_SpanZoneOffset(x.val * rhs.rinto_spec().val), res.is_some() ==> res.unwrap().val == x.val * rhs.rinto_spec().val
{ unimplemented!() }
pub type FractionalNanosecond = ri32;
pub open spec fn FractionalNanosecond_MIN() -> int { -999999999 }
pub open spec fn FractionalNanosecond_MAX() -> int { 999999999 }
pub open spec fn in_FractionalNanosecond(v: int) -> bool { -999999999 <= v <= 999999999 }
#[verifier::external_body]
pub fn verif_try_rfrom_FractionalNanosecond_8(r: ri8) -> (res: Result<ri32, Error>)
    ensures res.is_ok() <==> in_FractionalNanosecond(r.val as int), res.is_ok() ==> res.unwrap().val == r.val
{ unimplemented!() }
#[verifier::external_body]
pub fn verif_try_rfrom_FractionalNanosecond_16(r: ri16) -> (res: Result<ri32, Error>)
    ensures res.is_ok() <==> in_FractionalNanosecond(r.val as int), res.is_ok() ==> res.unwrap().val == r.val
{ unimplemented!() }
#[verifier::external_body]
pub fn verif_try_rfrom_FractionalNanosecond_32(r: ri32) -> (res: Result<ri32, Error>)
    ensures res.is_ok() <==> in_FractionalNanosecond(r.val as int), res.is_ok() ==> res.unwrap().val == r.val
{ unimplemented!() }
#[verifier::external_body]
pub fn verif_try_rfrom_FractionalNanosecond_64(r: ri64) -> (res: Result<ri32, Error>)
    ensures res.is_ok() <==> in_FractionalNanosecond(r.val as int), res.is_ok() ==> res.unwrap().val == r.val
{ unimplemented!() }
#[verifier::external_body]
pub fn verif_try_rfrom_FractionalNanosecond_128(r: ri128) -> (res: Result<ri32, Error>)
    ensures res.is_ok() <==> in_FractionalNanosecond(r.val as int), res.is_ok() ==> res.unwrap().val == r.val
{ unimplemented!() }
#[verifier::external_body]
pub fn verif_try_new_FractionalNanosecond(v: i64) -> (res: Result<ri32, Error>)
    ensures res.is_ok() <==> in_FractionalNanosecond(v as int), res.is_ok() ==> res.unwrap().val == v
{ unimplemented!() }
#[verifier::external_body]
pub fn verif_try_new128_FractionalNanosecond(v: i128) -> (res: Result<ri32, Error>)
    ensures res.is_ok() <==> in_FractionalNanosecond(v as int), res.is_ok() ==> res.unwrap().val == v
{ unimplemented!() }
// `FractionalNanosecond::MIN` / `FractionalNanosecond::MAX` (associated consts of type i128)
pub fn verif_MIN_FractionalNanosecond() -> (r: i128) ensures r == FractionalNanosecond_MIN() { -999999999 }
pub fn verif_MAX_FractionalNanosecond() -> (r: i128) ensures r == FractionalNanosecond_MAX() { 999999999 }
// `x.try_checked_mul("what", rhs)` with x: FractionalNanosecond -- Ok iff the exact product lies within FractionalNanosecond::MIN..=MAX
#[verifier::external_body]
pub fn verif_try_checked_mul_FractionalNanosecond<R: RInto<ri32>>(x: ri32, rhs: R) -> (res: Result<ri32, Error>)
    requires rhs.rinto_req(),
    ensures res.is_ok() <==> in_FractionalNanosecond(x.val * rhs.rinto_spec().val), res.is_ok() ==> res.unwrap().val == x.val * rhs.rinto_spec().val
{ unimplemented!() }
// `x.try_checked_add/sub("what", rhs)` and `x.checked_add/sub/mul(rhs)` with x: FractionalNanosecond -- fail iff the exact result leaves FractionalNanosecond::MIN..=MAX
#[verifier::external_body]
pub fn verif_try_checked_add_FractionalNanosecond<R: RInto<ri32>>(x: ri32, rhs: R) -> (res: Result<ri32, Error>)
    requires rhs.rinto_req(),
    ensures res.is_ok() <==> in_FractionalNanosecond(x.val + rhs.rinto_spec().val), res.is_ok() ==> res.unwrap().val == x.val + rhs.rinto_spec().val
{ unimplemented!() }
#[verifier::external_body]
pub fn verif_try_checked_sub_FractionalNanosecond<R: RInto<ri32>>(x: ri32, rhs: R) -> (res: Result<ri32, Error>)
    requires rhs.rinto_req(),
    ensures res.is_ok() <==> in_FractionalNanosecond(x.val - rhs.rinto_spec().val), res.is_ok() ==> res.unwrap().val == x.val - rhs.rinto_spec().val
{ unimplemented!() }
#[verifier::external_body]
pub fn verif_checked_add_FractionalNanosecond<R: RInto<ri32>>(x: ri32, rhs: R) -> (res: Option<ri32>)
    requires rhs.rinto_req(),
    ensures res.is_some() <==> in_FractionalNanosecond(x.val + rhs.rinto_spec().val), res.is_some() ==> res.unwrap().val == x.val + rhs.rinto_spec().val
{ unimplemented!() }
#[verifier::external_body]
pub fn verif_checked_sub_FractionalNanosecond<R: RInto<ri32>>(x: ri32, rhs: R) -> (res: Option<ri32>)
    requires rhs.rinto_req(),
    ensures res.is_some() <==> in_FractionalNanosecond(x.val - rhs.rinto_spec().val), res.is_some() ==> res.unwrap().val == x.val - rhs.rinto_spec().val
{ unimplemented!() }
#[verifier::external_body]
pub fn verif_checked_mul_FractionalNanosecond<R: RInto<ri32>>(x: ri32, rhs: R) -> (res: Option<ri32>)
    requires rhs.rinto_req(),
    ensures res.is_some() <==> in_FractionalNanosecond(x.val * rhs.rinto_spec().val), res.is_some() ==> res.unwrap().val == x.val * rhs.rinto_spec().val
{ unimplemented!() }
pub type ZonedDayNanoseconds = ri64;
pub open spec fn ZonedDayNanoseconds_MIN() -> int { 1000000000 }
pub open spec fn ZonedDayNanoseconds_MAX() -> int { 604800000000000 }
pub open spec fn in_ZonedDayNanoseconds(v: int) -> bool { 1000000000 <= v <= 604800000000000 }
#[verifier::external_body]
pub fn verif_try_rfrom_ZonedDayNanoseconds_8(r: ri8) -> (res: Result<ri64, Error>)
    ensures res.is_ok() <==> in_ZonedDayNanoseconds(r.val as int), res.is_ok() ==> res.unwrap().val == r.val
{ unimplemented!() }
#[verifier::external_body]
pub fn verif_try_rfrom_ZonedDayNanoseconds_16(r: ri16) -> (res: Result<ri64, Error>)
    ensures res.is_ok() <==> in_ZonedDayNanoseconds(r.val as int), res.is_ok() ==> res.unwrap().val == r.val
{ unimplemented!() }
#[verifier::external_body]
pub fn verif_try_rfrom_ZonedDayNanoseconds_32(r: ri32) -> (res: Result<ri64, Error>)
    ensures res.is_ok() <==> in_ZonedDayNanoseconds(r.val as int), res.is_ok() ==> res.unwrap().val == r.val
{ unimplemented!() }
#[verifier::external_body]
pub fn verif_try_rfrom_ZonedDayNanoseconds_64(r: ri64) -> (res: Result<ri64, Error>)
    ensures res.is_ok() <==> in_ZonedDayNanoseconds(r.val as int), res.is_ok() ==> res.unwrap().val == r.val
{ unimplemented!() }
#[verifier::external_body]
pub fn verif_try_rfrom_ZonedDayNanoseconds_128(r: ri128) -> (res: Result<ri64, Error>)
    ensures res.is_ok() <==> in_ZonedDayNanoseconds(r.val as int), res.is_ok() ==> res.unwrap().val == r.val
{ unimplemented!() }
#[verifier::external_body]
pub fn verif_try_new_ZonedDayNanoseconds(v: i64) -> (res: Result<ri64, Error>)
    ensures res.is_ok() <==> in_ZonedDayNanoseconds(v as int), res.is_ok() ==> res.unwrap().val == v
{ unimplemented!() }
#[verifier::external_body]
pub fn verif_try_new128_ZonedDayNanoseconds(v: i128) -> (res: Result<ri64, Error>)
    ensures res.is_ok() <==> in_ZonedDayNanoseconds(v as int), res.is_ok() ==> res.unwrap().val == v
{ unimplemented!() }
// `ZonedDayNanoseconds::MIN` / `ZonedDayNanoseconds::MAX` (associated consts of type i128)
pub fn verif_MIN_ZonedDayNanoseconds() -> (r: i128) ensures r == ZonedDayNanoseconds_MIN() { 1000000000 }
pub fn verif_MAX_ZonedDayNanoseconds() -> (r: i128) ensures r == ZonedDayNanoseconds_MAX() { 604800000000000 }
// `x.try_checked_mul("what", rhs)` with x: ZonedDayNanoseconds -- Ok iff the exact product lies within ZonedDayNanoseconds::MIN..=MAX
#[verifier::external_body]
pub fn verif_try_checked_mul_ZonedDayNanoseconds<R: RInto<ri64>>(x: ri64, rhs: R) -> (res: Result<ri64, Error>)
    requires rhs.rinto_req(),
    ensures res.is_ok() <==> in_ZonedDayNanoseconds(x.val * rhs.rinto_spec().val), res.is_ok() ==> res.unwrap().val == x.val * rhs.rinto_spec().val
{ unimplemented!() }
// `x.try_checked_add/sub("what", rhs)` and `x.checked_add/sub/mul(rhs)` with x: ZonedDayNanoseconds -- fail iff the exact result leaves ZonedDayNanoseconds::MIN..=MAX
#[verifier::external_body]
pub fn verif_try_checked_add_ZonedDayNanoseconds<R: RInto<ri64>>(x: ri64, rhs: R) -> (res: Result<ri64, Error>)
    requires rhs.rinto_req(),
    ensures res.is_ok() <==> in_ZonedDayNanoseconds(x.val + rhs.rinto_spec().val), res.is_ok() ==> res.unwrap().val == x.val + rhs.rinto_spec().val
{ unimplemented!() }
#[verifier::external_body]
pub fn verif_try_checked_sub_ZonedDayNanoseconds<R: RInto<ri64>>(x: ri64, rhs: R) -> (res: Result<ri64, Error>)
    requires rhs.rinto_req(),
    ensures res.is_ok() <==> in_ZonedDayNanoseconds(x.val - rhs.rinto_spec().val), res.is_ok() ==> res.unwrap().val == x.val - rhs.rinto_spec().val
{ unimplemented!() }
#[verifier::external_body]
pub fn verif_checked_add_ZonedDayNanoseconds<R: RInto<ri64>>(x: ri64, rhs: R) -> (res: Option<ri64>)
    requires rhs.rinto_req(),
    ensures res.is_some() <==> in_ZonedDayNanoseconds(x.val + rhs.rinto_spec().val), res.is_some() ==> res.unwrap().val == x.val + rhs.rinto_spec().val
{ unimplemented!() }
#[verifier::external_body]
pub fn verif_checked_sub_ZonedDayNanoseconds<R: RInto<ri64>>(x: ri64, rhs: R) -> (res: Option<ri64>)
    requires rhs.rinto_req(),
    ensures res.is_some() <==> in_ZonedDayNanoseconds(x.val - rhs.rinto_spec().val), res.is_some() ==> res.unwrap().val == x.val - rhs.rinto_spec().val
{ unimplemented!() }
#[verifier::external_body]
pub fn verif_checked_mul_ZonedDayNanoseconds<R: RInto<ri64>>(x: ri64, rhs: R) -> (res: Option<ri64>)
    requires rhs.rinto_req(),
    ensures res.is_some() <==> in_ZonedDayNanoseconds(x.val * rhs.rinto_spec().val), res.is_some() ==> res.unwrap().val == x.val * rhs.rinto_spec().val
{ unimplemented!() }
#[allow(non_camel_case_types)]
pub trait TryRInto_SpanYears: Sized {
    spec fn try_rinto_val(self) -> int;
    fn try_rinto(self, what: &'static str) -> (res: Result<ri16, Error>)
        ensures res.is_ok() <==> in_SpanYears(self.try_rinto_val()), res.is_ok() ==> res.unwrap().val == self.try_rinto_val();
}
impl TryRInto_SpanYears for ri8 {
    open spec fn try_rinto_val(self) -> int { self.val as int }
    fn try_rinto(self, what: &'static str) -> (res: Result<ri16, Error>) { verif_try_rfrom_SpanYears_8(self) }
}
impl TryRInto_SpanYears for ri16 {
    open spec fn try_rinto_val(self) -> int { self.val as int }
    fn try_rinto(self, what: &'static str) -> (res: Result<ri16, Error>) { verif_try_rfrom_SpanYears_16(self) }
}
impl TryRInto_SpanYears for ri32 {
    open spec fn try_rinto_val(self) -> int { self.val as int }
    fn try_rinto(self, what: &'static str) -> (res: Result<ri16, Error>) { verif_try_rfrom_SpanYears_32(self) }
}
impl TryRInto_SpanYears for ri64 {
    open spec fn try_rinto_val(self) -> int { self.val as int }
    fn try_rinto(self, what: &'static str) -> (res: Result<ri16, Error>) { verif_try_rfrom_SpanYears_64(self) }
}
impl TryRInto_SpanYears for ri128 {
    open spec fn try_rinto_val(self) -> int { self.val as int }
    fn try_rinto(self, what: &'static str) -> (res: Result<ri16, Error>) { verif_try_rfrom_SpanYears_128(self) }
}
#[allow(non_camel_case_types)]
pub trait TryRInto_SpanMonths: Sized {
    spec fn try_rinto_val(self) -> int;
    fn try_rinto(self, what: &'static str) -> (res: Result<ri32, Error>)
        ensures res.is_ok() <==> in_SpanMonths(self.try_rinto_val()), res.is_ok() ==> res.unwrap().val == self.try_rinto_val();
}
impl TryRInto_SpanMonths for ri8 {
    open spec fn try_rinto_val(self) -> int { self.val as int }
    fn try_rinto(self, what: &'static str) -> (res: Result<ri32, Error>) { verif_try_rfrom_SpanMonths_8(self) }
}
impl TryRInto_SpanMonths for ri16 {
    open spec fn try_rinto_val(self) -> int { self.val as int }
    fn try_rinto(self, what: &'static str) -> (res: Result<ri32, Error>) { verif_try_rfrom_SpanMonths_16(self) }
}
impl TryRInto_SpanMonths for ri32 {
    open spec fn try_rinto_val(self) -> int { self.val as int }
    fn try_rinto(self, what: &'static str) -> (res: Result<ri32, Error>) { verif_try_rfrom_SpanMonths_32(self) }
}
impl TryRInto_SpanMonths for ri64 {
    open spec fn try_rinto_val(self) -> int { self.val as int }
    fn try_rinto(self, what: &'static str) -> (res: Result<ri32, Error>) { verif_try_rfrom_SpanMonths_64(self) }
}
impl TryRInto_SpanMonths for ri128 {
    open spec fn try_rinto_val(self) -> int { self.val as int }
    fn try_rinto(self, what: &'static str) -> (res: Result<ri32, Error>) { verif_try_rfrom_SpanMonths_128(self) }
}
#[allow(non_camel_case_types)]
pub trait TryRInto_SpanWeeks: Sized {
    spec fn try_rinto_val(self) -> int;
    fn try_rinto(self, what: &'static str) -> (res: Result<ri32, Error>)
        ensures res.is_ok() <==> in_SpanWeeks(self.try_rinto_val()), res.is_ok() ==> res.unwrap().val == self.try_rinto_val();
}
impl TryRInto_SpanWeeks for ri8 {
    open spec fn try_rinto_val(self) -> int { self.val as int }
    fn try_rinto(self, what: &'static str) -> (res: Result<ri32, Error>) { verif_try_rfrom_SpanWeeks_8(self) }
}
impl TryRInto_SpanWeeks for ri16 {
    open spec fn try_rinto_val(self) -> int { self.val as int }
    fn try_rinto(self, what: &'static str) -> (res: Result<ri32, Error>) { verif_try_rfrom_SpanWeeks_16(self) }
}
impl TryRInto_SpanWeeks for ri32 {
    open spec fn try_rinto_val(self) -> int { self.val as int }
    fn try_rinto(self, what: &'static str) -> (res: Result<ri32, Error>) { verif_try_rfrom_SpanWeeks_32(self) }
}
impl TryRInto_SpanWeeks for ri64 {
    open spec fn try_rinto_val(self) -> int { self.val as int }
    fn try_rinto(self, what: &'static str) -> (res: Result<ri32, Error>) { verif_try_rfrom_SpanWeeks_64(self) }
}
impl TryRInto_SpanWeeks for ri128 {
    open spec fn try_rinto_val(self) -> int { self.val as int }
    fn try_rinto(self, what: &'static str) -> (res: Result<ri32, Error>) { verif_try_rfrom_SpanWeeks_128(self) }
}
#[allow(non_camel_case_types)]
pub trait TryRInto_SpanDays: Sized {
    spec fn try_rinto_val(self) -> int;
    fn try_rinto(self, what: &'static str) -> (res: Result<ri32, Error>)
        ensures res.is_ok() <==> in_SpanDays(self.try_rinto_val()), res.is_ok() ==> res.unwrap().val == self.try_rinto_val();
}
impl TryRInto_SpanDays for ri8 {
    open spec fn try_rinto_val(self) -> int { self.val as int }
    fn try_rinto(self, what: &'static str) -> (res: Result<ri32, Error>) { verif_try_rfrom_SpanDays_8(self) }
}
impl TryRInto_SpanDays for ri16 {
    open spec fn try_rinto_val(self) -> int { self.val as int }
    fn try_rinto(self, what: &'static str) -> (res: Result<ri32, Error>) { verif_try_rfrom_SpanDays_16(self) }
}
impl TryRInto_SpanDays for ri32 {
    open spec fn try_rinto_val(self) -> int { self.val as int }
    fn try_rinto(self, what: &'static str) -> (res: Result<ri32, Error>) { verif_try_rfrom_SpanDays_32(self) }
}
impl TryRInto_SpanDays for ri64 {
    open spec fn try_rinto_val(self) -> int { self.val as int }
    fn try_rinto(self, what: &'static str) -> (res: Result<ri32, Error>) { verif_try_rfrom_SpanDays_64(self) }
}
impl TryRInto_SpanDays for ri128 {
    open spec fn try_rinto_val(self) -> int { self.val as int }
    fn try_rinto(self, what: &'static str) -> (res: Result<ri32, Error>) { verif_try_rfrom_SpanDays_128(self) }
}
#[allow(non_camel_case_types)]
pub trait TryRInto_SpanHours: Sized {
    spec fn try_rinto_val(self) -> int;
    fn try_rinto(self, what: &'static str) -> (res: Result<ri32, Error>)
        ensures res.is_ok() <==> in_SpanHours(self.try_rinto_val()), res.is_ok() ==> res.unwrap().val == self.try_rinto_val();
}
impl TryRInto_SpanHours for ri8 {
    open spec fn try_rinto_val(self) -> int { self.val as int }
    fn try_rinto(self, what: &'static str) -> (res: Result<ri32, Error>) { verif_try_rfrom_SpanHours_8(self) }
}
impl TryRInto_SpanHours for ri16 {
    open spec fn try_rinto_val(self) -> int { self.val as int }
    fn try_rinto(self, what: &'static str) -> (res: Result<ri32, Error>) { verif_try_rfrom_SpanHours_16(self) }
}
impl TryRInto_SpanHours for ri32 {
    open spec fn try_rinto_val(self) -> int { self.val as int }
    fn try_rinto(self, what: &'static str) -> (res: Result<ri32, Error>) { verif_try_rfrom_SpanHours_32(self) }
}
impl TryRInto_SpanHours for ri64 {
    open spec fn try_rinto_val(self) -> int { self.val as int }
    fn try_rinto(self, what: &'static str) -> (res: Result<ri32, Error>) { verif_try_rfrom_SpanHours_64(self) }
}
impl TryRInto_SpanHours for ri128 {
    open spec fn try_rinto_val(self) -> int { self.val as int }
    fn try_rinto(self, what: &'static str) -> (res: Result<ri32, Error>) { verif_try_rfrom_SpanHours_128(self) }
}
#[allow(non_camel_case_types)]
pub trait TryRInto_SpanMinutes: Sized {
    spec fn try_rinto_val(self) -> int;
    fn try_rinto(self, what: &'static str) -> (res: Result<ri64, Error>)
        ensures res.is_ok() <==> in_SpanMinutes(self.try_rinto_val()), res.is_ok() ==> res.unwrap().val == self.try_rinto_val();
}
impl TryRInto_SpanMinutes for ri8 {
    open spec fn try_rinto_val(self) -> int { self.val as int }
    fn try_rinto(self, what: &'static str) -> (res: Result<ri64, Error>) { verif_try_rfrom_SpanMinutes_8(self) }
}
impl TryRInto_SpanMinutes for ri16 {
    open spec fn try_rinto_val(self) -> int { self.val as int }
    fn try_rinto(self, what: &'static str) -> (res: Result<ri64, Error>) { verif_try_rfrom_SpanMinutes_16(self) }
}
impl TryRInto_SpanMinutes for ri32 {
    open spec fn try_rinto_val(self) -> int { self.val as int }
    fn try_rinto(self, what: &'static str) -> (res: Result<ri64, Error>) { verif_try_rfrom_SpanMinutes_32(self) }
}
impl TryRInto_SpanMinutes for ri64 {
    open spec fn try_rinto_val(self) -> int { self.val as int }
    fn try_rinto(self, what: &'static str) -> (res: Result<ri64, Error>) { verif_try_rfrom_SpanMinutes_64(self) }
}
impl TryRInto_SpanMinutes for ri128 {
    open spec fn try_rinto_val(self) -> int { self.val as int }
    fn try_rinto(self, what: &'static str) -> (res: Result<ri64, Error>) { verif_try_rfrom_SpanMinutes_128(self) }
}
#[allow(non_camel_case_types)]
pub trait TryRInto_SpanSeconds: Sized {
    spec fn try_rinto_val(self) -> int;
    fn try_rinto(self, what: &'static str) -> (res: Result<ri64, Error>)
        ensures res.is_ok() <==> in_SpanSeconds(self.try_rinto_val()), res.is_ok() ==> res.unwrap().val == self.try_rinto_val();
}
impl TryRInto_SpanSeconds for ri8 {
    open spec fn try_rinto_val(self) -> int { self.val as int }
    fn try_rinto(self, what: &'static str) -> (res: Result<ri64, Error>) { verif_try_rfrom_SpanSeconds_8(self) }
}
impl TryRInto_SpanSeconds for ri16 {
    open spec fn try_rinto_val(self) -> int { self.val as int }
    fn try_rinto(self, what: &'static str) -> (res: Result<ri64, Error>) { verif_try_rfrom_SpanSeconds_16(self) }
}
impl TryRInto_SpanSeconds for ri32 {
    open spec fn try_rinto_val(self) -> int { self.val as int }
    fn try_rinto(self, what: &'static str) -> (res: Result<ri64, Error>) { verif_try_rfrom_SpanSeconds_32(self) }
}
impl TryRInto_SpanSeconds for ri64 {
    open spec fn try_rinto_val(self) -> int { self.val as int }
    fn try_rinto(self, what: &'static str) -> (res: Result<ri64, Error>) { verif_try_rfrom_SpanSeconds_64(self) }
}
impl TryRInto_SpanSeconds for ri128 {
    open spec fn try_rinto_val(self) -> int { self.val as int }
    fn try_rinto(self, what: &'static str) -> (res: Result<ri64, Error>) { verif_try_rfrom_SpanSeconds_128(self) }
}
#[allow(non_camel_case_types)]
pub trait TryRInto_SpanMilliseconds: Sized {
    spec fn try_rinto_val(self) -> int;
    fn try_rinto(self, what: &'static str) -> (res: Result<ri64, Error>)
        ensures res.is_ok() <==> in_SpanMilliseconds(self.try_rinto_val()), res.is_ok() ==> res.unwrap().val == self.try_rinto_val();
}
impl TryRInto_SpanMilliseconds for ri8 {
    open spec fn try_rinto_val(self) -> int { self.val as int }
    fn try_rinto(self, what: &'static str) -> (res: Result<ri64, Error>) { verif_try_rfrom_SpanMilliseconds_8(self) }
}
impl TryRInto_SpanMilliseconds for ri16 {
    open spec fn try_rinto_val(self) -> int { self.val as int }
    fn try_rinto(self, what: &'static str) -> (res: Result<ri64, Error>) { verif_try_rfrom_SpanMilliseconds_16(self) }
}
impl TryRInto_SpanMilliseconds for ri32 {
    open spec fn try_rinto_val(self) -> int { self.val as int }
    fn try_rinto(self, what: &'static str) -> (res: Result<ri64, Error>) { verif_try_rfrom_SpanMilliseconds_32(self) }
}
impl TryRInto_SpanMilliseconds for ri64 {
    open spec fn try_rinto_val(self) -> int { self.val as int }
    fn try_rinto(self, what: &'static str) -> (res: Result<ri64, Error>) { verif_try_rfrom_SpanMilliseconds_64(self) }
}
impl TryRInto_SpanMilliseconds for ri128 {
    open spec fn try_rinto_val(self) -> int { self.val as int }
    fn try_rinto(self, what: &'static str) -> (res: Result<ri64, Error>) { verif_try_rfrom_SpanMilliseconds_128(self) }
}
#[allow(non_camel_case_types)]
pub trait TryRInto_SpanMicroseconds: Sized {
    spec fn try_rinto_val(self) -> int;
    fn try_rinto(self, what: &'static str) -> (res: Result<ri64, Error>)
        ensures res.is_ok() <==> in_SpanMicroseconds(self.try_rinto_val()), res.is_ok() ==> res.unwrap().val == self.try_rinto_val();
}
impl TryRInto_SpanMicroseconds for ri8 {
    open spec fn try_rinto_val(self) -> int { self.val as int }
    fn try_rinto(self, what: &'static str) -> (res: Result<ri64, Error>) { verif_try_rfrom_SpanMicroseconds_8(self) }
}
impl TryRInto_SpanMicroseconds for ri16 {
    open spec fn try_rinto_val(self) -> int { self.val as int }
    fn try_rinto(self, what: &'static str) -> (res: Result<ri64, Error>) { verif_try_rfrom_SpanMicroseconds_16(self) }
}
impl TryRInto_SpanMicroseconds for ri32 {
    open spec fn try_rinto_val(self) -> int { self.val as int }
    fn try_rinto(self, what: &'static str) -> (res: Result<ri64, Error>) { verif_try_rfrom_SpanMicroseconds_32(self) }
}
impl TryRInto_SpanMicroseconds for ri64 {
    open spec fn try_rinto_val(self) -> int { self.val as int }
    fn try_rinto(self, what: &'static str) -> (res: Result<ri64, Error>) { verif_try_rfrom_SpanMicroseconds_64(self) }
}
impl TryRInto_SpanMicroseconds for ri128 {
    open spec fn try_rinto_val(self) -> int { self.val as int }
    fn try_rinto(self, what: &'static str) -> (res: Result<ri64, Error>) { verif_try_rfrom_SpanMicroseconds_128(self) }
}
#[allow(non_camel_case_types)]
pub trait TryRInto_SpanNanoseconds: Sized {
    spec fn try_rinto_val(self) -> int;
    fn try_rinto(self, what: &'static str) -> (res: Result<ri64, Error>)
        ensures res.is_ok() <==> in_SpanNanoseconds(self.try_rinto_val()), res.is_ok() ==> res.unwrap().val == self.try_rinto_val();
}
impl TryRInto_SpanNanoseconds for ri8 {
    open spec fn try_rinto_val(self) -> int { self.val as int }
    fn try_rinto(self, what: &'static str) -> (res: Result<ri64, Error>) { verif_try_rfrom_SpanNanoseconds_8(self) }
}
impl TryRInto_SpanNanoseconds for ri16 {
    open spec fn try_rinto_val(self) -> int { self.val as int }
    fn try_rinto(self, what: &'static str) -> (res: Result<ri64, Error>) { verif_try_rfrom_SpanNanoseconds_16(self) }
}
impl TryRInto_SpanNanoseconds for ri32 {
    open spec fn try_rinto_val(self) -> int { self.val as int }
    fn try_rinto(self, what: &'static str) -> (res: Result<ri64, Error>) { verif_try_rfrom_SpanNanoseconds_32(self) }
}
impl TryRInto_SpanNanoseconds for ri64 {
    open spec fn try_rinto_val(self) -> int { self.val as int }
    fn try_rinto(self, what: &'static str) -> (res: Result<ri64, Error>) { verif_try_rfrom_SpanNanoseconds_64(self) }
}
impl TryRInto_SpanNanoseconds for ri128 {
    open spec fn try_rinto_val(self) -> int { self.val as int }
    fn try_rinto(self, what: &'static str) -> (res: Result<ri64, Error>) { verif_try_rfrom_SpanNanoseconds_128(self) }
}
#[allow(non_camel_case_types)]
pub trait TryRInto_SpanZoneOffset: Sized {
    spec fn try_rinto_val(self) -> int;
    fn try_rinto(self, what: &'static str) -> (res: Result<ri32, Error>)
        ensures res.is_ok() <==> in_SpanZoneOffset(self.try_rinto_val()), res.is_ok() ==> res.unwrap().val == self.try_rinto_val();
}
impl TryRInto_SpanZoneOffset for ri8 {
    open spec fn try_rinto_val(self) -> int { self.val as int }
    fn try_rinto(self, what: &'static str) -> (res: Result<ri32, Error>) { verif_try_rfrom_SpanZoneOffset_8(self) }
}
impl TryRInto_SpanZoneOffset for ri16 {
    open spec fn try_rinto_val(self) -> int { self.val as int }
    fn try_rinto(self, what: &'static str) -> (res: Result<ri32, Error>) { verif_try_rfrom_SpanZoneOffset_16(self) }
}
impl TryRInto_SpanZoneOffset for ri32 {
    open spec fn try_rinto_val(self) -> int { self.val as int }
    fn try_rinto(self, what: &'static str) -> (res: Result<ri32, Error>) { verif_try_rfrom_SpanZoneOffset_32(self) }
}
impl TryRInto_SpanZoneOffset for ri64 {
    open spec fn try_rinto_val(self) -> int { self.val as int }
    fn try_rinto(self, what: &'static str) -> (res: Result<ri32, Error>) { verif_try_rfrom_SpanZoneOffset_64(self) }
}
impl TryRInto_SpanZoneOffset for ri128 {
    open spec fn try_rinto_val(self) -> int { self.val as int }
    fn try_rinto(self, what: &'static str) -> (res: Result<ri32, Error>) { verif_try_rfrom_SpanZoneOffset_128(self) }
}

// ---- include lib/rangeint_ext_isoweek.vrs ----
// Hand-written extension of the rangeint model (lib/rangeint.vrs) for unit `isoweek`.
// Same style as the generated file: `#[verifier::external_body]` + exact `ensures` (release-mode meaning of src/util/rangeint.rs);
// every external_body spec is an obligation for Kani on the real operation.  Functions WITH a body are verified here (nothing new is trusted).

// ---- (I1) aliases of src/util/t.rs missing from gen_rangeint.py's ALIASES:
//           ISOYear = ri16<-9999, 9999> (t.rs:151), ISOWeek = ri8<1, 53> (t.rs:153), WeekdayZero = ri8<0, 6> (t.rs:137), WeekdayOne = ri8<1, 7> (t.rs:140)
pub type ISOYear = ri16;
pub open spec fn ISOYear_MIN() -> int { -9999 }
pub open spec fn ISOYear_MAX() -> int { 9999 }
pub open spec fn in_ISOYear(v: int) -> bool { -9999 <= v <= 9999 }
pub type ISOWeek = ri8;
pub open spec fn ISOWeek_MIN() -> int { 1 }
pub open spec fn ISOWeek_MAX() -> int { 53 }
pub open spec fn in_ISOWeek(v: int) -> bool { 1 <= v <= 53 }
pub type WeekdayZero = ri8;
pub open spec fn in_WeekdayZero(v: int) -> bool { 0 <= v <= 6 }
pub type WeekdayOne = ri8;
pub open spec fn in_WeekdayOne(v: int) -> bool { 1 <= v <= 7 }

// ---- (I2) `ISOYear::try_new("what", v)` / `ISOWeek::try_new("what", v)`: Ok iff v lies within the alias's MIN..=MAX (same shape as the generated verif_try_new_<Alias>)
#[verifier::external_body]
pub fn verif_try_new_ISOYear(v: i64) -> (res: Result<ri16, Error>)
    ensures res.is_ok() <==> in_ISOYear(v as int), res.is_ok() ==> res.unwrap().val == v
{ unimplemented!() }
#[verifier::external_body]
pub fn verif_try_new_ISOWeek(v: i64) -> (res: Result<ri8, Error>)
    ensures res.is_ok() <==> in_ISOWeek(v as int), res.is_ok() ==> res.unwrap().val == v
{ unimplemented!() }

// ---- (I3) `ISOYear::MIN` / `ISOYear::MAX` (associated consts of type i128; same shape as the generated verif_MIN_<Alias>) and
//           `ISOYear::MAX_SELF` (src/util/rangeint.rs:104: `Self::new_unchecked(Self::MAX_REPR)`)
pub fn verif_MIN_ISOYear() -> (r: i128) ensures r == ISOYear_MIN() { -9999 }
pub fn verif_MAX_ISOYear() -> (r: i128) ensures r == ISOYear_MAX() { 9999 }
#[allow(non_snake_case)]
pub fn verif_MAX_SELF_ISOYear() -> (r: ri16) ensures r.val == ISOYear_MAX() { ri16 { val: 9999 } }

// ---- include lib/greg.vrs ----
// Proleptic Gregorian calendar, defined from first principles (property C01).
// Nothing in this file comes from jiff's code.
pub open spec fn is_leap(y: int) -> bool { y % 4 == 0 && (y % 100 != 0 || y % 400 == 0) }
pub open spec fn dim(y: int, m: int) -> int {
    if m == 2 { if is_leap(y) { 29 } else { 28 } }
    else if m == 4 || m == 6 || m == 9 || m == 11 { 30 } else { 31 }
}
pub open spec fn diy(y: int) -> int { if is_leap(y) { 366 } else { 365 } }
pub open spec fn valid_ymd(y: int, m: int, d: int) -> bool {
    1 <= m <= 12 && 1 <= d <= dim(y, m)
}
pub open spec fn in_range_ymd(y: int, m: int, d: int) -> bool {
    -9999 <= y <= 9999 && valid_ymd(y, m, d)
}
// successor of a date, component-wise
pub open spec fn next_y(y: int, m: int, d: int) -> int { if d == dim(y, m) && m == 12 { y + 1 } else { y } }
pub open spec fn next_m(y: int, m: int, d: int) -> int { if d == dim(y, m) { if m == 12 { 1 } else { m + 1 } } else { m } }
pub open spec fn next_d(y: int, m: int, d: int) -> int { if d == dim(y, m) { 1 } else { d + 1 } }
pub open spec fn prev_y(y: int, m: int, d: int) -> int { if d == 1 && m == 1 { y - 1 } else { y } }
pub open spec fn prev_m(y: int, m: int, d: int) -> int { if d == 1 { if m == 1 { 12 } else { m - 1 } } else { m } }
pub open spec fn prev_d(y: int, m: int, d: int) -> int { if d == 1 { dim(prev_y(y, m, d), prev_m(y, m, d)) } else { d - 1 } }

// Closed form of "days since 1970-01-01".  lemma_rd_epoch + lemma_rd_succ show it is THE
// Gregorian day count (the unique function that is 0 at the epoch and +1 on successor).
pub open spec fn rd(y: int, m: int, d: int) -> int {
    let yy = if m <= 2 { y - 1 } else { y };
    let mm = if m <= 2 { m + 12 } else { m };
    365 * yy + yy / 4 - yy / 100 + yy / 400 + (153 * (mm - 3) + 2) / 5 + d - 1 - 719468
}
#[verifier::spinoff_prover]
pub proof fn lemma_rd_epoch()
    ensures rd(1970, 1, 1) == 0, rd(-9999, 1, 1) == -4371587, rd(9999, 12, 31) == 2932896,
{}
/// (153(mm-3)+2)/5 for the shifted month number mm = 3..14 (March..February)
pub open spec fn moff(mm: int) -> int {
    if mm == 3 { 0 } else if mm == 4 { 31 } else if mm == 5 { 61 } else if mm == 6 { 92 } else if mm == 7 { 122 } else if mm == 8 { 153 }
    else if mm == 9 { 184 } else if mm == 10 { 214 } else if mm == 11 { 245 } else if mm == 12 { 275 } else if mm == 13 { 306 } else { 337 }
}
#[verifier::spinoff_prover]
pub proof fn lemma_moff(mm: int)
    requires 3 <= mm <= 14,
    ensures (153 * (mm - 3) + 2) / 5 == moff(mm),
{
    if mm == 3 {} else if mm == 4 {} else if mm == 5 {} else if mm == 6 {} else if mm == 7 {} else if mm == 8 {}
    else if mm == 9 {} else if mm == 10 {} else if mm == 11 {} else if mm == 12 {} else if mm == 13 {} else {}
}
/// stepping from y-1 to y changes floor(y/k) by one exactly when k divides y
#[verifier::spinoff_prover]
pub proof fn lemma_div_step(y: int, k: int)
    requires k > 1,
    ensures y / k - (y - 1) / k == (if y % k == 0 { 1int } else { 0int }),
{
    let q = y / k; let r = y % k;
    vstd::arithmetic::div_mod::lemma_fundamental_div_mod(y, k);
    vstd::arithmetic::div_mod::lemma_mod_bound(y, k);
    assert(y == k * q + r && 0 <= r < k);
    if r == 0 {
        assert(y - 1 == (q - 1) * k + (k - 1)) by (nonlinear_arith) requires y == k * q + r, r == 0;
        vstd::arithmetic::div_mod::lemma_fundamental_div_mod_converse(y - 1, k, q - 1, k - 1);
    } else {
        assert(y - 1 == q * k + (r - 1)) by (nonlinear_arith) requires y == k * q + r;
        vstd::arithmetic::div_mod::lemma_fundamental_div_mod_converse(y - 1, k, q, r - 1);
    }
}
#[verifier::spinoff_prover]
pub proof fn lemma_divides_chain(y: int, a: int, b: int)
    requires a > 0, b > 0, y % (a * b) == 0,
    ensures y % a == 0,
{
    let q = y / (a * b);
    assert(a * b > 0) by (nonlinear_arith) requires a > 0, b > 0;
    vstd::arithmetic::div_mod::lemma_fundamental_div_mod(y, a * b);
    assert(y == (q * b) * a + 0) by (nonlinear_arith) requires y == (a * b) * q + y % (a * b), y % (a * b) == 0;
    vstd::arithmetic::div_mod::lemma_fundamental_div_mod_converse(y, a, q * b, 0);
}
/// how the three leap-year quotients change from y-1 to y
#[verifier::spinoff_prover]
pub proof fn lemma_leap_step(y: int)
    ensures y / 4 - (y - 1) / 4 == (if y % 4 == 0 { 1int } else { 0int }),
            y / 100 - (y - 1) / 100 == (if y % 100 == 0 { 1int } else { 0int }),
            y / 400 - (y - 1) / 400 == (if y % 400 == 0 { 1int } else { 0int }),
            y % 400 == 0 ==> y % 100 == 0, y % 100 == 0 ==> y % 4 == 0,
{
    lemma_div_step(y, 4); lemma_div_step(y, 100); lemma_div_step(y, 400);
    if y % 400 == 0 { lemma_divides_chain(y, 100, 4); }
    if y % 100 == 0 { lemma_divides_chain(y, 4, 25); }
}
/// rd with the month term replaced by the table
pub open spec fn rd_lin(y: int, m: int, d: int) -> int {
    let yy = if m <= 2 { y - 1 } else { y };
    let mm = if m <= 2 { m + 12 } else { m };
    365 * yy + yy / 4 - yy / 100 + yy / 400 + moff(mm) + d - 1 - 719468
}
#[verifier::spinoff_prover]
pub proof fn lemma_rd_lin(y: int, m: int, d: int)
    requires 1 <= m <= 12,
    ensures rd(y, m, d) == rd_lin(y, m, d),
{
    lemma_moff(if m <= 2 { m + 12 } else { m });
}
#[verifier::spinoff_prover]
pub proof fn lemma_rd_succ(y: int, m: int, d: int)
    requires valid_ymd(y, m, d),
    ensures valid_ymd(next_y(y, m, d), next_m(y, m, d), next_d(y, m, d)),
            rd(next_y(y, m, d), next_m(y, m, d), next_d(y, m, d)) == rd(y, m, d) + 1,
{
    lemma_rd_lin(y, m, d);
    lemma_rd_lin(next_y(y, m, d), next_m(y, m, d), next_d(y, m, d));
    lemma_leap_step(y);
}
#[verifier::spinoff_prover]
pub proof fn lemma_rd_pred(y: int, m: int, d: int)
    requires valid_ymd(y, m, d),
    ensures valid_ymd(prev_y(y, m, d), prev_m(y, m, d), prev_d(y, m, d)),
            rd(prev_y(y, m, d), prev_m(y, m, d), prev_d(y, m, d)) == rd(y, m, d) - 1,
{
    lemma_rd_lin(y, m, d);
    lemma_rd_lin(prev_y(y, m, d), prev_m(y, m, d), prev_d(y, m, d));
    lemma_leap_step(y);
}
// day-of-year (1-based) and its relation to rd
pub open spec fn days_before_month(y: int, m: int) -> int
    decreases m
{
    if m <= 1 { 0 } else { days_before_month(y, m - 1) + dim(y, m - 1) }
}
pub open spec fn doy(y: int, m: int, d: int) -> int { days_before_month(y, m) + d }
pub open spec fn dbm_tab(y: int, m: int) -> int {
    let l = if is_leap(y) { 1int } else { 0int };
    if m == 1 { 0 } else if m == 2 { 31 } else if m == 3 { 59 + l } else if m == 4 { 90 + l } else if m == 5 { 120 + l } else if m == 6 { 151 + l }
    else if m == 7 { 181 + l } else if m == 8 { 212 + l } else if m == 9 { 243 + l } else if m == 10 { 273 + l } else if m == 11 { 304 + l } else { 334 + l }
}
#[verifier::spinoff_prover]
pub proof fn lemma_dbm(y: int, m: int)
    requires 1 <= m <= 12,
    ensures days_before_month(y, m) == dbm_tab(y, m),
    decreases m
{
    if m > 1 { lemma_dbm(y, m - 1); }
}
#[verifier::spinoff_prover]
pub proof fn lemma_doy_rd(y: int, m: int, d: int)
    requires 1 <= m <= 12,
    ensures rd(y, m, d) == rd(y, 1, 1) + doy(y, m, d) - 1,
{
    lemma_dbm(y, m);
    lemma_rd_lin(y, m, d);
    lemma_rd_lin(y, 1, 1);
    lemma_leap_step(y);
}
#[verifier::spinoff_prover]
pub proof fn lemma_rd_year(y: int)
    ensures rd(y + 1, 1, 1) == rd(y, 1, 1) + diy(y),
{
    lemma_rd_lin(y, 1, 1); lemma_rd_lin(y + 1, 1, 1);
    lemma_leap_step(y);
}
// rd is strictly monotone in (y,m,d) lexicographic order on valid dates => injective.
#[verifier::spinoff_prover]
pub proof fn lemma_rd_month_mono(y: int, m1: int, d1: int, m2: int, d2: int)
    requires valid_ymd(y, m1, d1), valid_ymd(y, m2, d2), m1 < m2,
    ensures rd(y, m1, d1) < rd(y, m2, d2),
{
    lemma_doy_rd(y, m1, d1); lemma_doy_rd(y, m2, d2);
    lemma_dbm(y, m1); lemma_dbm(y, m2);
}
#[verifier::spinoff_prover]
pub proof fn lemma_rd_year_mono(y1: int, y2: int)
    requires y1 <= y2,
    ensures rd(y2, 1, 1) - rd(y1, 1, 1) >= 365 * (y2 - y1),
    decreases y2 - y1
{
    if y1 < y2 { lemma_rd_year_mono(y1, y2 - 1); lemma_rd_year(y2 - 1); }
}
#[verifier::spinoff_prover]
pub proof fn lemma_rd_mono(y1: int, m1: int, d1: int, y2: int, m2: int, d2: int)
    requires valid_ymd(y1, m1, d1), valid_ymd(y2, m2, d2),
             y1 < y2 || (y1 == y2 && (m1 < m2 || (m1 == m2 && d1 < d2))),
    ensures rd(y1, m1, d1) < rd(y2, m2, d2),
{
    if y1 < y2 {
        lemma_doy_rd(y1, m1, d1); lemma_doy_rd(y2, m2, d2);
        lemma_rd_year_mono(y1 + 1, y2); lemma_rd_year(y1);
        lemma_dbm(y1, m1); lemma_dbm(y2, m2);
    } else if m1 < m2 {
        lemma_rd_month_mono(y1, m1, d1, m2, d2);
    }
}
#[verifier::spinoff_prover]
pub proof fn lemma_rd_inj(y1: int, m1: int, d1: int, y2: int, m2: int, d2: int)
    requires valid_ymd(y1, m1, d1), valid_ymd(y2, m2, d2), rd(y1, m1, d1) == rd(y2, m2, d2),
    ensures y1 == y2 && m1 == m2 && d1 == d2,
{
    if y1 < y2 || (y1 == y2 && (m1 < m2 || (m1 == m2 && d1 < d2))) { lemma_rd_mono(y1, m1, d1, y2, m2, d2); }
    else if y2 < y1 || (y1 == y2 && (m2 < m1 || (m1 == m2 && d2 < d1))) { lemma_rd_mono(y2, m2, d2, y1, m1, d1); }
}
// ISO weekday 1=Monday..7=Sunday of day number e; day 0 (1970-01-01) is a Thursday (4), cyclic successor.
pub open spec fn wd(e: int) -> int { (e + 3) % 7 + 1 }
#[verifier::spinoff_prover]
pub proof fn lemma_wd()
    ensures wd(0) == 4, forall|e: int| #[trigger] wd(e + 1) == (if wd(e) == 7 { 1int } else { wd(e) + 1 }),
{}

// ---- lemmas over plain integers used by the units (moved here from itime_views.vrs so that units without the itime structs can include them)
pub open spec fn nth_first_day(y: int, m: int, w: int) -> int { 1 + (w - wd(rd(y, m, 1))) % 7 }
pub open spec fn nth_last_day(y: int, m: int, w: int) -> int { dim(y, m) - (wd(rd(y, m, dim(y, m))) - w) % 7 }
/// x == 7*q + r with 0 <= r < 7 determines x % 7
#[verifier::spinoff_prover]
pub proof fn lemma_mod7(x: int, q: int, r: int)
    requires x == 7 * q + r, 0 <= r < 7,
    ensures x % 7 == r,
{
    assert(x == q * 7 + r);
    vstd::arithmetic::div_mod::lemma_fundamental_div_mod_converse(x, 7, q, r);
}
#[verifier::spinoff_prover]
pub proof fn lemma_wd_arith(e: int, w: int, k: int)
    requires 1 <= w <= 7,
    ensures wd(e + (w - wd(e)) % 7 + 7 * k) == w, wd(e - (wd(e) - w) % 7 - 7 * k) == w,
            0 <= (w - wd(e)) % 7 <= 6, 0 <= (wd(e) - w) % 7 <= 6,
{
    let a = (e + 3) % 7; let q = (e + 3) / 7;
    vstd::arithmetic::div_mod::lemma_fundamental_div_mod(e + 3, 7);
    vstd::arithmetic::div_mod::lemma_mod_bound(e + 3, 7);
    assert(e + 3 == 7 * q + a && 0 <= a < 7 && wd(e) == a + 1);
    // forward
    let x1 = w - wd(e); let t1 = x1 % 7; let p1 = x1 / 7;
    vstd::arithmetic::div_mod::lemma_fundamental_div_mod(x1, 7);
    vstd::arithmetic::div_mod::lemma_mod_bound(x1, 7);
    assert(x1 == 7 * p1 + t1 && 0 <= t1 < 7);
    lemma_mod7(e + t1 + 7 * k + 3, q + k - p1, w - 1);
    // backward
    let x2 = wd(e) - w; let t2 = x2 % 7; let p2 = x2 / 7;
    vstd::arithmetic::div_mod::lemma_fundamental_div_mod(x2, 7);
    vstd::arithmetic::div_mod::lemma_mod_bound(x2, 7);
    assert(x2 == 7 * p2 + t2 && 0 <= t2 < 7);
    lemma_mod7(e - t2 - 7 * k + 3, q - k + p2, w - 1);
}
#[verifier::spinoff_prover]
pub proof fn lemma_nth_day(y: int, m: int, w: int, k: int)
    requires 1 <= m <= 12, 1 <= w <= 7,
    ensures 1 <= nth_first_day(y, m, w) <= 7, wd(rd(y, m, nth_first_day(y, m, w) + 7 * k)) == w,
            0 <= dim(y, m) - nth_last_day(y, m, w) <= 6, wd(rd(y, m, nth_last_day(y, m, w) - 7 * k)) == w,
{
    let e1 = rd(y, m, 1);
    let e2 = rd(y, m, dim(y, m));
    lemma_wd_arith(e1, w, k);
    lemma_wd_arith(e2, w, k);
    assert(rd(y, m, nth_first_day(y, m, w) + 7 * k) == e1 + (w - wd(e1)) % 7 + 7 * k);
    assert(rd(y, m, nth_last_day(y, m, w) - 7 * k) == e2 - (wd(e2) - w) % 7 - 7 * k);
}
#[verifier::spinoff_prover]
pub proof fn lemma_rd_bounds(y: int, m: int, d: int)
    requires in_range_ymd(y, m, d),
    ensures -4371587 <= rd(y, m, d) <= 2932896,
            (rd(y, m, d) == -4371587 <==> (y == -9999 && m == 1 && d == 1)),
            (rd(y, m, d) == 2932896 <==> (y == 9999 && m == 12 && d == 31)),
{
    lemma_rd_epoch();
    if !(y == -9999 && m == 1 && d == 1) { lemma_rd_mono(-9999, 1, 1, y, m, d); }
    if !(y == 9999 && m == 12 && d == 31) { lemma_rd_mono(y, m, d, 9999, 12, 31); }
}
#[verifier::spinoff_prover]
pub proof fn lemma_year_of_rd(y: int, m: int, d: int)
    requires valid_ymd(y, m, d),
    ensures rd(y, 1, 1) <= rd(y, m, d) < rd(y + 1, 1, 1),
{
    lemma_doy_rd(y, m, d); lemma_rd_year(y);
    lemma_dbm(y, m);
}

#[verifier::rlimit(200)]
#[verifier::spinoff_prover]
pub proof fn lemma_mulshift(k: u64)
    requires k <= 36524,
    ensures ({ let n = 4 * k + 3; (2939745 * n) / 4294967296 == n / 1461 }),
            ({ let n = 4 * k + 3; ((2939745 * n) % 4294967296) / 2939745 / 4 == (n % 1461) / 4 }),
{
    assert(k <= 36524 ==> ({ let n = (4 * k + 3) as u64; (2939745 * n) / 4294967296 == n / 1461 })) by (bit_vector);
    assert(k <= 36524 ==> ({ let n = (4 * k + 3) as u64; ((2939745 * n) % 4294967296) / 2939745 / 4 == (n % 1461) / 4 })) by (bit_vector);
}
#[verifier::spinoff_prover]
pub proof fn lemma_month(ny: u32)
    requires ny < 366,
    ensures ({
        let n3 = 2141 * ny + 197913;
        let m = n3 / 65536;
        let d = (n3 % 65536) / 2141;
        3 <= m <= 14 && d <= 30 && ny as int == (153 * (m as int - 3) + 2) / 5 + d as int
        && (m == 14 ==> d <= 28) && ((m == 4 || m == 6 || m == 9 || m == 11) ==> d <= 29)
        && (ny >= 306 <==> m >= 13) && (m == 14 && d == 28 ==> ny == 365)
    }),
{
    assert(ny < 366 ==> ({
        let n3 = (2141 * ny + 197913) as u32;
        let m = n3 / 65536;
        let d = (n3 % 65536) / 2141;
        3 <= m && m <= 14 && d <= 30 && ny == (153 * (m - 3) + 2) / 5 + d
        && (m == 14 ==> d <= 28) && ((m == 4 || m == 6 || m == 9 || m == 11) ==> d <= 29)
        && (ny >= 306 <==> m >= 13) && (m == 14 && d == 28 ==> ny == 365)
    })) by (bit_vector);
}
// q = (4n+3)/P, r = ((4n+3)%P)/4 with P = 4p+1  ==> n == p*q + q/4 + r, and (r == p ==> q%4 == 3)
#[verifier::spinoff_prover]
pub proof fn lemma_cycle(n: int, p: int)
    requires n >= 0, p > 0,
    ensures ({
        let big = 4 * p + 1;
        let q = (4 * n + 3) / big;
        let r = ((4 * n + 3) % big) / 4;
        n == p * q + q / 4 + r && 0 <= r <= p && (r == p ==> q % 4 == 3)
    }),
{
    let big = 4 * p + 1;
    let n1 = 4 * n + 3;
    let q = n1 / big;
    let r1 = n1 % big;
    let r = r1 / 4;
    assert(n1 == big * q + r1) by { vstd::arithmetic::div_mod::lemma_fundamental_div_mod(n1, big); }
    assert(0 <= r1 < big) by { vstd::arithmetic::div_mod::lemma_mod_bound(n1, big); }
    let a = q / 4; let b = q % 4;
    let t = r1 % 4;
    assert(q == 4 * a + b);
    assert(r1 == 4 * r + t);
    assert(big * q == 4 * p * q + q) by (nonlinear_arith) requires big == 4 * p + 1;
    assert(4 * n + 3 == 4 * (p * q) + 4 * a + b + 4 * r + t) by (nonlinear_arith)
        requires n1 == big * q + r1, big * q == 4 * p * q + q, q == 4 * a + b, r1 == 4 * r + t, n1 == 4 * n + 3;
    assert(b + t == 3);
}

/// the arithmetic heart of Neri-Schneider's to_date, over plain integers
#[verifier::spinoff_prover]
pub proof fn lemma_ns_final(e: int, c: int, z: int, ny: int, mm: int, dd: int)
    requires
        -4371587 <= e <= 2932896,
        228 <= c <= 428, 0 <= z <= 99, 0 <= ny <= 365,
        e + 12699422 == 36524 * c + c / 4 + (365 * z + z / 4 + ny),
        3 <= mm <= 14, 0 <= dd <= 30,
        ny == moff(mm) + dd,
        mm == 14 ==> dd <= 28, (mm == 4 || mm == 6 || mm == 9 || mm == 11) ==> dd <= 29,
        (ny >= 306) <==> (mm >= 13),
        mm == 14 && dd == 28 ==> ny == 365,
        // ny == 365 only in the last year of a 4-year cycle, and the 4-year cycle's 1461st day only in the last of a 400-year cycle
        ny == 365 ==> z % 4 == 3,
        (365 * z + z / 4 + ny) == 36524 ==> c % 4 == 3,
    ensures ({
        let yy = 100 * c + z - 32800;
        let j = if ny >= 306 { 1int } else { 0int };
        let year = yy + j;
        let month = if ny >= 306 { mm - 12 } else { mm };
        let day = dd + 1;
        -9999 <= year <= 9999 && valid_ymd(year, month, day) && rd(year, month, day) == e
    }),
{
    let yy = 100 * c + z - 32800;
    let j = if ny >= 306 { 1int } else { 0int };
    let year = yy + j;
    let month = if ny >= 306 { mm - 12 } else { mm };
    let day = dd + 1;
    let big = 100 * c + z;
    assert(big / 4 == 25 * c + z / 4);
    assert(big / 100 == c);
    assert(big / 400 == c / 4);
    assert(yy / 4 == big / 4 - 8200);
    assert(yy / 100 == big / 100 - 328);
    assert(yy / 400 == big / 400 - 82);
    lemma_rd_lin(year, month, day);
    // leap status of the March-based year yy+1 decides whether Feb 29 (mm == 14, dd == 28) exists
    if mm == 14 && dd == 28 {
        let y1 = yy + 1;
        assert(z % 4 == 3);
        assert(y1 % 4 == 0);
        if z == 99 { assert((365 * z + z / 4 + ny) == 36524); assert(c % 4 == 3); assert(y1 % 400 == 0); }
        else { assert(y1 % 100 != 0); }
    }
}

#[verifier::external_body]
pub fn verif_error_range(what: &'static str, given: i8, min: i8, max: i8) -> Error { unimplemented!() }

// ---------------------------------------------------------------- ISO 8601 week calendar (definition; nothing here comes from jiff's code)
/// day number of the first day of ISO year y: the Monday of the week that contains January 4th
pub open spec fn iso_year_start(y: int) -> int { rd(y, 1, 4) - (wd(rd(y, 1, 4)) - 1) }
/// day e belongs to ISO year y
pub open spec fn in_iso_year(e: int, y: int) -> bool { iso_year_start(y) <= e < iso_year_start(y + 1) }
/// week number of day e of ISO year y
pub open spec fn iso_week_of(e: int, y: int) -> int { (e - iso_year_start(y)) / 7 + 1 }
/// ISO year y has 53 weeks
pub open spec fn iso_long(y: int) -> bool { iso_year_start(y + 1) - iso_year_start(y) == 371 }
pub open spec fn iso_weeks(y: int) -> int { if iso_long(y) { 53 } else { 52 } }
/// day number denoted by the ISO week date y-Ww-d
pub open spec fn iso_rd(y: int, w: int, d: int) -> int { iso_year_start(y) + 7 * (w - 1) + (d - 1) }
/// y-Ww-d is an ISO week date that denotes a day of -9999-01-01..=9999-12-31
pub open spec fn iso_valid(y: int, w: int, d: int) -> bool {
    -9999 <= y <= 9999 && 1 <= w <= iso_weeks(y) && 1 <= d <= 7 && -4371587 <= iso_rd(y, w, d) <= 2932896
}

/// the Monday of e's week
#[verifier::spinoff_prover]
pub proof fn lemma_monday(e: int)
    ensures 1 <= wd(e) <= 7, wd(e - (wd(e) - 1)) == 1, e - (wd(e) - 1) == 7 * ((e + 3) / 7) - 3,
{
    let q = (e + 3) / 7; let a = (e + 3) % 7;
    vstd::arithmetic::div_mod::lemma_fundamental_div_mod(e + 3, 7);
    vstd::arithmetic::div_mod::lemma_mod_bound(e + 3, 7);
    assert(e + 3 == 7 * q + a && 0 <= a < 7);
    lemma_mod7(e - a + 3, q, 0);
}
/// x is a Monday iff x + 3 is a multiple of 7; days of one week
#[verifier::spinoff_prover]
pub proof fn lemma_week(m: int, k: int, j: int)
    requires wd(m) == 1, 0 <= j <= 6,
    ensures wd(m + 7 * k + j) == j + 1, (m + 3) % 7 == 0, (7 * k + j) / 7 == k, (7 * k + j) % 7 == j,
{
    let q = (m + 3) / 7;
    vstd::arithmetic::div_mod::lemma_fundamental_div_mod(m + 3, 7);
    vstd::arithmetic::div_mod::lemma_mod_bound(m + 3, 7);
    assert(m + 3 == 7 * q);
    lemma_mod7(m + 7 * k + j + 3, q + k, j);
    vstd::arithmetic::div_mod::lemma_fundamental_div_mod_converse(7 * k + j, 7, k, j);
}
/// the first day of an ISO year is a Monday at most three days away from January 1st
#[verifier::spinoff_prover]
pub proof fn lemma_iso_start(y: int)
    ensures wd(iso_year_start(y)) == 1, rd(y, 1, 1) - 3 <= iso_year_start(y) <= rd(y, 1, 1) + 3,
            iso_year_start(y) == 7 * ((rd(y, 1, 1) + 6) / 7) - 3,
{
    assert(rd(y, 1, 4) == rd(y, 1, 1) + 3);
    lemma_monday(rd(y, 1, 4));
}
/// an ISO year has 364 or 371 days; 371 iff December 31st is a Thursday, or a Friday in a leap year
#[verifier::spinoff_prover]
pub proof fn lemma_iso_step(y: int)
    ensures iso_year_start(y + 1) - iso_year_start(y) == 364 || iso_year_start(y + 1) - iso_year_start(y) == 371,
            rd(y, 12, 31) == rd(y + 1, 1, 1) - 1,
            iso_long(y) <==> (wd(rd(y, 12, 31)) == 4 || (is_leap(y) && wd(rd(y, 12, 31)) == 5)),
{
    hide(rd);
    lemma_iso_start(y); lemma_iso_start(y + 1);
    lemma_rd_year(y);
    lemma_rd_pred(y + 1, 1, 1);
    let j = rd(y, 1, 1); let j2 = rd(y + 1, 1, 1);
    assert(j2 == j + diy(y));
    assert(rd(y, 12, 31) == j2 - 1);
    let q = (j + 6) / 7; let a = (j + 6) % 7;
    vstd::arithmetic::div_mod::lemma_fundamental_div_mod(j + 6, 7);
    vstd::arithmetic::div_mod::lemma_mod_bound(j + 6, 7);
    let q2 = (j2 + 6) / 7; let a2 = (j2 + 6) % 7;
    vstd::arithmetic::div_mod::lemma_fundamental_div_mod(j2 + 6, 7);
    vstd::arithmetic::div_mod::lemma_mod_bound(j2 + 6, 7);
    assert(j + 6 == 7 * q + a && j2 + 6 == 7 * q2 + a2);
    // wd(j2 - 1) = (j2 + 2) % 7 + 1
    if a2 >= 4 { lemma_mod7(j2 + 2, q2, a2 - 4); } else { lemma_mod7(j2 + 2, q2 - 1, a2 + 3); }
}
#[verifier::spinoff_prover]
pub proof fn lemma_iso_start_mono(y1: int, y2: int)
    requires y1 <= y2,
    ensures iso_year_start(y2) - iso_year_start(y1) >= 364 * (y2 - y1),
    decreases y2 - y1
{
    if y1 < y2 { lemma_iso_start_mono(y1, y2 - 1); lemma_iso_step(y2 - 1); }
}
/// every day belongs to at most one ISO year
#[verifier::spinoff_prover]
pub proof fn lemma_iso_year_unique(e: int, y1: int, y2: int)
    requires in_iso_year(e, y1), in_iso_year(e, y2),
    ensures y1 == y2,
{
    if y1 < y2 { lemma_iso_start_mono(y1 + 1, y2); }
    if y2 < y1 { lemma_iso_start_mono(y2 + 1, y1); }
}
/// The textbook characterisation: the ISO year of a day is the Gregorian year Y of the Thursday of its week, and its week number is
/// (ordinal day of that Thursday - 1) / 7 + 1.  (`rd(Y,1,1) <= t < rd(Y+1,1,1)` says that day t lies in Gregorian year Y, lemma_year_of_rd;
/// t - rd(Y,1,1) is its ordinal day minus one, lemma_doy_rd.)
#[verifier::spinoff_prover]
pub proof fn lemma_iso_textbook(e: int, yy: int)
    requires rd(yy, 1, 1) <= e - wd(e) + 4 < rd(yy + 1, 1, 1),
    ensures in_iso_year(e, yy), iso_week_of(e, yy) == (e - wd(e) + 4 - rd(yy, 1, 1)) / 7 + 1, wd(e - wd(e) + 4) == 4,
{
    hide(rd);
    lemma_iso_start(yy); lemma_iso_start(yy + 1);
    lemma_monday(e);
    let s = iso_year_start(yy); let s2 = iso_year_start(yy + 1);
    let m = e - (wd(e) - 1);            // Monday of e's week
    let j = rd(yy, 1, 1); let j2 = rd(yy + 1, 1, 1);
    let thu = m + 3;
    assert(thu == e - wd(e) + 4);
    lemma_week(m, 0, 3);
    // m, s, s2 are Mondays: m = 7a - 3, s = 7b - 3, s2 = 7c - 3
    let a = (e + 3) / 7; let b = (j + 6) / 7; let c = (j2 + 6) / 7;
    assert(m == 7 * a - 3 && s == 7 * b - 3 && s2 == 7 * c - 3);
    assert(s <= m <= s2 - 7);
    let k = a - b;
    assert(m == s + 7 * k && k >= 0);
    let jj = e - m;
    lemma_week(s, k, jj);
    assert((e - s) / 7 == k);
    // thu - j = 7k + (s + 3 - j) with 0 <= s + 3 - j <= 6
    lemma_week(s, k, s + 3 - j);
    assert(thu - j == 7 * k + (s + 3 - j));
}
/// the day denoted by a week date of ISO year y lies in ISO year y, in that week, on that weekday
#[verifier::spinoff_prover]
pub proof fn lemma_iso_rd_in_year(y: int, w: int, d: int)
    requires 1 <= w <= iso_weeks(y), 1 <= d <= 7,
    ensures in_iso_year(iso_rd(y, w, d), y), iso_week_of(iso_rd(y, w, d), y) == w, wd(iso_rd(y, w, d)) == d,
{
    lemma_iso_start(y); lemma_iso_step(y);
    lemma_week(iso_year_start(y), w - 1, d - 1);
}
/// conversely: the week date of a day of ISO year y
#[verifier::spinoff_prover]
pub proof fn lemma_iso_of_day(e: int, y: int)
    requires in_iso_year(e, y),
    ensures 1 <= iso_week_of(e, y) <= iso_weeks(y), 1 <= wd(e) <= 7, iso_rd(y, iso_week_of(e, y), wd(e)) == e,
            wd(e) - 1 == (e - iso_year_start(y)) % 7,
{
    lemma_iso_start(y); lemma_iso_step(y);
    let s = iso_year_start(y);
    let k = (e - s) / 7; let j = (e - s) % 7;
    vstd::arithmetic::div_mod::lemma_fundamental_div_mod(e - s, 7);
    vstd::arithmetic::div_mod::lemma_mod_bound(e - s, 7);
    assert(e - s == 7 * k + j && 0 <= j < 7);
    lemma_week(s, k, j);
}
/// the Thursday of the first week of ISO year yy lies in Gregorian year yy
#[verifier::spinoff_prover]
pub proof fn lemma_year_of_first_thursday(y: int, m: int, d: int, yy: int)
    requires valid_ymd(y, m, d), rd(y, m, d) == iso_year_start(yy) + 3,
    ensures y == yy,
{
    lemma_iso_start(yy);
    let k = iso_year_start(yy) + 3 - rd(yy, 1, 1) + 1;
    assert(1 <= k <= 7 && rd(yy, 1, k) == rd(yy, 1, 1) + k - 1);
    lemma_rd_inj(y, m, d, yy, 1, k);
}
/// a day of Gregorian year y belongs to ISO year y - 1, y or y + 1, decided by the two comparisons the code makes
#[verifier::spinoff_prover]
pub proof fn lemma_iso_year_near(y: int, m: int, d: int)
    requires valid_ymd(y, m, d),
    ensures ({
        let e = rd(y, m, d);
        &&& (e < iso_year_start(y) ==> in_iso_year(e, y - 1))
        &&& (iso_year_start(y) <= e < iso_year_start(y + 1) ==> in_iso_year(e, y))
        &&& (e >= iso_year_start(y + 1) ==> in_iso_year(e, y + 1))
        &&& iso_year_start(y) <= rd(y, 1, 1) + 3 && iso_year_start(y + 1) >= rd(y + 1, 1, 1) - 3
    }),
{
    hide(rd);
    lemma_year_of_rd(y, m, d);
    let e = rd(y, m, d);
    lemma_iso_start(y - 1); lemma_iso_start(y); lemma_iso_start(y + 1); lemma_iso_start(y + 2);
    lemma_rd_year(y - 1); lemma_rd_year(y + 1);
}
/// which week dates denote a day of the supported range: all of ISO years -9999..=9999 except 9999-W52-6 and 9999-W52-7
/// (-9999-01-01 is -9999-W01-1; 9999-12-31 is 9999-W52-5; ISO year 9999 has 52 weeks)
#[verifier::spinoff_prover]
pub proof fn lemma_iso_range(y: int, w: int, d: int)
    requires -9999 <= y <= 9999, 1 <= w <= iso_weeks(y), 1 <= d <= 7,
    ensures (-4371587 <= iso_rd(y, w, d) <= 2932896) <==> !(y == 9999 && w == 52 && d > 5),
            iso_year_start(-9999) == -4371587, iso_year_start(9999) == 2932535, iso_year_start(10000) == 2932899, !iso_long(9999),
{
    assert(iso_year_start(-9999) == -4371587 && iso_year_start(9999) == 2932535 && iso_year_start(10000) == 2932899) by (compute);
    lemma_iso_start_mono(-9999, y);
    lemma_iso_step(y);
    if y <= 9998 { lemma_iso_start_mono(y + 1, 9999); }
}
/// spot values of the definition (ISO 8601 / jiff's own doc examples): 2019-12-30 = 2020-W01-1, 2024-03-09 = 2024-W10-6, 1970-01-01 = 1970-W01-4,
/// 2021-01-03 = 2020-W53-7, 9999-12-31 = 9999-W52-5, -9999-01-01 = -9999-W01-1; 2015, 2020 and 2026 have 53 weeks, 2021, 9999 and -9999 have 52
#[verifier::spinoff_prover]
pub proof fn lemma_iso_examples()
    ensures iso_rd(2020, 1, 1) == rd(2019, 12, 30), iso_rd(2024, 10, 6) == rd(2024, 3, 9), iso_rd(1970, 1, 4) == 0, iso_rd(2020, 53, 7) == rd(2021, 1, 3),
            iso_rd(9999, 52, 5) == rd(9999, 12, 31), iso_rd(-9999, 1, 1) == rd(-9999, 1, 1),
            iso_long(2015), iso_long(2020), iso_long(2026), !iso_long(2021), !iso_long(9999), !iso_long(-9999),
{
    assert(iso_rd(2020, 1, 1) == rd(2019, 12, 30) && iso_rd(2024, 10, 6) == rd(2024, 3, 9) && iso_rd(1970, 1, 4) == 0 && iso_rd(2020, 53, 7) == rd(2021, 1, 3)) by (compute);
    assert(iso_rd(9999, 52, 5) == rd(9999, 12, 31) && iso_rd(-9999, 1, 1) == rd(-9999, 1, 1)) by (compute);
    assert(iso_long(2015) && iso_long(2020) && iso_long(2026) && !iso_long(2021) && !iso_long(9999) && !iso_long(-9999)) by (compute);
}

// ---------------------------------------------------------------- opaque callees (contracts proved elsewhere: itime.vrs / Kani c01_civil)
pub open spec fn wdn(w: Weekday) -> int {
    match w { Weekday::Monday => 1, Weekday::Tuesday => 2, Weekday::Wednesday => 3, Weekday::Thursday => 4, Weekday::Friday => 5, Weekday::Saturday => 6, Weekday::Sunday => 7 }
}
impl Weekday {
    #[verifier::external_body]
    pub fn from_iweekday(iweekday: IWeekday) -> (r: Weekday) requires 1 <= iweekday.offset <= 7 ensures wdn(r) == iweekday.offset { unimplemented!() }
    /// days from `other` to `self`, 0..=6
    #[verifier::external_body]
    pub fn since_ranged(self, other: Weekday) -> (r: WeekdayZero) ensures r.val == (wdn(self) - wdn(other)) % 7 { unimplemented!() }
    #[verifier::external_body]
    pub fn to_monday_zero_offset(self) -> (r: i8) ensures r == wdn(self) - 1 { unimplemented!() }
    #[verifier::external_body]
    pub fn to_monday_one_offset(self) -> (r: i8) ensures r == wdn(self) { unimplemented!() }
    #[verifier::external_body]
    pub fn to_monday_zero_offset_ranged(self) -> (r: WeekdayZero) ensures r.val == wdn(self) - 1 { unimplemented!() }
}
impl IEpochDay {
    /// contract of itime.vrs
    #[verifier::external_body]
    pub fn weekday(&self) -> (r: IWeekday) requires -2147483000 <= self.epoch_day <= 2147483000 ensures r.offset == wd(self.epoch_day as int) { unimplemented!() }
}
/// The one date outside -9999-01-01..=9999-12-31 that this code constructs and queries: 10000-01-04
/// (`Date::iso_week_date` asks for the first day of ISO year `year + 1` of every date of Gregorian year 9999 that is not before 9999-W01-1).
pub open spec fn ymd_x(y: int, m: int, d: int) -> bool { y == 10000 && m == 1 && d == 4 }
impl Date {
    pub open spec fn wf(&self) -> bool { in_range_ymd(self.year.val as int, self.month.val as int, self.day.val as int) }
    pub open spec fn rd(&self) -> int { rd(self.year.val as int, self.month.val as int, self.day.val as int) }
    /// wf, or the extra date 10000-01-04
    pub open spec fn wf_x(&self) -> bool { self.wf() || ymd_x(self.year.val as int, self.month.val as int, self.day.val as int) }
    #[verifier::external_body]
    pub fn to_unix_epoch_day(self) -> (r: UnixEpochDay) requires self.wf_x() ensures r.val == self.rd() { unimplemented!() }
    #[verifier::external_body]
    pub fn from_unix_epoch_day(epoch_day: UnixEpochDay) -> (r: Date) requires in_UnixEpochDay(epoch_day.val as int) ensures r.wf() && r.rd() == epoch_day.val { unimplemented!() }
    #[verifier::external_body]
    pub fn weekday(self) -> (r: Weekday) requires self.wf_x() ensures wdn(r) == wd(self.rd()) { unimplemented!() }
    #[verifier::external_body]
    pub fn in_leap_year(self) -> (r: bool) ensures r == is_leap(self.year.val as int) { unimplemented!() }
    /// Ok iff (year, month, day) is a Gregorian date (the arguments' types carry year in -9999..=9999, month in 1..=12, day in 1..=31)
    #[verifier::external_body]
    pub fn new_ranged(year: Year, month: Month, day: Day) -> (r: Result<Date, Error>)
        requires (in_Year(year.val as int) && 1 <= month.val <= 12 && 1 <= day.val <= 31) || ymd_x(year.val as int, month.val as int, day.val as int),
        ensures r.is_ok() <==> day.val <= dim(year.val as int, month.val as int),
                r.is_ok() ==> r.unwrap().year == year && r.unwrap().month == month && r.unwrap().day == day,
    { unimplemented!() }
}
impl ISOWeekDate {
    /// type invariant: a week date that exists and denotes a day of the supported range
    pub open spec fn wf(&self) -> bool { iso_valid(self.year.val as int, self.week.val as int, wdn(self.weekday)) }
    /// the day it denotes
    pub open spec fn rd(&self) -> int { iso_rd(self.year.val as int, self.week.val as int, wdn(self.weekday)) }
}

// ==== extracted from /repo ====
#[derive(Clone, Copy, Debug, Eq, PartialEq, Structural)]


pub enum Weekday {
    Monday = 1,
    Tuesday = 2,
    Wednesday = 3,
    Thursday = 4,
    Friday = 5,
    Saturday = 6,
    Sunday = 7,
}

#[derive(Clone, Copy, Debug, Eq, PartialEq, Structural)]
pub struct IEpochDay {
    pub epoch_day: i32,
}

impl IEpochDay {
    pub open spec fn cmp_spec(self, o: IEpochDay) -> int {
        if self.epoch_day < o.epoch_day { -1int } else if self.epoch_day > o.epoch_day { 1int } else { 0int }
    }
    pub fn cmp_exec(&self, o: &IEpochDay) -> (r: i8) ensures r as int == self.cmp_spec(*o), -1 <= r <= 1 {
        if self.epoch_day < o.epoch_day { -1 } else if self.epoch_day > o.epoch_day { 1 } else { 0 }
    }
}
impl vstd::std_specs::cmp::PartialOrdSpecImpl for IEpochDay {
    open spec fn obeys_partial_cmp_spec() -> bool { true }
    open spec fn partial_cmp_spec(&self, other: &IEpochDay) -> Option<core::cmp::Ordering> {
        Some(if self.cmp_spec(*other) < 0 { core::cmp::Ordering::Less } else if self.cmp_spec(*other) > 0 { core::cmp::Ordering::Greater } else { core::cmp::Ordering::Equal })
    }
}
impl core::cmp::PartialOrd for IEpochDay {
    fn partial_cmp(&self, other: &IEpochDay) -> (r: Option<core::cmp::Ordering>) {
        let c = self.cmp_exec(other);
        if c < 0 { Some(core::cmp::Ordering::Less) } else if c > 0 { Some(core::cmp::Ordering::Greater) } else { Some(core::cmp::Ordering::Equal) }
    }
}

#[derive(Clone, Copy, Debug, Eq, PartialEq, Structural)]
pub struct IWeekday {
    
    pub offset: i8,
}

impl IWeekday {
    pub open spec fn cmp_spec(self, o: IWeekday) -> int {
        if self.offset < o.offset { -1int } else if self.offset > o.offset { 1int } else { 0int }
    }
    pub fn cmp_exec(&self, o: &IWeekday) -> (r: i8) ensures r as int == self.cmp_spec(*o), -1 <= r <= 1 {
        if self.offset < o.offset { -1 } else if self.offset > o.offset { 1 } else { 0 }
    }
}
impl vstd::std_specs::cmp::PartialOrdSpecImpl for IWeekday {
    open spec fn obeys_partial_cmp_spec() -> bool { true }
    open spec fn partial_cmp_spec(&self, other: &IWeekday) -> Option<core::cmp::Ordering> {
        Some(if self.cmp_spec(*other) < 0 { core::cmp::Ordering::Less } else if self.cmp_spec(*other) > 0 { core::cmp::Ordering::Greater } else { core::cmp::Ordering::Equal })
    }
}
impl core::cmp::PartialOrd for IWeekday {
    fn partial_cmp(&self, other: &IWeekday) -> (r: Option<core::cmp::Ordering>) {
        let c = self.cmp_exec(other);
        if c < 0 { Some(core::cmp::Ordering::Less) } else if c > 0 { Some(core::cmp::Ordering::Greater) } else { Some(core::cmp::Ordering::Equal) }
    }
}

#[derive(Clone, Copy)]
pub struct Date {
    pub year: Year,
    pub month: Month,
    pub day: Day,
}

impl Date {
// @fn Date::year_ranged @src src/civil/date.rs:2142
#[verifier::spinoff_prover]

    pub fn year_ranged(self) -> (r: Year)
    ensures
        r == self.year,
{
        self.year
    }
}

impl Date {
// @fn Date::iso_week_date @src src/civil/date.rs:1131
#[verifier::spinoff_prover]

    pub fn iso_week_date(self) -> (r: ISOWeekDate)
    requires
        self.wf(),
    ensures
        r.wf(),
    in_iso_year(self.rd(), r.year.val as int),
    r.week.val == iso_week_of(self.rd(), r.year.val as int),
    wdn(r.weekday) == wd(self.rd()),
    r.rd() == self.rd(),
{
        hide(rd); hide(wd); hide(iso_year_start);
        proof {
            let y = self.year.val as int; let m = self.month.val as int; let d = self.day.val as int;
            lemma_rd_bounds(y, m, d);
            lemma_iso_year_near(y, m, d);
            lemma_iso_range(y, 1, 1);
            if y < 9999 { lemma_rd_bounds(y + 1, 1, 4); }
            if y > -9999 { lemma_rd_bounds(y - 1, 12, 31); }
            lemma_rd_bounds(y, 1, 1); lemma_rd_bounds(y, 1, 4);
            assert(rd(y, 1, 4) == rd(y, 1, 1) + 3) by { reveal(rd); }
            lemma_monday(self.rd());
        }

        let days = NoUnits32::rfrom(self.to_unix_epoch_day());
        let year = NoUnits32::rfrom(self.year_ranged());
        let week_start = { let days = days; let year = year;
            let mut week_start =
                NoUnits32::rfrom(iso_week_start_from_year(year.rinto()));
            if days < week_start {
                week_start = NoUnits32::rfrom(iso_week_start_from_year(
                    (year - C(1)).rinto(),
                ));
            } else {
                let next_year_week_start = NoUnits32::rfrom(
                    iso_week_start_from_year((year + C(1)).rinto()),
                );
                if days >= next_year_week_start {
                    week_start = next_year_week_start;
                }
            }
            week_start
        };

                proof {
            let e = self.rd();
            let y = self.year.val as int;
            let yy = if e < iso_year_start(y) { y - 1 } else if e >= iso_year_start(y + 1) { y + 1 } else { y };
            assert(week_start.val == iso_year_start(yy) && in_iso_year(e, yy));
            lemma_iso_of_day(e, yy);
            lemma_iso_step(yy);
            // week_start + 3, the Thursday of week 1, is one of January 1st..7th of yy
            assert(-9999 <= yy <= 9999);
            lemma_iso_start(yy); lemma_rd_bounds(yy, 1, 1); lemma_rd_bounds(yy, 1, 7);
            assert(rd(yy, 1, 7) == rd(yy, 1, 1) + 6) by { reveal(rd); }
            // the year the code reports is that of the Thursday of week 1, day number week_start + 3
            assert forall|y2: int, m2: int, d2: int| valid_ymd(y2, m2, d2) && #[trigger] rd(y2, m2, d2) == iso_year_start(yy) + 3 implies y2 == yy by {
                lemma_year_of_first_thursday(y2, m2, d2, yy);
            }
        }
let weekday = Weekday::from_iweekday(
            IEpochDay { epoch_day: days.get() }.weekday(),
        );
        let week = ((days - week_start) / C(7)) + C(1);

        let unix_epoch_day = week_start
            + NoUnits32::rfrom(
                Weekday::Thursday.since_ranged(Weekday::Monday),
            );
        let year =
            Date::from_unix_epoch_day(unix_epoch_day.rinto()).year_ranged();
        ISOWeekDate::new_ranged(year, week, weekday)
            .expect("all Dates infallibly convert to ISOWeekDates")
    }
}

impl Date {
// @fn Date::from_iso_week_date @src src/civil/date.rs:341
#[verifier::spinoff_prover]

    pub fn from_iso_week_date(weekdate: ISOWeekDate) -> (r: Date)
    requires
        weekdate.wf(),
    ensures
        r.wf(), r.rd() == weekdate.rd(),
{
    proof {
        let y = weekdate.year.val as int; let w = weekdate.week.val as int; let d = wdn(weekdate.weekday);
        lemma_iso_start(y); lemma_iso_range(y, w, d); lemma_rd_bounds(y, 1, 1);
    }

        let mut days = iso_week_start_from_year(weekdate.year_ranged());
        let year = NoUnits16::rfrom(weekdate.year_ranged());
        let week = NoUnits16::rfrom(weekdate.week_ranged());
        let weekday = NoUnits16::rfrom(
            weekdate.weekday().to_monday_zero_offset_ranged(),
        );
        let verif_vm = { let year = year; let week = week; let weekday = weekday;
                
                
                
                
                
                
                
                
                
                
                
                if year == C(9999) {
                    if week >= C(52) {
                        [week.min(C(52)), weekday.min(C(4))]
                    } else {
                        [week, weekday]
                    }
                } else {
                    [week, weekday]
                }
            }; let week = verif_vm[0]; let weekday = verif_vm[1];
        days += (UnixEpochDay::rfrom(week) - C(1)) * C(7);
        days += weekday;
        Date::from_unix_epoch_day(days)
    }
}

// @fn iso_week_start_from_year @src src/civil/date.rs:3598
#[verifier::spinoff_prover]
pub fn iso_week_start_from_year(year: ISOYear) -> (r: UnixEpochDay)
    requires
        -9999 <= year.val <= 10000,
    ensures
        r.val == iso_year_start(year.val as int), year.val <= 9999 ==> in_UnixEpochDay(r.val as int),
{
    proof {
        let y = year.val as int;
        lemma_monday(rd(y, 1, 4)); lemma_iso_start(y);
        if y <= 9999 { lemma_rd_bounds(y, 1, 1); } else { lemma_rd_epoch(); lemma_rd_year(9999); lemma_rd_succ(9999, 12, 31); }
    }

    
    
    
    let date_in_first_week =
        Date::new_ranged(year.rinto(), C(1).rinto(), C(4).rinto())
            .expect("Jan 4 is valid for all valid years");
    
    
    
    let diff_from_monday =
        date_in_first_week.weekday().since_ranged(Weekday::Monday);
    date_in_first_week.to_unix_epoch_day() - diff_from_monday
}

#[derive(Clone, Copy)]
pub struct ISOWeekDate {
    pub year: ISOYear,
    pub week: ISOWeek,
    pub weekday: Weekday,
}

impl ISOWeekDate {
// @fn ISOWeekDate::new @src src/civil/iso_week_date.rs:193
#[verifier::spinoff_prover]

    pub fn new(
        year: i16,
        week: i8,
        weekday: Weekday,
    ) -> (r: Result<ISOWeekDate, Error>)
    ensures
        r.is_ok() <==> iso_valid(year as int, week as int, wdn(weekday)),
    r.is_ok() ==> r.unwrap().year.val == year && r.unwrap().week.val == week && r.unwrap().weekday == weekday,
{
        let year = verif_try_new_ISOYear(year as i64)?;
        let week = verif_try_new_ISOWeek(week as i64)?;
        ISOWeekDate::new_ranged(year, week, weekday)
    }
}

impl ISOWeekDate {
// @fn ISOWeekDate::new_ranged @src src/civil/iso_week_date.rs:650
#[verifier::spinoff_prover]

    pub fn new_ranged(
        year: impl RInto<ISOYear>,
        week: impl RInto<ISOWeek>,
        weekday: Weekday,
    ) -> (r: Result<ISOWeekDate, Error>)
    requires
        year.rinto_req(), week.rinto_req(), in_ISOYear(year.rinto_spec().val as int), in_ISOWeek(week.rinto_spec().val as int),
    ensures
        r.is_ok() <==> iso_valid(year.rinto_spec().val as int, week.rinto_spec().val as int, wdn(weekday)),
    r.is_ok() ==> r.unwrap().year == year.rinto_spec() && r.unwrap().week == week.rinto_spec() && r.unwrap().weekday == weekday,
{
        let year = year.rinto();
        let week = week.rinto();
    proof {
        let y = year.val as int; let w = week.val as int;
        lemma_iso_step(y);
        if w <= iso_weeks(y) { lemma_iso_range(y, w, wdn(weekday)); }
        assert(!iso_long(9999)) by { lemma_iso_range(9999, 1, 1); }
    }

        
        
        
        
        
        
        
        
        { let verif_da: bool = (verif_MIN_Year()) == (verif_MIN_ISOYear()); assert(verif_da); };
        { let verif_da: bool = (verif_MAX_Year()) == (verif_MAX_ISOYear()); assert(verif_da); };
        if week == C(53) && !is_long_year(year) {
            return Err(verif_err());
        }
        
        
        
        
        
        
        
        
        if year == verif_MAX_SELF_ISOYear()
            && week == C(52)
            && weekday.to_monday_zero_offset()
                > Weekday::Friday.to_monday_zero_offset()
        {
            return Err(verif_error_range(
                "weekday",
                weekday.to_monday_one_offset(),
                Weekday::Monday.to_monday_one_offset(),
                Weekday::Friday.to_monday_one_offset(),
            ));
        }
        Ok(ISOWeekDate { year, week, weekday })
    }
}

impl ISOWeekDate {
// @fn ISOWeekDate::date @src src/civil/iso_week_date.rs:636
#[verifier::spinoff_prover]

    pub fn date(self) -> (r: Date)
    requires
        self.wf(),
    ensures
        r.wf(), r.rd() == self.rd(),
{
        Date::from_iso_week_date(self)
    }
}

impl ISOWeekDate {
// @fn ISOWeekDate::year_ranged @src src/civil/iso_week_date.rs:724
#[verifier::spinoff_prover]

    pub fn year_ranged(self) -> (r: ISOYear)
    ensures
        r == self.year,
{
        self.year
    }
}

impl ISOWeekDate {
// @fn ISOWeekDate::week_ranged @src src/civil/iso_week_date.rs:729
#[verifier::spinoff_prover]

    pub fn week_ranged(self) -> (r: ISOWeek)
    ensures
        r == self.week,
{
        self.week
    }
}

impl ISOWeekDate {
// @fn ISOWeekDate::weekday @src src/civil/iso_week_date.rs:298
#[verifier::spinoff_prover]

    pub fn weekday(self) -> (r: Weekday)
    ensures
        r == self.weekday,
{
        self.weekday
    }
}

impl ISOWeekDate {
// @fn ISOWeekDate::year @src src/civil/iso_week_date.rs:246
#[verifier::spinoff_prover]

    pub fn year(self) -> (r: i16)
    ensures
        r == self.year.val,
{
        self.year_ranged().get()
    }
}

impl ISOWeekDate {
// @fn ISOWeekDate::week @src src/civil/iso_week_date.rs:271
#[verifier::spinoff_prover]

    pub fn week(self) -> (r: i8)
    ensures
        r == self.week.val,
{
        self.week_ranged().get()
    }
}

impl ISOWeekDate {
// @fn ISOWeekDate::from_date @src src/civil/iso_week_date.rs:225
#[verifier::spinoff_prover]

    pub fn from_date(date: Date) -> (r: ISOWeekDate)
    requires
        date.wf(),
    ensures
        r.wf(),
    in_iso_year(date.rd(), r.year.val as int),
    r.week.val == iso_week_of(date.rd(), r.year.val as int),
    wdn(r.weekday) == wd(date.rd()),
    r.rd() == date.rd(),
{
        date.iso_week_date()
    }
}

impl ISOWeekDate {
// @fn ISOWeekDate::first_of_week @src src/civil/iso_week_date.rs:336
#[verifier::spinoff_prover]

    pub fn first_of_week(self) -> (r: Result<ISOWeekDate, Error>)
    requires
        self.wf(),
    ensures
        r.is_ok(),
    r.is_ok() <==> iso_valid(self.year.val as int, self.week.val as int, 1),
    r.is_ok() ==> r.unwrap().year == self.year && r.unwrap().week == self.week && r.unwrap().weekday == Weekday::Monday,
{
    proof { lemma_iso_range(self.year.val as int, self.week.val as int, wdn(self.weekday)); lemma_iso_range(self.year.val as int, self.week.val as int, 1); }

        
        
        
        
        
        ISOWeekDate::new_ranged(
            self.year_ranged(),
            self.week_ranged(),
            Weekday::Monday,
        )
    }
}

impl ISOWeekDate {
// @fn ISOWeekDate::last_of_week @src src/civil/iso_week_date.rs:382
#[verifier::spinoff_prover]

    pub fn last_of_week(self) -> (r: Result<ISOWeekDate, Error>)
    requires
        self.wf(),
    ensures
        r.is_ok() <==> iso_valid(self.year.val as int, self.week.val as int, 7),
    r.is_ok() <==> !(self.year.val == 9999 && self.week.val == 52),
    r.is_ok() ==> r.unwrap().year == self.year && r.unwrap().week == self.week && r.unwrap().weekday == Weekday::Sunday,
{
    proof { lemma_iso_range(self.year.val as int, self.week.val as int, 7); }

        
        
        
        ISOWeekDate::new_ranged(
            self.year_ranged(),
            self.week_ranged(),
            Weekday::Sunday,
        )
    }
}

impl ISOWeekDate {
// @fn ISOWeekDate::first_of_year @src src/civil/iso_week_date.rs:427
#[verifier::spinoff_prover]

    pub fn first_of_year(self) -> (r: Result<ISOWeekDate, Error>)
    requires
        self.wf(),
    ensures
        r.is_ok(),
    r.is_ok() <==> iso_valid(self.year.val as int, 1, 1),
    r.is_ok() ==> r.unwrap().year == self.year && r.unwrap().week.val == 1 && r.unwrap().weekday == Weekday::Monday,
{
    proof { lemma_iso_range(self.year.val as int, 1, 1); }

        
        
        
        
        ISOWeekDate::new_ranged(self.year_ranged(), C(1), Weekday::Monday)
    }
}

impl ISOWeekDate {
// @fn ISOWeekDate::last_of_year @src src/civil/iso_week_date.rs:476
#[verifier::spinoff_prover]

    pub fn last_of_year(self) -> (r: Result<ISOWeekDate, Error>)
    requires
        self.wf(),
    ensures
        r.is_ok() <==> iso_valid(self.year.val as int, iso_weeks(self.year.val as int), 7),
    r.is_ok() <==> self.year.val != 9999,
    r.is_ok() ==> r.unwrap().year == self.year && r.unwrap().week.val == iso_weeks(self.year.val as int) && r.unwrap().weekday == Weekday::Sunday,
{
    proof { lemma_iso_range(self.year.val as int, iso_weeks(self.year.val as int), 7); }

        
        
        
        let week = if self.in_long_year() {
            ISOWeek::verif_N(53)
        } else {
            ISOWeek::verif_N(52)
        };
        ISOWeekDate::new_ranged(self.year_ranged(), week, Weekday::Sunday)
    }
}

impl ISOWeekDate {
// @fn ISOWeekDate::days_in_year @src src/civil/iso_week_date.rs:506
#[verifier::spinoff_prover]

    pub fn days_in_year(self) -> (r: i16)
    requires
        in_ISOYear(self.year.val as int),
    ensures
        r == iso_year_start(self.year.val + 1) - iso_year_start(self.year.val as int),
{
    proof { lemma_iso_step(self.year.val as int); }

        if self.in_long_year() {
            371
        } else {
            364
        }
    }
}

impl ISOWeekDate {
// @fn ISOWeekDate::weeks_in_year @src src/civil/iso_week_date.rs:532
#[verifier::spinoff_prover]

    pub fn weeks_in_year(self) -> (r: i8)
    requires
        in_ISOYear(self.year.val as int),
    ensures
        r == iso_weeks(self.year.val as int),
{
        if self.in_long_year() {
            53
        } else {
            52
        }
    }
}

impl ISOWeekDate {
// @fn ISOWeekDate::in_long_year @src src/civil/iso_week_date.rs:557
#[verifier::spinoff_prover]

    pub fn in_long_year(self) -> (r: bool)
    requires
        in_ISOYear(self.year.val as int),
    ensures
        r == iso_long(self.year.val as int),
{
        is_long_year(self.year_ranged())
    }
}

// @fn is_long_year @src src/civil/iso_week_date.rs:835
#[verifier::spinoff_prover]
pub fn is_long_year(year: ISOYear) -> (r: bool)
    requires
        in_ISOYear(year.val as int),
    ensures
        r == iso_long(year.val as int),
{
    proof { lemma_iso_step(year.val as int); }

    
    let last = Date::new_ranged(year.rinto(), C(12).rinto(), C(31).rinto())
        .expect("last day of year is always valid");
    let weekday = last.weekday();
    weekday == Weekday::Thursday
        || (last.in_leap_year() && weekday == Weekday::Friday)
}

// ==== end extracted ====

// ---------------------------------------------------------------- C01 round trips: harnesses composing the contracts above (no jiff code in here)
/// date -> ISO week date -> date is the identity, for every date
pub fn verif_roundtrip_date(d: Date) -> (r: Date)
    requires d.wf(),
    ensures r.year.val == d.year.val && r.month.val == d.month.val && r.day.val == d.day.val,
{
    let w = d.iso_week_date();
    let r = w.date();
    proof { lemma_rd_inj(r.year.val as int, r.month.val as int, r.day.val as int, d.year.val as int, d.month.val as int, d.day.val as int); }
    r
}
/// (year, week, weekday) -> ISOWeekDate -> date -> ISO week date gives the triple back, for every triple `ISOWeekDate::new` accepts
/// (and it accepts exactly the week dates that exist and denote a supported day)
pub fn verif_roundtrip_iso(year: i16, week: i8, weekday: Weekday) -> (r: Option<ISOWeekDate>)
    ensures r.is_some() <==> iso_valid(year as int, week as int, wdn(weekday)),
            r.is_some() ==> r.unwrap().year.val == year && r.unwrap().week.val == week && r.unwrap().weekday == weekday,
{
    match ISOWeekDate::new(year, week, weekday) {
        Ok(w) => {
            let d = w.date();
            let w2 = d.iso_week_date();
            proof {
                lemma_iso_rd_in_year(year as int, week as int, wdn(weekday));
                lemma_iso_year_unique(d.rd(), w2.year.val as int, year as int);
            }
            Some(w2)
        }
        Err(_e) => None,
    }
}
} // verus!
fn main() {}
