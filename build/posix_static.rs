#![allow(unused, non_snake_case, non_upper_case_globals)]
use vstd::prelude::*;
verus! {
// ---- include lib/stdspecs.vrs ----
// Specifications of core integer methods that vstd 0.2026.09.13 does not provide (trusted; each mirrors the std documentation).
// Included by every unit so that an edited body that starts using one of them is still decided.
pub assume_specification[ i8::div_euclid ](x: i8, y: i8) -> (r: i8) requires y != 0, !(x == i8::MIN && y == -1), ensures y > 0 ==> r as int == (x as int) / (y as int);
pub assume_specification[ i8::rem_euclid ](x: i8, y: i8) -> (r: i8) requires y != 0, !(x == i8::MIN && y == -1), ensures y > 0 ==> r as int == (x as int) % (y as int), y < 0 ==> r as int == (x as int) % (-(y as int));
pub assume_specification[ i8::abs ](x: i8) -> (r: i8) requires x != i8::MIN, ensures r as int == (if x < 0 { -(x as int) } else { x as int });
pub assume_specification[ i8::signum ](x: i8) -> (r: i8) ensures r == (if x > 0 { 1int } else if x < 0 { -1int } else { 0int });
pub assume_specification[ i8::is_positive ](x: i8) -> (r: bool) ensures r == (x > 0);
pub assume_specification[ i8::is_negative ](x: i8) -> (r: bool) ensures r == (x < 0);
pub assume_specification[ i8::checked_neg ](x: i8) -> (r: Option<i8>) ensures x == i8::MIN ==> r.is_none(), x != i8::MIN ==> r == Some((-x) as i8);
pub assume_specification[ i8::saturating_add ](x: i8, y: i8) -> (r: i8) ensures i8::MIN <= x + y <= i8::MAX ==> r == x + y, x + y > i8::MAX ==> r == i8::MAX, x + y < i8::MIN ==> r == i8::MIN;
pub assume_specification[ i8::saturating_sub ](x: i8, y: i8) -> (r: i8) ensures i8::MIN <= x - y <= i8::MAX ==> r == x - y, x - y > i8::MAX ==> r == i8::MAX, x - y < i8::MIN ==> r == i8::MIN;
pub assume_specification[ i8::saturating_neg ](x: i8) -> (r: i8) ensures x == i8::MIN ==> r == i8::MAX, x != i8::MIN ==> r == -x;
pub assume_specification[ i8::unsigned_abs ](x: i8) -> (r: u8) ensures r as int == (if x < 0 { -(x as int) } else { x as int });
pub assume_specification[ i8::checked_abs ](x: i8) -> (r: Option<i8>) ensures x == i8::MIN ==> r.is_none(), x != i8::MIN ==> r == Some((if x < 0 { -x } else { x as int }) as i8);
pub assume_specification[ i16::div_euclid ](x: i16, y: i16) -> (r: i16) requires y != 0, !(x == i16::MIN && y == -1), ensures y > 0 ==> r as int == (x as int) / (y as int);
pub assume_specification[ i16::rem_euclid ](x: i16, y: i16) -> (r: i16) requires y != 0, !(x == i16::MIN && y == -1), ensures y > 0 ==> r as int == (x as int) % (y as int), y < 0 ==> r as int == (x as int) % (-(y as int));
pub assume_specification[ i16::abs ](x: i16) -> (r: i16) requires x != i16::MIN, ensures r as int == (if x < 0 { -(x as int) } else { x as int });
pub assume_specification[ i16::signum ](x: i16) -> (r: i16) ensures r == (if x > 0 { 1int } else if x < 0 { -1int } else { 0int });
pub assume_specification[ i16::is_positive ](x: i16) -> (r: bool) ensures r == (x > 0);
pub assume_specification[ i16::is_negative ](x: i16) -> (r: bool) ensures r == (x < 0);
pub assume_specification[ i16::checked_neg ](x: i16) -> (r: Option<i16>) ensures x == i16::MIN ==> r.is_none(), x != i16::MIN ==> r == Some((-x) as i16);
pub assume_specification[ i16::saturating_add ](x: i16, y: i16) -> (r: i16) ensures i16::MIN <= x + y <= i16::MAX ==> r == x + y, x + y > i16::MAX ==> r == i16::MAX, x + y < i16::MIN ==> r == i16::MIN;
pub assume_specification[ i16::saturating_sub ](x: i16, y: i16) -> (r: i16) ensures i16::MIN <= x - y <= i16::MAX ==> r == x - y, x - y > i16::MAX ==> r == i16::MAX, x - y < i16::MIN ==> r == i16::MIN;
pub assume_specification[ i16::saturating_neg ](x: i16) -> (r: i16) ensures x == i16::MIN ==> r == i16::MAX, x != i16::MIN ==> r == -x;
pub assume_specification[ i16::unsigned_abs ](x: i16) -> (r: u16) ensures r as int == (if x < 0 { -(x as int) } else { x as int });
pub assume_specification[ i16::checked_abs ](x: i16) -> (r: Option<i16>) ensures x == i16::MIN ==> r.is_none(), x != i16::MIN ==> r == Some((if x < 0 { -x } else { x as int }) as i16);
pub assume_specification[ i32::div_euclid ](x: i32, y: i32) -> (r: i32) requires y != 0, !(x == i32::MIN && y == -1), ensures y > 0 ==> r as int == (x as int) / (y as int);
pub assume_specification[ i32::rem_euclid ](x: i32, y: i32) -> (r: i32) requires y != 0, !(x == i32::MIN && y == -1), ensures y > 0 ==> r as int == (x as int) % (y as int), y < 0 ==> r as int == (x as int) % (-(y as int));
pub assume_specification[ i32::abs ](x: i32) -> (r: i32) requires x != i32::MIN, ensures r as int == (if x < 0 { -(x as int) } else { x as int });
pub assume_specification[ i32::signum ](x: i32) -> (r: i32) ensures r == (if x > 0 { 1int } else if x < 0 { -1int } else { 0int });
pub assume_specification[ i32::is_positive ](x: i32) -> (r: bool) ensures r == (x > 0);
pub assume_specification[ i32::is_negative ](x: i32) -> (r: bool) ensures r == (x < 0);
pub assume_specification[ i32::checked_neg ](x: i32) -> (r: Option<i32>) ensures x == i32::MIN ==> r.is_none(), x != i32::MIN ==> r == Some((-x) as i32);
pub assume_specification[ i32::saturating_add ](x: i32, y: i32) -> (r: i32) ensures i32::MIN <= x + y <= i32::MAX ==> r == x + y, x + y > i32::MAX ==> r == i32::MAX, x + y < i32::MIN ==> r == i32::MIN;
pub assume_specification[ i32::saturating_sub ](x: i32, y: i32) -> (r: i32) ensures i32::MIN <= x - y <= i32::MAX ==> r == x - y, x - y > i32::MAX ==> r == i32::MAX, x - y < i32::MIN ==> r == i32::MIN;
pub assume_specification[ i32::saturating_neg ](x: i32) -> (r: i32) ensures x == i32::MIN ==> r == i32::MAX, x != i32::MIN ==> r == -x;
pub assume_specification[ i32::unsigned_abs ](x: i32) -> (r: u32) ensures r as int == (if x < 0 { -(x as int) } else { x as int });
pub assume_specification[ i32::checked_abs ](x: i32) -> (r: Option<i32>) ensures x == i32::MIN ==> r.is_none(), x != i32::MIN ==> r == Some((if x < 0 { -x } else { x as int }) as i32);
pub assume_specification[ i64::div_euclid ](x: i64, y: i64) -> (r: i64) requires y != 0, !(x == i64::MIN && y == -1), ensures y > 0 ==> r as int == (x as int) / (y as int);
pub assume_specification[ i64::rem_euclid ](x: i64, y: i64) -> (r: i64) requires y != 0, !(x == i64::MIN && y == -1), ensures y > 0 ==> r as int == (x as int) % (y as int), y < 0 ==> r as int == (x as int) % (-(y as int));
pub assume_specification[ i64::abs ](x: i64) -> (r: i64) requires x != i64::MIN, ensures r as int == (if x < 0 { -(x as int) } else { x as int });
pub assume_specification[ i64::signum ](x: i64) -> (r: i64) ensures r == (if x > 0 { 1int } else if x < 0 { -1int } else { 0int });
pub assume_specification[ i64::is_positive ](x: i64) -> (r: bool) ensures r == (x > 0);
pub assume_specification[ i64::is_negative ](x: i64) -> (r: bool) ensures r == (x < 0);
pub assume_specification[ i64::checked_neg ](x: i64) -> (r: Option<i64>) ensures x == i64::MIN ==> r.is_none(), x != i64::MIN ==> r == Some((-x) as i64);
pub assume_specification[ i64::saturating_add ](x: i64, y: i64) -> (r: i64) ensures i64::MIN <= x + y <= i64::MAX ==> r == x + y, x + y > i64::MAX ==> r == i64::MAX, x + y < i64::MIN ==> r == i64::MIN;
pub assume_specification[ i64::saturating_sub ](x: i64, y: i64) -> (r: i64) ensures i64::MIN <= x - y <= i64::MAX ==> r == x - y, x - y > i64::MAX ==> r == i64::MAX, x - y < i64::MIN ==> r == i64::MIN;
pub assume_specification[ i64::saturating_neg ](x: i64) -> (r: i64) ensures x == i64::MIN ==> r == i64::MAX, x != i64::MIN ==> r == -x;
pub assume_specification[ i64::unsigned_abs ](x: i64) -> (r: u64) ensures r as int == (if x < 0 { -(x as int) } else { x as int });
pub assume_specification[ i64::checked_abs ](x: i64) -> (r: Option<i64>) ensures x == i64::MIN ==> r.is_none(), x != i64::MIN ==> r == Some((if x < 0 { -x } else { x as int }) as i64);
pub assume_specification[ i128::div_euclid ](x: i128, y: i128) -> (r: i128) requires y != 0, !(x == i128::MIN && y == -1), ensures y > 0 ==> r as int == (x as int) / (y as int);
pub assume_specification[ i128::rem_euclid ](x: i128, y: i128) -> (r: i128) requires y != 0, !(x == i128::MIN && y == -1), ensures y > 0 ==> r as int == (x as int) % (y as int), y < 0 ==> r as int == (x as int) % (-(y as int));
pub assume_specification[ i128::abs ](x: i128) -> (r: i128) requires x != i128::MIN, ensures r as int == (if x < 0 { -(x as int) } else { x as int });
pub assume_specification[ i128::signum ](x: i128) -> (r: i128) ensures r == (if x > 0 { 1int } else if x < 0 { -1int } else { 0int });
pub assume_specification[ i128::is_positive ](x: i128) -> (r: bool) ensures r == (x > 0);
pub assume_specification[ i128::is_negative ](x: i128) -> (r: bool) ensures r == (x < 0);
pub assume_specification[ i128::checked_neg ](x: i128) -> (r: Option<i128>) ensures x == i128::MIN ==> r.is_none(), x != i128::MIN ==> r == Some((-x) as i128);
pub assume_specification[ i128::saturating_add ](x: i128, y: i128) -> (r: i128) ensures i128::MIN <= x + y <= i128::MAX ==> r == x + y, x + y > i128::MAX ==> r == i128::MAX, x + y < i128::MIN ==> r == i128::MIN;
pub assume_specification[ i128::saturating_sub ](x: i128, y: i128) -> (r: i128) ensures i128::MIN <= x - y <= i128::MAX ==> r == x - y, x - y > i128::MAX ==> r == i128::MAX, x - y < i128::MIN ==> r == i128::MIN;
pub assume_specification[ i128::saturating_neg ](x: i128) -> (r: i128) ensures x == i128::MIN ==> r == i128::MAX, x != i128::MIN ==> r == -x;
pub assume_specification[ i128::unsigned_abs ](x: i128) -> (r: u128) ensures r as int == (if x < 0 { -(x as int) } else { x as int });
pub assume_specification[ i128::checked_abs ](x: i128) -> (r: Option<i128>) ensures x == i128::MIN ==> r.is_none(), x != i128::MIN ==> r == Some((if x < 0 { -x } else { x as int }) as i128);

#[verifier::external_body]
#[derive(Debug)]
pub struct Error { _p: () }
#[verifier::external_body]
pub fn verif_err() -> Error { unimplemented!() }

// (std spec moved to lib/stdspecs.vrs: i64::div_euclid)
// (std spec moved to lib/stdspecs.vrs: i64::rem_euclid)
// (std spec moved to lib/stdspecs.vrs: i32::div_euclid)
// (std spec moved to lib/stdspecs.vrs: i32::rem_euclid)
// (std spec moved to lib/stdspecs.vrs: i8::rem_euclid)
// (std spec moved to lib/stdspecs.vrs: i8::abs)
pub assume_specification<T, E, F: FnOnce(E) -> T>[ Result::<T, E>::unwrap_or_else ](r: Result<T, E>, f: F) -> (res: T)
    requires r is Err ==> f.requires((r->Err_0,)),
    ensures r is Ok ==> res == r->Ok_0, r is Err ==> f.ensures((r->Err_0,), res);
// ---- include lib/greg.vrs ----
// Proleptic Gregorian calendar, defined from first principles (property C01).
// Nothing in this file comes from jiff's code.
pub open spec fn is_leap(y: int) -> bool { y % 4 == 0 && (y % 100 != 0 || y % 400 == 0) }
pub open spec fn dim(y: int, m: int) -> int {
    if m == 2 { if is_leap(y) { 29 } else { 28 } }
    else if m == 4 || m == 6 || m == 9 || m == 11 { 30 } else { 31 }
}
pub open spec fn diy(y: int) -> int { if is_leap(y) { 366 } else { 365 } }
pub open spec fn valid_ymd(y: int, m: int, d: int) -> bool {
    1 <= m <= 12 && 1 <= d <= dim(y, m)
}
pub open spec fn in_range_ymd(y: int, m: int, d: int) -> bool {
    -9999 <= y <= 9999 && valid_ymd(y, m, d)
}
// successor of a date, component-wise
pub open spec fn next_y(y: int, m: int, d: int) -> int { if d == dim(y, m) && m == 12 { y + 1 } else { y } }
pub open spec fn next_m(y: int, m: int, d: int) -> int { if d == dim(y, m) { if m == 12 { 1 } else { m + 1 } } else { m } }
pub open spec fn next_d(y: int, m: int, d: int) -> int { if d == dim(y, m) { 1 } else { d + 1 } }
pub open spec fn prev_y(y: int, m: int, d: int) -> int { if d == 1 && m == 1 { y - 1 } else { y } }
pub open spec fn prev_m(y: int, m: int, d: int) -> int { if d == 1 { if m == 1 { 12 } else { m - 1 } } else { m } }
pub open spec fn prev_d(y: int, m: int, d: int) -> int { if d == 1 { dim(prev_y(y, m, d), prev_m(y, m, d)) } else { d - 1 } }

// Closed form of "days since 1970-01-01".  lemma_rd_epoch + lemma_rd_succ show it is THE
// Gregorian day count (the unique function that is 0 at the epoch and +1 on successor).
pub open spec fn rd(y: int, m: int, d: int) -> int {
    let yy = if m <= 2 { y - 1 } else { y };
    let mm = if m <= 2 { m + 12 } else { m };
    365 * yy + yy / 4 - yy / 100 + yy / 400 + (153 * (mm - 3) + 2) / 5 + d - 1 - 719468
}
#[verifier::spinoff_prover]
pub proof fn lemma_rd_epoch()
    ensures rd(1970, 1, 1) == 0, rd(-9999, 1, 1) == -4371587, rd(9999, 12, 31) == 2932896,
{}
/// (153(mm-3)+2)/5 for the shifted month number mm = 3..14 (March..February)
pub open spec fn moff(mm: int) -> int {
    if mm == 3 { 0 } else if mm == 4 { 31 } else if mm == 5 { 61 } else if mm == 6 { 92 } else if mm == 7 { 122 } else if mm == 8 { 153 }
    else if mm == 9 { 184 } else if mm == 10 { 214 } else if mm == 11 { 245 } else if mm == 12 { 275 } else if mm == 13 { 306 } else { 337 }
}
#[verifier::spinoff_prover]
pub proof fn lemma_moff(mm: int)
    requires 3 <= mm <= 14,
    ensures (153 * (mm - 3) + 2) / 5 == moff(mm),
{
    if mm == 3 {} else if mm == 4 {} else if mm == 5 {} else if mm == 6 {} else if mm == 7 {} else if mm == 8 {}
    else if mm == 9 {} else if mm == 10 {} else if mm == 11 {} else if mm == 12 {} else if mm == 13 {} else {}
}
/// stepping from y-1 to y changes floor(y/k) by one exactly when k divides y
#[verifier::spinoff_prover]
pub proof fn lemma_div_step(y: int, k: int)
    requires k > 1,
    ensures y / k - (y - 1) / k == (if y % k == 0 { 1int } else { 0int }),
{
    let q = y / k; let r = y % k;
    vstd::arithmetic::div_mod::lemma_fundamental_div_mod(y, k);
    vstd::arithmetic::div_mod::lemma_mod_bound(y, k);
    assert(y == k * q + r && 0 <= r < k);
    if r == 0 {
        assert(y - 1 == (q - 1) * k + (k - 1)) by (nonlinear_arith) requires y == k * q + r, r == 0;
        vstd::arithmetic::div_mod::lemma_fundamental_div_mod_converse(y - 1, k, q - 1, k - 1);
    } else {
        assert(y - 1 == q * k + (r - 1)) by (nonlinear_arith) requires y == k * q + r;
        vstd::arithmetic::div_mod::lemma_fundamental_div_mod_converse(y - 1, k, q, r - 1);
    }
}
#[verifier::spinoff_prover]
pub proof fn lemma_divides_chain(y: int, a: int, b: int)
    requires a > 0, b > 0, y % (a * b) == 0,
    ensures y % a == 0,
{
    let q = y / (a * b);
    assert(a * b > 0) by (nonlinear_arith) requires a > 0, b > 0;
    vstd::arithmetic::div_mod::lemma_fundamental_div_mod(y, a * b);
    assert(y == (q * b) * a + 0) by (nonlinear_arith) requires y == (a * b) * q + y % (a * b), y % (a * b) == 0;
    vstd::arithmetic::div_mod::lemma_fundamental_div_mod_converse(y, a, q * b, 0);
}
/// how the three leap-year quotients change from y-1 to y
#[verifier::spinoff_prover]
pub proof fn lemma_leap_step(y: int)
    ensures y / 4 - (y - 1) / 4 == (if y % 4 == 0 { 1int } else { 0int }),
            y / 100 - (y - 1) / 100 == (if y % 100 == 0 { 1int } else { 0int }),
            y / 400 - (y - 1) / 400 == (if y % 400 == 0 { 1int } else { 0int }),
            y % 400 == 0 ==> y % 100 == 0, y % 100 == 0 ==> y % 4 == 0,
{
    lemma_div_step(y, 4); lemma_div_step(y, 100); lemma_div_step(y, 400);
    if y % 400 == 0 { lemma_divides_chain(y, 100, 4); }
    if y % 100 == 0 { lemma_divides_chain(y, 4, 25); }
}
/// rd with the month term replaced by the table
pub open spec fn rd_lin(y: int, m: int, d: int) -> int {
    let yy = if m <= 2 { y - 1 } else { y };
    let mm = if m <= 2 { m + 12 } else { m };
    365 * yy + yy / 4 - yy / 100 + yy / 400 + moff(mm) + d - 1 - 719468
}
#[verifier::spinoff_prover]
pub proof fn lemma_rd_lin(y: int, m: int, d: int)
    requires 1 <= m <= 12,
    ensures rd(y, m, d) == rd_lin(y, m, d),
{
    lemma_moff(if m <= 2 { m + 12 } else { m });
}
#[verifier::spinoff_prover]
pub proof fn lemma_rd_succ(y: int, m: int, d: int)
    requires valid_ymd(y, m, d),
    ensures valid_ymd(next_y(y, m, d), next_m(y, m, d), next_d(y, m, d)),
            rd(next_y(y, m, d), next_m(y, m, d), next_d(y, m, d)) == rd(y, m, d) + 1,
{
    lemma_rd_lin(y, m, d);
    lemma_rd_lin(next_y(y, m, d), next_m(y, m, d), next_d(y, m, d));
    lemma_leap_step(y);
}
#[verifier::spinoff_prover]
pub proof fn lemma_rd_pred(y: int, m: int, d: int)
    requires valid_ymd(y, m, d),
    ensures valid_ymd(prev_y(y, m, d), prev_m(y, m, d), prev_d(y, m, d)),
            rd(prev_y(y, m, d), prev_m(y, m, d), prev_d(y, m, d)) == rd(y, m, d) - 1,
{
    lemma_rd_lin(y, m, d);
    lemma_rd_lin(prev_y(y, m, d), prev_m(y, m, d), prev_d(y, m, d));
    lemma_leap_step(y);
}
// day-of-year (1-based) and its relation to rd
pub open spec fn days_before_month(y: int, m: int) -> int
    decreases m
{
    if m <= 1 { 0 } else { days_before_month(y, m - 1) + dim(y, m - 1) }
}
pub open spec fn doy(y: int, m: int, d: int) -> int { days_before_month(y, m) + d }
pub open spec fn dbm_tab(y: int, m: int) -> int {
    let l = if is_leap(y) { 1int } else { 0int };
    if m == 1 { 0 } else if m == 2 { 31 } else if m == 3 { 59 + l } else if m == 4 { 90 + l } else if m == 5 { 120 + l } else if m == 6 { 151 + l }
    else if m == 7 { 181 + l } else if m == 8 { 212 + l } else if m == 9 { 243 + l } else if m == 10 { 273 + l } else if m == 11 { 304 + l } else { 334 + l }
}
#[verifier::spinoff_prover]
pub proof fn lemma_dbm(y: int, m: int)
    requires 1 <= m <= 12,
    ensures days_before_month(y, m) == dbm_tab(y, m),
    decreases m
{
    if m > 1 { lemma_dbm(y, m - 1); }
}
#[verifier::spinoff_prover]
pub proof fn lemma_doy_rd(y: int, m: int, d: int)
    requires 1 <= m <= 12,
    ensures rd(y, m, d) == rd(y, 1, 1) + doy(y, m, d) - 1,
{
    lemma_dbm(y, m);
    lemma_rd_lin(y, m, d);
    lemma_rd_lin(y, 1, 1);
    lemma_leap_step(y);
}
#[verifier::spinoff_prover]
pub proof fn lemma_rd_year(y: int)
    ensures rd(y + 1, 1, 1) == rd(y, 1, 1) + diy(y),
{
    lemma_rd_lin(y, 1, 1); lemma_rd_lin(y + 1, 1, 1);
    lemma_leap_step(y);
}
// rd is strictly monotone in (y,m,d) lexicographic order on valid dates => injective.
#[verifier::spinoff_prover]
pub proof fn lemma_rd_month_mono(y: int, m1: int, d1: int, m2: int, d2: int)
    requires valid_ymd(y, m1, d1), valid_ymd(y, m2, d2), m1 < m2,
    ensures rd(y, m1, d1) < rd(y, m2, d2),
{
    lemma_doy_rd(y, m1, d1); lemma_doy_rd(y, m2, d2);
    lemma_dbm(y, m1); lemma_dbm(y, m2);
}
#[verifier::spinoff_prover]
pub proof fn lemma_rd_year_mono(y1: int, y2: int)
    requires y1 <= y2,
    ensures rd(y2, 1, 1) - rd(y1, 1, 1) >= 365 * (y2 - y1),
    decreases y2 - y1
{
    if y1 < y2 { lemma_rd_year_mono(y1, y2 - 1); lemma_rd_year(y2 - 1); }
}
#[verifier::spinoff_prover]
pub proof fn lemma_rd_mono(y1: int, m1: int, d1: int, y2: int, m2: int, d2: int)
    requires valid_ymd(y1, m1, d1), valid_ymd(y2, m2, d2),
             y1 < y2 || (y1 == y2 && (m1 < m2 || (m1 == m2 && d1 < d2))),
    ensures rd(y1, m1, d1) < rd(y2, m2, d2),
{
    if y1 < y2 {
        lemma_doy_rd(y1, m1, d1); lemma_doy_rd(y2, m2, d2);
        lemma_rd_year_mono(y1 + 1, y2); lemma_rd_year(y1);
        lemma_dbm(y1, m1); lemma_dbm(y2, m2);
    } else if m1 < m2 {
        lemma_rd_month_mono(y1, m1, d1, m2, d2);
    }
}
#[verifier::spinoff_prover]
pub proof fn lemma_rd_inj(y1: int, m1: int, d1: int, y2: int, m2: int, d2: int)
    requires valid_ymd(y1, m1, d1), valid_ymd(y2, m2, d2), rd(y1, m1, d1) == rd(y2, m2, d2),
    ensures y1 == y2 && m1 == m2 && d1 == d2,
{
    if y1 < y2 || (y1 == y2 && (m1 < m2 || (m1 == m2 && d1 < d2))) { lemma_rd_mono(y1, m1, d1, y2, m2, d2); }
    else if y2 < y1 || (y1 == y2 && (m2 < m1 || (m1 == m2 && d2 < d1))) { lemma_rd_mono(y2, m2, d2, y1, m1, d1); }
}
// ISO weekday 1=Monday..7=Sunday of day number e; day 0 (1970-01-01) is a Thursday (4), cyclic successor.
pub open spec fn wd(e: int) -> int { (e + 3) % 7 + 1 }
#[verifier::spinoff_prover]
pub proof fn lemma_wd()
    ensures wd(0) == 4, forall|e: int| #[trigger] wd(e + 1) == (if wd(e) == 7 { 1int } else { wd(e) + 1 }),
{}

// ---- lemmas over plain integers used by the units (moved here from itime_views.vrs so that units without the itime structs can include them)
pub open spec fn nth_first_day(y: int, m: int, w: int) -> int { 1 + (w - wd(rd(y, m, 1))) % 7 }
pub open spec fn nth_last_day(y: int, m: int, w: int) -> int { dim(y, m) - (wd(rd(y, m, dim(y, m))) - w) % 7 }
/// x == 7*q + r with 0 <= r < 7 determines x % 7
#[verifier::spinoff_prover]
pub proof fn lemma_mod7(x: int, q: int, r: int)
    requires x == 7 * q + r, 0 <= r < 7,
    ensures x % 7 == r,
{
    assert(x == q * 7 + r);
    vstd::arithmetic::div_mod::lemma_fundamental_div_mod_converse(x, 7, q, r);
}
#[verifier::spinoff_prover]
pub proof fn lemma_wd_arith(e: int, w: int, k: int)
    requires 1 <= w <= 7,
    ensures wd(e + (w - wd(e)) % 7 + 7 * k) == w, wd(e - (wd(e) - w) % 7 - 7 * k) == w,
            0 <= (w - wd(e)) % 7 <= 6, 0 <= (wd(e) - w) % 7 <= 6,
{
    let a = (e + 3) % 7; let q = (e + 3) / 7;
    vstd::arithmetic::div_mod::lemma_fundamental_div_mod(e + 3, 7);
    vstd::arithmetic::div_mod::lemma_mod_bound(e + 3, 7);
    assert(e + 3 == 7 * q + a && 0 <= a < 7 && wd(e) == a + 1);
    // forward
    let x1 = w - wd(e); let t1 = x1 % 7; let p1 = x1 / 7;
    vstd::arithmetic::div_mod::lemma_fundamental_div_mod(x1, 7);
    vstd::arithmetic::div_mod::lemma_mod_bound(x1, 7);
    assert(x1 == 7 * p1 + t1 && 0 <= t1 < 7);
    lemma_mod7(e + t1 + 7 * k + 3, q + k - p1, w - 1);
    // backward
    let x2 = wd(e) - w; let t2 = x2 % 7; let p2 = x2 / 7;
    vstd::arithmetic::div_mod::lemma_fundamental_div_mod(x2, 7);
    vstd::arithmetic::div_mod::lemma_mod_bound(x2, 7);
    assert(x2 == 7 * p2 + t2 && 0 <= t2 < 7);
    lemma_mod7(e - t2 - 7 * k + 3, q - k + p2, w - 1);
}
#[verifier::spinoff_prover]
pub proof fn lemma_nth_day(y: int, m: int, w: int, k: int)
    requires 1 <= m <= 12, 1 <= w <= 7,
    ensures 1 <= nth_first_day(y, m, w) <= 7, wd(rd(y, m, nth_first_day(y, m, w) + 7 * k)) == w,
            0 <= dim(y, m) - nth_last_day(y, m, w) <= 6, wd(rd(y, m, nth_last_day(y, m, w) - 7 * k)) == w,
{
    let e1 = rd(y, m, 1);
    let e2 = rd(y, m, dim(y, m));
    lemma_wd_arith(e1, w, k);
    lemma_wd_arith(e2, w, k);
    assert(rd(y, m, nth_first_day(y, m, w) + 7 * k) == e1 + (w - wd(e1)) % 7 + 7 * k);
    assert(rd(y, m, nth_last_day(y, m, w) - 7 * k) == e2 - (wd(e2) - w) % 7 - 7 * k);
}
#[verifier::spinoff_prover]
pub proof fn lemma_rd_bounds(y: int, m: int, d: int)
    requires in_range_ymd(y, m, d),
    ensures -4371587 <= rd(y, m, d) <= 2932896,
            (rd(y, m, d) == -4371587 <==> (y == -9999 && m == 1 && d == 1)),
            (rd(y, m, d) == 2932896 <==> (y == 9999 && m == 12 && d == 31)),
{
    lemma_rd_epoch();
    if !(y == -9999 && m == 1 && d == 1) { lemma_rd_mono(-9999, 1, 1, y, m, d); }
    if !(y == 9999 && m == 12 && d == 31) { lemma_rd_mono(y, m, d, 9999, 12, 31); }
}
#[verifier::spinoff_prover]
pub proof fn lemma_year_of_rd(y: int, m: int, d: int)
    requires valid_ymd(y, m, d),
    ensures rd(y, 1, 1) <= rd(y, m, d) < rd(y + 1, 1, 1),
{
    lemma_doy_rd(y, m, d); lemma_rd_year(y);
    lemma_dbm(y, m);
}

#[verifier::rlimit(200)]
#[verifier::spinoff_prover]
pub proof fn lemma_mulshift(k: u64)
    requires k <= 36524,
    ensures ({ let n = 4 * k + 3; (2939745 * n) / 4294967296 == n / 1461 }),
            ({ let n = 4 * k + 3; ((2939745 * n) % 4294967296) / 2939745 / 4 == (n % 1461) / 4 }),
{
    assert(k <= 36524 ==> ({ let n = (4 * k + 3) as u64; (2939745 * n) / 4294967296 == n / 1461 })) by (bit_vector);
    assert(k <= 36524 ==> ({ let n = (4 * k + 3) as u64; ((2939745 * n) % 4294967296) / 2939745 / 4 == (n % 1461) / 4 })) by (bit_vector);
}
#[verifier::spinoff_prover]
pub proof fn lemma_month(ny: u32)
    requires ny < 366,
    ensures ({
        let n3 = 2141 * ny + 197913;
        let m = n3 / 65536;
        let d = (n3 % 65536) / 2141;
        3 <= m <= 14 && d <= 30 && ny as int == (153 * (m as int - 3) + 2) / 5 + d as int
        && (m == 14 ==> d <= 28) && ((m == 4 || m == 6 || m == 9 || m == 11) ==> d <= 29)
        && (ny >= 306 <==> m >= 13) && (m == 14 && d == 28 ==> ny == 365)
    }),
{
    assert(ny < 366 ==> ({
        let n3 = (2141 * ny + 197913) as u32;
        let m = n3 / 65536;
        let d = (n3 % 65536) / 2141;
        3 <= m && m <= 14 && d <= 30 && ny == (153 * (m - 3) + 2) / 5 + d
        && (m == 14 ==> d <= 28) && ((m == 4 || m == 6 || m == 9 || m == 11) ==> d <= 29)
        && (ny >= 306 <==> m >= 13) && (m == 14 && d == 28 ==> ny == 365)
    })) by (bit_vector);
}
// q = (4n+3)/P, r = ((4n+3)%P)/4 with P = 4p+1  ==> n == p*q + q/4 + r, and (r == p ==> q%4 == 3)
#[verifier::spinoff_prover]
pub proof fn lemma_cycle(n: int, p: int)
    requires n >= 0, p > 0,
    ensures ({
        let big = 4 * p + 1;
        let q = (4 * n + 3) / big;
        let r = ((4 * n + 3) % big) / 4;
        n == p * q + q / 4 + r && 0 <= r <= p && (r == p ==> q % 4 == 3)
    }),
{
    let big = 4 * p + 1;
    let n1 = 4 * n + 3;
    let q = n1 / big;
    let r1 = n1 % big;
    let r = r1 / 4;
    assert(n1 == big * q + r1) by { vstd::arithmetic::div_mod::lemma_fundamental_div_mod(n1, big); }
    assert(0 <= r1 < big) by { vstd::arithmetic::div_mod::lemma_mod_bound(n1, big); }
    let a = q / 4; let b = q % 4;
    let t = r1 % 4;
    assert(q == 4 * a + b);
    assert(r1 == 4 * r + t);
    assert(big * q == 4 * p * q + q) by (nonlinear_arith) requires big == 4 * p + 1;
    assert(4 * n + 3 == 4 * (p * q) + 4 * a + b + 4 * r + t) by (nonlinear_arith)
        requires n1 == big * q + r1, big * q == 4 * p * q + q, q == 4 * a + b, r1 == 4 * r + t, n1 == 4 * n + 3;
    assert(b + t == 3);
}

/// the arithmetic heart of Neri-Schneider's to_date, over plain integers
#[verifier::spinoff_prover]
pub proof fn lemma_ns_final(e: int, c: int, z: int, ny: int, mm: int, dd: int)
    requires
        -4371587 <= e <= 2932896,
        228 <= c <= 428, 0 <= z <= 99, 0 <= ny <= 365,
        e + 12699422 == 36524 * c + c / 4 + (365 * z + z / 4 + ny),
        3 <= mm <= 14, 0 <= dd <= 30,
        ny == moff(mm) + dd,
        mm == 14 ==> dd <= 28, (mm == 4 || mm == 6 || mm == 9 || mm == 11) ==> dd <= 29,
        (ny >= 306) <==> (mm >= 13),
        mm == 14 && dd == 28 ==> ny == 365,
        // ny == 365 only in the last year of a 4-year cycle, and the 4-year cycle's 1461st day only in the last of a 400-year cycle
        ny == 365 ==> z % 4 == 3,
        (365 * z + z / 4 + ny) == 36524 ==> c % 4 == 3,
    ensures ({
        let yy = 100 * c + z - 32800;
        let j = if ny >= 306 { 1int } else { 0int };
        let year = yy + j;
        let month = if ny >= 306 { mm - 12 } else { mm };
        let day = dd + 1;
        -9999 <= year <= 9999 && valid_ymd(year, month, day) && rd(year, month, day) == e
    }),
{
    let yy = 100 * c + z - 32800;
    let j = if ny >= 306 { 1int } else { 0int };
    let year = yy + j;
    let month = if ny >= 306 { mm - 12 } else { mm };
    let day = dd + 1;
    let big = 100 * c + z;
    assert(big / 4 == 25 * c + z / 4);
    assert(big / 100 == c);
    assert(big / 400 == c / 4);
    assert(yy / 4 == big / 4 - 8200);
    assert(yy / 100 == big / 100 - 328);
    assert(yy / 400 == big / 400 - 82);
    lemma_rd_lin(year, month, day);
    // leap status of the March-based year yy+1 decides whether Feb 29 (mm == 14, dd == 28) exists
    if mm == 14 && dd == 28 {
        let y1 = yy + 1;
        assert(z % 4 == 3);
        assert(y1 % 4 == 0);
        if z == 99 { assert((365 * z + z / 4 + ny) == 36524); assert(c % 4 == 3); assert(y1 % 400 == 0); }
        else { assert(y1 % 100 != 0); }
    }
}

// ---- include lib/itime_views.vrs ----
// Views of the extracted itime structs in terms of lib/greg.vrs, plus the arithmetic lemmas
// needed by the Neri-Schneider bodies.  Spec-only: no code from jiff.
impl IDate {
    pub open spec fn wf(&self) -> bool { in_range_ymd(self.year as int, self.month as int, self.day as int) }
    pub open spec fn rd(&self) -> int { rd(self.year as int, self.month as int, self.day as int) }
    pub open spec fn is_next_of(&self, p: &IDate) -> bool {
        self.year == next_y(p.year as int, p.month as int, p.day as int)
        && self.month == next_m(p.year as int, p.month as int, p.day as int)
        && self.day == next_d(p.year as int, p.month as int, p.day as int)
    }
}
impl IEpochDay {
    pub open spec fn wf(&self) -> bool { -4371587 <= self.epoch_day <= 2932896 }
}
impl IWeekday {
    pub open spec fn wf(&self) -> bool { 1 <= self.offset <= 7 }
}
impl ITime {
    pub open spec fn wf(&self) -> bool {
        0 <= self.hour <= 23 && 0 <= self.minute <= 59 && 0 <= self.second <= 59 && 0 <= self.subsec_nanosecond <= 999_999_999
    }
    pub open spec fn ns_of_day(&self) -> int {
        self.hour * 3_600_000_000_000 + self.minute * 60_000_000_000 + self.second * 1_000_000_000 + self.subsec_nanosecond
    }
}

// ---- opaque model of the abbreviation storage (ABBREV: AsRef<str>) ----
#[verifier::external_body]
#[derive(Clone, Copy, Debug)]
pub struct Abbrev { _p: () }
impl Abbrev {
    pub uninterp spec fn text(&self) -> Seq<char>;
    #[verifier::external_body]
    pub fn as_ref(&self) -> (r: &str) ensures r@ == self.text() { unimplemented!() }
}

// Everything hand-written for this unit lives in its own module: Verus prunes the SMT context per module, so the
// (solver-sensitive) calendar lemmas of the imported itime unit keep exactly the context they have there.
pub use px::*;
pub mod px {
use super::*;
use vstd::prelude::*;
// ---- include lib/dtorder.vrs ----
// Order of civil datetimes (IDateTime) and its embedding into the integers.  Spec-only: no code from jiff.
// `cmp_spec` is the lexicographic order generated for the derived PartialOrd (extractor rule R10); the lemmas
// below show once and for all that on well-formed values it is the order of (rd, ns_of_day), i.e. of the
// nanosecond key, and that the key is injective.
pub open spec fn dt_wf(dt: IDateTime) -> bool { dt.date.wf() && dt.time.wf() }
/// wall-clock seconds since 1970-01-01T00:00:00 (sub-second part dropped)
pub open spec fn loc(dt: IDateTime) -> int {
    dt.date.rd() * 86400 + dt.time.hour * 3600 + dt.time.minute * 60 + dt.time.second
}
/// wall-clock nanoseconds since 1970-01-01T00:00:00
pub open spec fn key(dt: IDateTime) -> int { dt.date.rd() * 86_400_000_000_000 + dt.time.ns_of_day() }
pub open spec fn dt_le(a: IDateTime, b: IDateTime) -> bool { a.cmp_spec(b) <= 0 }
pub open spec fn dt_lt(a: IDateTime, b: IDateTime) -> bool { a.cmp_spec(b) < 0 }

#[verifier::spinoff_prover]
pub proof fn lemma_date_order(a: IDate, b: IDate)
    requires a.wf(), b.wf(),
    ensures (a.cmp_spec(b) < 0) == (a.rd() < b.rd()), (a.cmp_spec(b) == 0) == (a.rd() == b.rd()),
            (a.cmp_spec(b) == 0) == (a == b), -1 <= a.cmp_spec(b) <= 1,
{
    let (y1, m1, d1) = (a.year as int, a.month as int, a.day as int);
    let (y2, m2, d2) = (b.year as int, b.month as int, b.day as int);
    if y1 < y2 || (y1 == y2 && (m1 < m2 || (m1 == m2 && d1 < d2))) { lemma_rd_mono(y1, m1, d1, y2, m2, d2); }
    else if y2 < y1 || (y1 == y2 && (m2 < m1 || (m1 == m2 && d2 < d1))) { lemma_rd_mono(y2, m2, d2, y1, m1, d1); }
}
#[verifier::spinoff_prover]
pub proof fn lemma_time_order(a: ITime, b: ITime)
    requires a.wf(), b.wf(),
    ensures (a.cmp_spec(b) < 0) == (a.ns_of_day() < b.ns_of_day()), (a.cmp_spec(b) == 0) == (a.ns_of_day() == b.ns_of_day()),
            (a.cmp_spec(b) == 0) == (a == b), -1 <= a.cmp_spec(b) <= 1,
            0 <= a.ns_of_day() < 86_400_000_000_000,
{}
#[verifier::spinoff_prover]
pub proof fn lemma_dt_order(a: IDateTime, b: IDateTime)
    requires dt_wf(a), dt_wf(b),
    ensures dt_lt(a, b) == (key(a) < key(b)), dt_le(a, b) == (key(a) <= key(b)),
            (a.cmp_spec(b) == 0) == (key(a) == key(b)), (key(a) == key(b)) == (a == b),
            dt_lt(a, b) == !dt_le(b, a), (a.cmp_spec(b) > 0) == dt_lt(b, a),
{
    lemma_date_order(a.date, b.date);
    lemma_time_order(a.time, b.time);
    lemma_time_order(b.time, a.time);
}
#[verifier::spinoff_prover]
pub proof fn lemma_key_loc(a: IDateTime)
    requires dt_wf(a),
    ensures key(a) == loc(a) * 1_000_000_000 + a.time.subsec_nanosecond,
            0 <= a.time.subsec_nanosecond <= 999_999_999,
            0 <= a.time.hour * 3600 + a.time.minute * 60 + a.time.second < 86400,
{}

// ---- std specs Verus lacks (trusted) ----
pub assume_specification<T, P: FnOnce(&T) -> bool>[ Option::<T>::filter ](o: Option<T>, p: P) -> (r: Option<T>)
    requires o is Some ==> p.requires((&o->0,)),
    ensures o is None ==> r is None,
            o is Some ==> (exists|b: bool| p.ensures((&o->0,), b) && (if b { r == o } else { r is None }));
// (std spec moved to lib/stdspecs.vrs: i32::is_negative)
// (std spec moved to lib/stdspecs.vrs: i32::saturating_neg)
// ---- DST interval of one year (C03): exact specs of DstInfo::in_dst / ordered over the derived order ----
pub open spec fn in_dst_spec(s: IDateTime, e: IDateTime, dt: IDateTime) -> bool {
    if dt_le(s, e) { dt_le(s, dt) && dt_lt(dt, e) } else { !(dt_le(e, dt) && dt_lt(dt, s)) }
}
pub open spec fn ordered_spec(s: IDateTime, e: IDateTime) -> (IDateTime, IDateTime) {
    if dt_le(s, e) { (s, e) } else { (e, s) }
}
/// C03 "the answer changes exactly at the transition instant": DST holds from `s` on, standard time from `e` on,
/// and between two datetimes with neither s nor e in (a, b] the answer is the same
#[verifier::spinoff_prover]
pub proof fn lemma_in_dst_changes_exactly_at_transitions(s: IDateTime, e: IDateTime, a: IDateTime, b: IDateTime)
    requires dt_wf(s), dt_wf(e), dt_wf(a), dt_wf(b),
    ensures s != e ==> in_dst_spec(s, e, s), !in_dst_spec(s, e, e),
            dt_le(a, b) && !(dt_lt(a, s) && dt_le(s, b)) && !(dt_lt(a, e) && dt_le(e, b)) ==> in_dst_spec(s, e, a) == in_dst_spec(s, e, b),
{
    lemma_dt_order(s, e); lemma_dt_order(e, s); lemma_dt_order(s, s); lemma_dt_order(e, e);
    lemma_dt_order(s, a); lemma_dt_order(a, s); lemma_dt_order(s, b); lemma_dt_order(b, s);
    lemma_dt_order(e, a); lemma_dt_order(a, e); lemma_dt_order(e, b); lemma_dt_order(b, e);
    lemma_dt_order(a, b);
}
// ---- type invariants (established by the parser; preconditions here) ----
impl PosixOffset { pub open spec fn wf(&self) -> bool { -93599 <= self.second <= 93599 } }
impl PosixTime { pub open spec fn wf(&self) -> bool { -604799 <= self.second <= 604799 } }
/// ISO weekday (1 = Monday .. 7 = Sunday) of a POSIX weekday (0 = Sunday .. 6 = Saturday)
pub open spec fn iso_of_posix_wd(w: int) -> int { if w == 0 { 7 } else { w } }
impl PosixDay {
    pub open spec fn wf(&self) -> bool {
        match *self {
            PosixDay::JulianOne(n) => 1 <= n <= 365,
            PosixDay::JulianZero(n) => 0 <= n <= 365,
            PosixDay::WeekdayOfMonth { month, week, weekday } => 1 <= month <= 12 && 1 <= week <= 5 && 0 <= weekday <= 6,
        }
    }
    /// C03: the day (as a day number) a POSIX date rule designates in year y; None: the rule names no day of that year
    pub open spec fn spec_rd(&self, y: int) -> Option<int> {
        match *self {
            // Jn: n-th day of the year, February 29 never counted
            PosixDay::JulianOne(n) => Some(rd(y, 1, 1) + n - 1 + (if n >= 60 && is_leap(y) { 1int } else { 0int })),
            // n: zero-based day of the year, February 29 counted
            PosixDay::JulianZero(n) => if n + 1 <= diy(y) { Some(rd(y, 1, 1) + n) } else { None },
            // Mm.w.d: the w-th weekday d of month m, w = 5 meaning the last one
            PosixDay::WeekdayOfMonth { month, week, weekday } => {
                let w = iso_of_posix_wd(weekday as int);
                Some(rd(y, month as int, if week == 5 { nth_last_day(y, month as int, w) } else { nth_first_day(y, month as int, w) + (week - 1) * 7 }))
            }
        }
    }
}
/// two days of one month less than a week apart with the same weekday are the same day
#[verifier::spinoff_prover]
pub proof fn lemma_wd_unique(y: int, m: int, d1: int, d2: int)
    requires wd(rd(y, m, d1)) == wd(rd(y, m, d2)), -7 < d1 - d2 < 7,
    ensures d1 == d2,
{}
/// the day found by nth_weekday_of_month is the closed form used in PosixDay::spec_rd
#[verifier::spinoff_prover]
pub proof fn lemma_mwd(y: int, m: int, w: int, nth: int, d: int)
    requires 1 <= m <= 12, 1 <= w <= 7, wd(rd(y, m, d)) == w,
             nth > 0 ==> (nth - 1) * 7 < d <= nth * 7,
             nth < 0 ==> (-nth - 1) * 7 <= dim(y, m) - d < -nth * 7,
    ensures nth > 0 ==> d == nth_first_day(y, m, w) + (nth - 1) * 7,
            nth == -1 ==> d == nth_last_day(y, m, w),
{
    if nth > 0 { lemma_nth_day(y, m, w, nth - 1); lemma_wd_unique(y, m, d, nth_first_day(y, m, w) + (nth - 1) * 7); }
    if nth == -1 { lemma_nth_day(y, m, w, 0); lemma_wd_unique(y, m, d, nth_last_day(y, m, w)); }
}
// ---- a rule's transition in one year (C03) ----
/// first and last representable instant of civil year y
pub open spec fn year_first(y: i16) -> IDateTime {
    IDateTime { date: IDate { year: y, month: 1, day: 1 }, time: ITime { hour: 0, minute: 0, second: 0, subsec_nanosecond: 0 } }
}
pub open spec fn year_last(y: i16) -> IDateTime {
    IDateTime { date: IDate { year: y, month: 12, day: 31 }, time: ITime { hour: 23, minute: 59, second: 59, subsec_nanosecond: 999_999_999 } }
}
/// wall-clock seconds of y-01-01T00:00:00 and of (y+1)-01-01T00:00:00
pub open spec fn year_lo(y: int) -> int { rd(y, 1, 1) * 86400 }
pub open spec fn year_hi(y: int) -> int { rd(y + 1, 1, 1) * 86400 }
/// the civil datetime with a given nanosecond key (unique: lemma_dt_of_key)
pub open spec fn dt_of_key(k: int) -> IDateTime { choose|r: IDateTime| dt_wf(r) && key(r) == k }
#[verifier::spinoff_prover]
pub proof fn lemma_dt_of_key(r: IDateTime)
    requires dt_wf(r),
    ensures dt_of_key(key(r)) == r,
{
    let c = dt_of_key(key(r));
    assert(dt_wf(c) && key(c) == key(r));
    lemma_dt_order(c, r);
}
/// rd is onto the supported day numbers (with lemma_rd_inj: a bijection from the dates in range)
#[verifier::spinoff_prover]
pub proof fn lemma_date_of_rd(n: int) -> (d: IDate)
    requires -4371587 <= n <= 2932896,
    ensures d.wf(), d.rd() == n,
    decreases n + 4371587,
{
    if n == -4371587 {
        lemma_rd_epoch();
        IDate { year: (-9999) as i16, month: 1, day: 1 }
    } else {
        let p = lemma_date_of_rd(n - 1);
        let (y, m, dd) = (p.year as int, p.month as int, p.day as int);
        lemma_rd_succ(y, m, dd);
        lemma_rd_bounds(y, m, dd);
        IDate { year: next_y(y, m, dd) as i16, month: next_m(y, m, dd) as i8, day: next_d(y, m, dd) as i8 }
    }
}
/// dt_of_key is total on the keys of the supported range
#[verifier::spinoff_prover]
pub proof fn lemma_dt_of_key_total(k: int)
    requires -4371587 * 86_400_000_000_000 <= k < 2932897 * 86_400_000_000_000,
    ensures dt_wf(dt_of_key(k)), key(dt_of_key(k)) == k,
{
    let n = k / 86_400_000_000_000;
    let ns = k % 86_400_000_000_000;
    let d = lemma_date_of_rd(n);
    let t = ITime {
        hour: (ns / 3_600_000_000_000) as i8, minute: ((ns / 60_000_000_000) % 60) as i8,
        second: ((ns / 1_000_000_000) % 60) as i8, subsec_nanosecond: (ns % 1_000_000_000) as i32,
    };
    let w = IDateTime { date: d, time: t };
    assert(dt_wf(w) && key(w) == k);
}
impl PosixDayTime {
    pub open spec fn wf(&self) -> bool { self.date.wf() && self.time.wf() }
    /// nominal transition: wall-clock seconds of (date rule in year y at 00:00) + time - offset; None: no such day in y
    pub open spec fn spec_loc(&self, y: int, off: int) -> Option<int> {
        match self.date.spec_rd(y) { Some(d) => Some(d * 86400 + self.time.second - off), None => None }
    }
    /// nanosecond key of the transition reported for year y: the nominal one if it falls inside year y,
    /// otherwise clamped to the first/last instant of year y (last also when the rule names no day of y)
    pub open spec fn spec_key(&self, y: int, off: int) -> int {
        match self.spec_loc(y, off) {
            None => year_hi(y) * 1_000_000_000 - 1,
            Some(t) => if t < year_lo(y) { year_lo(y) * 1_000_000_000 } else if t >= year_hi(y) { year_hi(y) * 1_000_000_000 - 1 } else { t * 1_000_000_000 },
        }
    }
    pub open spec fn spec_datetime(&self, y: i16, off: int) -> IDateTime { dt_of_key(self.spec_key(y as int, off)) }
}
#[verifier::spinoff_prover]
pub proof fn lemma_year_ends(y: i16)
    requires -9999 <= y <= 9999,
    ensures dt_wf(year_first(y)), dt_wf(year_last(y)),
            key(year_first(y)) == year_lo(y as int) * 1_000_000_000, key(year_last(y)) == year_hi(y as int) * 1_000_000_000 - 1,
            dt_of_key(year_lo(y as int) * 1_000_000_000) == year_first(y), dt_of_key(year_hi(y as int) * 1_000_000_000 - 1) == year_last(y),
            -4371587 <= rd(y as int, 1, 1), rd(y as int + 1, 1, 1) <= 2932897, rd(y as int, 1, 1) < rd(y as int + 1, 1, 1),
{
    lemma_rd_bounds(y as int, 1, 1);
    lemma_rd_bounds(y as int, 12, 31);
    lemma_rd_succ(y as int, 12, 31);
    lemma_rd_year(y as int);
    lemma_dt_of_key(year_first(y));
    lemma_dt_of_key(year_last(y));
}
/// a date of an earlier/later/the same year lies before/after/inside that year
#[verifier::spinoff_prover]
pub proof fn lemma_date_vs_year(d: IDate, y: int)
    requires d.wf(),
    ensures d.year < y ==> d.rd() < rd(y, 1, 1),
            d.year > y ==> d.rd() >= rd(y + 1, 1, 1),
            d.year == y ==> rd(y, 1, 1) <= d.rd() < rd(y + 1, 1, 1),
{
    let dy = d.year as int;
    lemma_year_of_rd(dy, d.month as int, d.day as int);
    if dy < y { lemma_rd_year_mono(dy + 1, y); }
    if dy > y { lemma_rd_year_mono(y + 1, dy); }
}
/// spec_datetime is well defined: a civil datetime of year y with the prescribed key
#[verifier::spinoff_prover]
pub proof fn lemma_spec_datetime(p: PosixDayTime, y: i16, off: int)
    requires -9999 <= y <= 9999,
    ensures dt_wf(p.spec_datetime(y, off)), p.spec_datetime(y, off).date.year == y,
            key(p.spec_datetime(y, off)) == p.spec_key(y as int, off),
{
    lemma_year_ends(y);
    let k = p.spec_key(y as int, off);
    assert(year_lo(y as int) * 1_000_000_000 <= k < year_hi(y as int) * 1_000_000_000);
    lemma_dt_of_key_total(k);
    let r = dt_of_key(k);
    lemma_key_loc(r);
    lemma_date_vs_year(r.date, y as int);
}
// ---- the zone (C03) ----
impl PosixDst {
    pub open spec fn wf(&self) -> bool { self.offset.wf() && self.rule.start.wf() && self.rule.end.wf() }
}
/// type invariant of ITimestamp values handed out by jiff::Timestamp (range, normalised sign)
pub open spec fn ts_wf(ts: ITimestamp) -> bool {
    -377705023201 <= ts.second <= 253402207200 && -999_999_999 <= ts.nanosecond <= 999_999_999
    && !(ts.second > 0 && ts.nanosecond < 0) && !(ts.second < 0 && ts.nanosecond > 0)
    && !(ts.second == -377705023201 && ts.nanosecond < 0)
}
/// the instant in nanoseconds since the epoch, and its civil datetime in UTC
pub open spec fn ts_key(ts: ITimestamp) -> int { ts.second * 1_000_000_000 + ts.nanosecond }
pub open spec fn utc_dt(ts: ITimestamp) -> IDateTime { dt_of_key(ts_key(ts)) }
impl PosixTimeZone {
    pub open spec fn wf(&self) -> bool { self.std_offset.wf() && (self.dst is Some ==> self.dst->0.wf()) }
    /// DST start/end of year y as UTC civil datetimes: start is given in standard time, end in DST time
    pub open spec fn utc_start(&self, y: i16) -> IDateTime { self.dst->0.rule.start.spec_datetime(y, self.std_offset.second as int) }
    pub open spec fn utc_end(&self, y: i16) -> IDateTime { self.dst->0.rule.end.spec_datetime(y, self.dst->0.offset.second as int) }
    /// the same on the wall clock
    pub open spec fn wall_start(&self, y: i16) -> IDateTime { self.dst->0.rule.start.spec_datetime(y, 0) }
    pub open spec fn wall_end(&self, y: i16) -> IDateTime { self.dst->0.rule.end.spec_datetime(y, 0) }
    /// C03: DST is in force at instant ts iff the zone has a rule and the UTC civil datetime of ts lies in the
    /// DST interval of its own UTC year
    pub open spec fn dst_at(&self, ts: ITimestamp) -> bool {
        self.dst is Some && in_dst_spec(self.utc_start(utc_dt(ts).date.year), self.utc_end(utc_dt(ts).date.year), utc_dt(ts))
    }
    pub open spec fn offset_of(&self, dst: bool) -> int { if dst { self.dst->0.offset.second as int } else { self.std_offset.second as int } }
    pub open spec fn abbrev_of(&self, dst: bool) -> Seq<char> { if dst { self.dst->0.abbrev.text() } else { self.std_abbrev.text() } }
}
// ---- civil datetime -> offset(s) (C04) ----
/// nanosecond key of `s` moved by d wall-clock seconds, sub-second part dropped (= what IDateTime::saturating_add_seconds
/// computes inside the representable range; for every s produced by an unclamped rule the sub-second part is 0 anyway)
pub open spec fn shift(s: IDateTime, d: int) -> int { (loc(s) + d) * 1_000_000_000 }
/// contract of IDateTime::saturating_add_seconds as a predicate
pub open spec fn sat_add_post(s: IDateTime, seconds: int, r: IDateTime) -> bool {
    let q = s.date.rd() + (s.time.hour * 3600 + s.time.minute * 60 + s.time.second + seconds) / 86400;
    (-4371587 <= q <= 2932896 ==> dt_wf(r) && loc(r) == loc(s) + seconds && r.time.subsec_nanosecond == 0)
    && (!(-4371587 <= q <= 2932896) ==> r == (if seconds < 0 { IDateTime::MIN } else { IDateTime::MAX }))
}
/// comparing against a saturated sum is comparing against the exact sum, except at IDateTime::MAX
#[verifier::spinoff_prover]
pub proof fn lemma_sat_shift(s: IDateTime, seconds: int, r: IDateTime, dt: IDateTime)
    requires dt_wf(s), dt_wf(dt), sat_add_post(s, seconds, r), dt != IDateTime::MAX,
    ensures dt_wf(r), dt_le(r, dt) == (shift(s, seconds) <= key(dt)), dt_lt(dt, r) == (key(dt) < shift(s, seconds)),
{
    lemma_rd_epoch();
    lemma_rd_bounds(s.date.year as int, s.date.month as int, s.date.day as int);
    lemma_rd_bounds(dt.date.year as int, dt.date.month as int, dt.date.day as int);
    lemma_key_loc(s); lemma_key_loc(dt);
    assert(dt_wf(IDateTime::MIN) && dt_wf(IDateTime::MAX));
    assert(dt_wf(r));
    lemma_key_loc(r);
    lemma_dt_order(r, dt); lemma_dt_order(dt, r);
    lemma_dt_order(dt, IDateTime::MAX);
}
impl PosixTimeZone {
    /// data assumption (C04): the ambiguity windows do not stick out of the period they belong to, i.e. within the
    /// calendar year the DST period (DST ahead of standard) resp. the standard period (DST behind) is at least
    /// |dst - std| long.
    pub open spec fn wall_sep(&self, y: i16) -> bool {
        self.dst is Some ==> {
            let s = self.wall_start(y); let e = self.wall_end(y);
            let diff = self.dst->0.offset.second - self.std_offset.second;
            (diff > 0 && dt_le(s, e) ==> shift(s, diff) <= key(e) && key(s) <= shift(e, -diff))
            && (diff < 0 && !dt_le(s, e) ==> key(e) <= shift(s, diff) && shift(e, -diff) <= key(s))
        }
    }
    /// C04: classification of wall-clock datetime dt.  S = start of DST, E = end of DST on the wall clock of dt's year,
    /// diff = dst - std.  diff > 0: [S, S+diff) is skipped (gap std->dst), [E-diff, E) is repeated (fold dst->std);
    /// diff < 0: [S+diff, S) is repeated (fold std->dst), [E, E-diff) is skipped (gap dst->std).
    pub open spec fn amb_spec(&self, dt: IDateTime) -> IAmbiguousOffset {
        let std = IOffset { second: self.std_offset.second };
        if self.dst is None { IAmbiguousOffset::Unambiguous { offset: std } } else {
            let dst = IOffset { second: self.dst->0.offset.second };
            let s = self.wall_start(dt.date.year); let e = self.wall_end(dt.date.year);
            let diff = dst.second - std.second;
            let k = key(dt);
            if diff == 0 { IAmbiguousOffset::Unambiguous { offset: std } }
            else if diff > 0 {
                if key(s) <= k < shift(s, diff) { IAmbiguousOffset::Gap { before: std, after: dst } }
                else if shift(e, -diff) <= k < key(e) { IAmbiguousOffset::Fold { before: dst, after: std } }
                else { IAmbiguousOffset::Unambiguous { offset: if in_dst_spec(s, e, dt) { dst } else { std } } }
            } else {
                if shift(s, diff) <= k < key(s) { IAmbiguousOffset::Fold { before: std, after: dst } }
                else if key(e) <= k < shift(e, -diff) { IAmbiguousOffset::Gap { before: dst, after: std } }
                else { IAmbiguousOffset::Unambiguous { offset: if in_dst_spec(s, e, dt) { dst } else { std } } }
            }
        }
    }
}
// ---- neighbouring transitions (C14) ----
#[verifier::spinoff_prover]
pub proof fn lemma_year_lt(a: IDateTime, b: IDateTime)
    ensures a.date.year < b.date.year ==> dt_lt(a, b) && !dt_lt(b, a),
{}
/// an instant (ns key) representable as a jiff Timestamp
pub open spec fn key_in_ts_range(k: int) -> bool { -377705023201 * 1_000_000_000 <= k <= 253402207200 * 1_000_000_000 + 999_999_999 }
impl PosixTimeZone {
    /// earlier / later rule transition of UTC year y
    pub open spec fn utc_earlier(&self, y: i16) -> IDateTime { ordered_spec(self.utc_start(y), self.utc_end(y)).0 }
    pub open spec fn utc_later(&self, y: i16) -> IDateTime { ordered_spec(self.utc_start(y), self.utc_end(y)).1 }
    /// candidate for "the transition before dt" with the year whose rule instance generated it: the later / the earlier
    /// one of dt's own UTC year if strictly before dt, else the later one of the previous year (None: no rule / no such year)
    pub open spec fn prev_cand(&self, dt: IDateTime) -> Option<(IDateTime, i16)> {
        let y = dt.date.year;
        if self.dst is None { None }
        else if dt_lt(self.utc_later(y), dt) { Some((self.utc_later(y), y)) }
        else if dt_lt(self.utc_earlier(y), dt) { Some((self.utc_earlier(y), y)) }
        else if y <= -9999 { None }
        else { Some((self.utc_later((y - 1) as i16), (y - 1) as i16)) }
    }
    pub open spec fn next_cand(&self, dt: IDateTime) -> Option<(IDateTime, i16)> {
        let y = dt.date.year;
        if self.dst is None { None }
        else if dt_lt(dt, self.utc_earlier(y)) { Some((self.utc_earlier(y), y)) }
        else if dt_lt(dt, self.utc_later(y)) { Some((self.utc_later(y), y)) }
        else if y >= 9999 { None }
        else { Some((self.utc_earlier((y + 1) as i16), (y + 1) as i16)) }
    }
    /// what is reported for candidate c generated by the rule instance of year cy
    pub open spec fn trans_post(&self, c: IDateTime, cy: i16, r: Option<(ITimestamp, IOffset, &str, bool)>) -> bool {
        if !key_in_ts_range(key(c)) { r is None } else {
            &&& r is Some
            // the instant is the candidate, as a well-formed timestamp
            &&& ts_wf((r->0).0) && ts_key((r->0).0) == key(c) && utc_dt((r->0).0) == c
            // the info is the one in force from that instant on: DST iff the candidate lies in the DST interval of
            // its year, which is exactly what to_offset_info reports at that instant
            &&& (r->0).3 == in_dst_spec(self.utc_start(cy), self.utc_end(cy), c)
            &&& (r->0).3 == self.dst_at((r->0).0)
            &&& (r->0).1.second == self.offset_of((r->0).3)
            &&& (r->0).2@ == self.abbrev_of((r->0).3)
        }
    }
}
/// ordered_spec picks the minimum and the maximum
#[verifier::spinoff_prover]
pub proof fn lemma_ordered(a: IDateTime, b: IDateTime)
    requires dt_wf(a), dt_wf(b),
    ensures ({
        let o = ordered_spec(a, b);
        dt_le(o.0, a) && dt_le(o.0, b) && dt_le(a, o.1) && dt_le(b, o.1) && dt_le(o.0, o.1)
        && ((o.0 == a && o.1 == b) || (o.0 == b && o.1 == a))
    }),
{
    lemma_dt_order(a, b); lemma_dt_order(b, a); lemma_dt_order(a, a); lemma_dt_order(b, b);
}
/// C14 "nearest, omits none": no rule-generated transition of any year lies strictly between the candidate and dt,
/// and when there is no candidate no rule-generated transition lies before dt at all
#[verifier::spinoff_prover]
pub proof fn lemma_prev_nearest(tz: PosixTimeZone, dt: IDateTime, y2: i16)
    requires tz.dst is Some, dt_wf(dt), -9999 <= y2 <= 9999,
    ensures ({
        let t1 = tz.utc_start(y2); let t2 = tz.utc_end(y2);
        match tz.prev_cand(dt) {
            Some((c, cy)) => (dt_lt(t1, dt) ==> dt_le(t1, c)) && (dt_lt(t2, dt) ==> dt_le(t2, c)),
            None => !dt_lt(t1, dt) && !dt_lt(t2, dt),
        }
    }),
{
    hide(rd); hide(valid_ymd); hide(IDate::cmp_spec); hide(ITime::cmp_spec); hide(key); hide(dt_of_key);
    let y = dt.date.year;
    let rs = tz.dst->0.rule.start; let re = tz.dst->0.rule.end;
    let so = tz.std_offset.second as int; let eo = tz.dst->0.offset.second as int;
    let t1 = tz.utc_start(y2); let t2 = tz.utc_end(y2);
    lemma_spec_datetime(rs, y2, so); lemma_spec_datetime(re, y2, eo);
    lemma_spec_datetime(rs, y, so); lemma_spec_datetime(re, y, eo);
    lemma_ordered(t1, t2);
    lemma_ordered(tz.utc_start(y), tz.utc_end(y));
    if y2 > y { lemma_year_lt(dt, t1); lemma_year_lt(dt, t2); }
    else if y2 < y {
        let ym = (y - 1) as i16;
        lemma_spec_datetime(rs, ym, so); lemma_spec_datetime(re, ym, eo);
        lemma_ordered(tz.utc_start(ym), tz.utc_end(ym));
        let c = (tz.prev_cand(dt)->0).0;
        lemma_year_lt(t1, c); lemma_year_lt(t2, c);
    }
}
#[verifier::spinoff_prover]
pub proof fn lemma_next_nearest(tz: PosixTimeZone, dt: IDateTime, y2: i16)
    requires tz.dst is Some, dt_wf(dt), -9999 <= y2 <= 9999,
    ensures ({
        let t1 = tz.utc_start(y2); let t2 = tz.utc_end(y2);
        match tz.next_cand(dt) {
            Some((c, cy)) => (dt_lt(dt, t1) ==> dt_le(c, t1)) && (dt_lt(dt, t2) ==> dt_le(c, t2)),
            None => !dt_lt(dt, t1) && !dt_lt(dt, t2),
        }
    }),
{
    hide(rd); hide(valid_ymd); hide(IDate::cmp_spec); hide(ITime::cmp_spec); hide(key); hide(dt_of_key);
    let y = dt.date.year;
    let rs = tz.dst->0.rule.start; let re = tz.dst->0.rule.end;
    let so = tz.std_offset.second as int; let eo = tz.dst->0.offset.second as int;
    let t1 = tz.utc_start(y2); let t2 = tz.utc_end(y2);
    lemma_spec_datetime(rs, y2, so); lemma_spec_datetime(re, y2, eo);
    lemma_spec_datetime(rs, y, so); lemma_spec_datetime(re, y, eo);
    lemma_ordered(t1, t2);
    lemma_ordered(tz.utc_start(y), tz.utc_end(y));
    if y2 < y { lemma_year_lt(t1, dt); lemma_year_lt(t2, dt); }
    else if y2 > y {
        let yp = (y + 1) as i16;
        lemma_spec_datetime(rs, yp, so); lemma_spec_datetime(re, yp, eo);
        lemma_ordered(tz.utc_start(yp), tz.utc_end(yp));
        let c = (tz.next_cand(dt)->0).0;
        lemma_year_lt(c, t1); lemma_year_lt(c, t2);
    }
}
} // mod px

// ==== extracted from /repo ====
#[derive(Clone, Copy, Debug, Eq, PartialEq, Structural)]
pub struct ITimestamp {
    pub second: i64,
    pub nanosecond: i32,
}

impl ITimestamp {
    pub open spec fn cmp_spec(self, o: ITimestamp) -> int {
        if self.second < o.second { -1int } else if self.second > o.second { 1int } else { if self.nanosecond < o.nanosecond { -1int } else if self.nanosecond > o.nanosecond { 1int } else { 0int } }
    }
    pub fn cmp_exec(&self, o: &ITimestamp) -> (r: i8) ensures r as int == self.cmp_spec(*o), -1 <= r <= 1 {
        if self.second < o.second { -1 } else if self.second > o.second { 1 } else { if self.nanosecond < o.nanosecond { -1 } else if self.nanosecond > o.nanosecond { 1 } else { 0 } }
    }
}
impl vstd::std_specs::cmp::PartialOrdSpecImpl for ITimestamp {
    open spec fn obeys_partial_cmp_spec() -> bool { true }
    open spec fn partial_cmp_spec(&self, other: &ITimestamp) -> Option<core::cmp::Ordering> {
        Some(if self.cmp_spec(*other) < 0 { core::cmp::Ordering::Less } else if self.cmp_spec(*other) > 0 { core::cmp::Ordering::Greater } else { core::cmp::Ordering::Equal })
    }
}
impl core::cmp::PartialOrd for ITimestamp {
    fn partial_cmp(&self, other: &ITimestamp) -> (r: Option<core::cmp::Ordering>) {
        let c = self.cmp_exec(other);
        if c < 0 { Some(core::cmp::Ordering::Less) } else if c > 0 { Some(core::cmp::Ordering::Greater) } else { Some(core::cmp::Ordering::Equal) }
    }
}

impl ITimestamp {
pub const MIN: ITimestamp =
        ITimestamp { second: -377705023201, nanosecond: 0 };

pub const MAX: ITimestamp =
        ITimestamp { second: 253402207200, nanosecond: 999_999_999 };

// @fn ITimestamp::from_second @src crates/jiff-static/src/shared/util/itime.rs:43
#[verifier::spinoff_prover]

    pub const fn from_second(second: i64) -> (r: ITimestamp)
    ensures
        r.second == second, r.nanosecond == 0,
{
        ITimestamp { second, nanosecond: 0 }
    }

// @fn ITimestamp::to_datetime @src crates/jiff-static/src/shared/util/itime.rs:52
#[verifier::spinoff_prover]

    pub const fn to_datetime(&self, offset: IOffset) -> (r: IDateTime)
    requires
        -999_999_999 <= self.nanosecond <= 999_999_999,
    -93599 <= offset.second <= 93599,
    // local time must land on a representable date (callers: Timestamp range +- offset)
    -4371587 * 86400 <= self.second + offset.second + (if self.nanosecond < 0 { -1int } else { 0int }),
    self.second + offset.second < 2932897 * 86400,
    ensures
        r.date.wf(), r.time.wf(),
    // Gregorian decomposition of floor-divided (t + o), in nanoseconds
    r.date.rd() * 86_400_000_000_000 + r.time.ns_of_day() == (self.second + offset.second) * 1_000_000_000 + self.nanosecond,
{
        let mut second = self.second; let mut nanosecond = self.nanosecond;
        second += offset.second as i64;
        let mut epoch_day = second.div_euclid(86_400) as i32;
        second = second.rem_euclid(86_400);
        if nanosecond < 0 {
            if second > 0 {
                second -= 1;
                nanosecond += 1_000_000_000;
            } else {
                epoch_day -= 1;
                second += 86_399;
                nanosecond += 1_000_000_000;
            }
        }

        let date = IEpochDay { epoch_day }.to_date();
        let mut time = ITimeSecond { second: second as i32 }.to_time();
        time.subsec_nanosecond = nanosecond;
        IDateTime { date, time }
    }
}

#[derive(Clone, Copy, Debug, Eq, PartialEq, Structural)]
pub struct IOffset {
    pub second: i32,
}

impl IOffset {
    pub open spec fn cmp_spec(self, o: IOffset) -> int {
        if self.second < o.second { -1int } else if self.second > o.second { 1int } else { 0int }
    }
    pub fn cmp_exec(&self, o: &IOffset) -> (r: i8) ensures r as int == self.cmp_spec(*o), -1 <= r <= 1 {
        if self.second < o.second { -1 } else if self.second > o.second { 1 } else { 0 }
    }
}
impl vstd::std_specs::cmp::PartialOrdSpecImpl for IOffset {
    open spec fn obeys_partial_cmp_spec() -> bool { true }
    open spec fn partial_cmp_spec(&self, other: &IOffset) -> Option<core::cmp::Ordering> {
        Some(if self.cmp_spec(*other) < 0 { core::cmp::Ordering::Less } else if self.cmp_spec(*other) > 0 { core::cmp::Ordering::Greater } else { core::cmp::Ordering::Equal })
    }
}
impl core::cmp::PartialOrd for IOffset {
    fn partial_cmp(&self, other: &IOffset) -> (r: Option<core::cmp::Ordering>) {
        let c = self.cmp_exec(other);
        if c < 0 { Some(core::cmp::Ordering::Less) } else if c > 0 { Some(core::cmp::Ordering::Greater) } else { Some(core::cmp::Ordering::Equal) }
    }
}

impl IOffset {
pub const UTC: IOffset = IOffset { second: 0 };
}

#[derive(Clone, Copy, Debug, Eq, PartialEq, Structural)]
pub struct IDateTime {
    pub date: IDate,
    pub time: ITime,
}

impl IDateTime {
    pub open spec fn cmp_spec(self, o: IDateTime) -> int {
        if self.date.cmp_spec(o.date) != 0 { self.date.cmp_spec(o.date) } else { if self.time.cmp_spec(o.time) != 0 { self.time.cmp_spec(o.time) } else { 0int } }
    }
    pub fn cmp_exec(&self, o: &IDateTime) -> (r: i8) ensures r as int == self.cmp_spec(*o), -1 <= r <= 1 {
        { let c = self.date.cmp_exec(&o.date); if c != 0 { c } else { { let c = self.time.cmp_exec(&o.time); if c != 0 { c } else { 0 } } } }
    }
}
impl vstd::std_specs::cmp::PartialOrdSpecImpl for IDateTime {
    open spec fn obeys_partial_cmp_spec() -> bool { true }
    open spec fn partial_cmp_spec(&self, other: &IDateTime) -> Option<core::cmp::Ordering> {
        Some(if self.cmp_spec(*other) < 0 { core::cmp::Ordering::Less } else if self.cmp_spec(*other) > 0 { core::cmp::Ordering::Greater } else { core::cmp::Ordering::Equal })
    }
}
impl core::cmp::PartialOrd for IDateTime {
    fn partial_cmp(&self, other: &IDateTime) -> (r: Option<core::cmp::Ordering>) {
        let c = self.cmp_exec(other);
        if c < 0 { Some(core::cmp::Ordering::Less) } else if c > 0 { Some(core::cmp::Ordering::Greater) } else { Some(core::cmp::Ordering::Equal) }
    }
}

impl IDateTime {
pub const MIN: IDateTime = IDateTime { date: IDate::MIN, time: ITime::MIN };

pub const MAX: IDateTime = IDateTime { date: IDate::MAX, time: ITime::MAX };

// @fn IDateTime::to_timestamp @src crates/jiff-static/src/shared/util/itime.rs:99
#[verifier::spinoff_prover]

    pub fn to_timestamp(&self, offset: IOffset) -> (r: ITimestamp)
    requires
        self.date.wf(), self.time.wf(), -93599 <= offset.second <= 93599,
    ensures
        r.second * 1_000_000_000 + r.nanosecond == self.date.rd() * 86_400_000_000_000 + self.time.ns_of_day() - offset.second * 1_000_000_000,
    -999_999_999 <= r.nanosecond <= 999_999_999,
    // "yields exactly t": the representation is the normalised one (signs agree)
    !(r.second > 0 && r.nanosecond < 0) && !(r.second < 0 && r.nanosecond > 0),
{
        let epoch_day = self.date.to_epoch_day().epoch_day;
        proof { lemma_rd_bounds(self.date.year as int, self.date.month as int, self.date.day as int); }

        let mut second = (epoch_day as i64) * 86_400
            + (self.time.to_second().second as i64);
        let mut nanosecond = self.time.subsec_nanosecond;
        second -= offset.second as i64;
        if second < 0 && nanosecond != 0 {
            second += 1;
            nanosecond -= 1_000_000_000;
        }
        ITimestamp { second, nanosecond }
    }

// @fn IDateTime::to_timestamp_checked @src crates/jiff-static/src/shared/util/itime.rs:120
#[verifier::spinoff_prover]

    pub fn to_timestamp_checked(
        &self,
        offset: IOffset,
    ) -> (r: Option<ITimestamp>)
    requires
        self.date.wf(), self.time.wf(), -93599 <= offset.second <= 93599,
    ensures
        r.is_some() <==> (-377705023201 * 1_000_000_000 <= self.date.rd() * 86_400_000_000_000 + self.time.ns_of_day() - offset.second * 1_000_000_000 <= 253402207200 * 1_000_000_000 + 999_999_999),
    r.is_some() ==> r.unwrap().second * 1_000_000_000 + r.unwrap().nanosecond == self.date.rd() * 86_400_000_000_000 + self.time.ns_of_day() - offset.second * 1_000_000_000
        && -999_999_999 <= r.unwrap().nanosecond <= 999_999_999
        && !(r.unwrap().second > 0 && r.unwrap().nanosecond < 0) && !(r.unwrap().second < 0 && r.unwrap().nanosecond > 0),
{
        let ts = self.to_timestamp(offset);
        if !(ITimestamp::MIN <= ts && ts <= ITimestamp::MAX) {
            return None;
        }
        Some(ts)
    }

// @fn IDateTime::saturating_add_seconds @src crates/jiff-static/src/shared/util/itime.rs:132
#[verifier::spinoff_prover]

    pub fn saturating_add_seconds(&self, seconds: i32) -> (r: IDateTime)
    requires
        self.date.wf(), self.time.wf(), seconds + 86399 <= i32::MAX,
    ensures
        sat_add_post(*self, seconds as int, r),
{
        self.checked_add_seconds(seconds).unwrap_or_else(|_e: Error| -> (r: IDateTime) ensures r == (if seconds < 0 { IDateTime::MIN } else { IDateTime::MAX }) {
            if seconds < 0 {
                IDateTime::MIN
            } else {
                IDateTime::MAX
            }
        })
    }

// @fn IDateTime::checked_add_seconds @src crates/jiff-static/src/shared/util/itime.rs:143
#[verifier::spinoff_prover]

    pub fn checked_add_seconds(
        &self,
        seconds: i32,
    ) -> (r: Result<IDateTime, Error>)
    requires
        self.date.wf(), self.time.wf(), seconds + 86399 <= i32::MAX,
    ensures
        r.is_ok() <==> -4371587 <= self.date.rd() + (self.time.hour * 3600 + self.time.minute * 60 + self.time.second + seconds) / 86400 <= 2932896,
    r.is_ok() ==> r.unwrap().date.wf() && r.unwrap().time.wf() && r.unwrap().time.subsec_nanosecond == 0
        && r.unwrap().date.rd() * 86400 + r.unwrap().time.hour * 3600 + r.unwrap().time.minute * 60 + r.unwrap().time.second
           == self.date.rd() * 86400 + self.time.hour * 3600 + self.time.minute * 60 + self.time.second + seconds,
{
        proof { lemma_rd_bounds(self.date.year as int, self.date.month as int, self.date.day as int); }

        let day_second =
            self.time.to_second().second.checked_add(seconds).ok_or_else(|| -> (e: Error) { verif_err() })?;
        let days = day_second.div_euclid(86400);
        let second = day_second.rem_euclid(86400);
        let date = self.date.checked_add_days(days)?;
        let time = ITimeSecond { second }.to_time();
        Ok(IDateTime { date, time })
    }
}

#[derive(Clone, Copy, Debug, Eq, PartialEq, Structural)]
pub struct IEpochDay {
    pub epoch_day: i32,
}

impl IEpochDay {
    pub open spec fn cmp_spec(self, o: IEpochDay) -> int {
        if self.epoch_day < o.epoch_day { -1int } else if self.epoch_day > o.epoch_day { 1int } else { 0int }
    }
    pub fn cmp_exec(&self, o: &IEpochDay) -> (r: i8) ensures r as int == self.cmp_spec(*o), -1 <= r <= 1 {
        if self.epoch_day < o.epoch_day { -1 } else if self.epoch_day > o.epoch_day { 1 } else { 0 }
    }
}
impl vstd::std_specs::cmp::PartialOrdSpecImpl for IEpochDay {
    open spec fn obeys_partial_cmp_spec() -> bool { true }
    open spec fn partial_cmp_spec(&self, other: &IEpochDay) -> Option<core::cmp::Ordering> {
        Some(if self.cmp_spec(*other) < 0 { core::cmp::Ordering::Less } else if self.cmp_spec(*other) > 0 { core::cmp::Ordering::Greater } else { core::cmp::Ordering::Equal })
    }
}
impl core::cmp::PartialOrd for IEpochDay {
    fn partial_cmp(&self, other: &IEpochDay) -> (r: Option<core::cmp::Ordering>) {
        let c = self.cmp_exec(other);
        if c < 0 { Some(core::cmp::Ordering::Less) } else if c > 0 { Some(core::cmp::Ordering::Greater) } else { Some(core::cmp::Ordering::Equal) }
    }
}

impl IEpochDay {
pub const MIN: IEpochDay = IEpochDay { epoch_day: -4371587 };

pub const MAX: IEpochDay = IEpochDay { epoch_day: 2932896 };

// @fn IEpochDay::to_date @src crates/jiff-static/src/shared/util/itime.rs:175
#[verifier::spinoff_prover]

     
    pub const fn to_date(&self) -> (r: IDate)
    requires
        self.wf(),
    ensures
        r.wf(), r.rd() == self.epoch_day,
{
        let s: u32 = 82;
        let K: u32 = 719468 + 146097 * s;
        let L: u32 = 400 * s;

        let N_U = self.epoch_day as u32;
        let N = N_U.wrapping_add(K);
        proof {
            let e = self.epoch_day;
            assert(e >= 0 ==> e as u32 == e as int) by (bit_vector);
            assert(e < 0 ==> (e as u32) as int == (e as int) + 4294967296) by (bit_vector);
            assert(N as int == e as int + 12699422);
        }


        let N_1 = 4 * N + 3;
        let C = N_1 / 146097;
        let N_C = (N_1 % 146097) / 4;
        proof {
            lemma_cycle(N as int, 36524);
            assert(N as int == 36524 * C + C / 4 + N_C);
            assert(N_C <= 36524);
            assert(228 <= C <= 428);
            assert(N_C == 36524 ==> C % 4 == 3);
        }


        let N_2 = 4 * N_C + 3;
        let P_2 = 2939745 * (N_2 as u64);
        let Z = (P_2 / 4294967296) as u32;
        let N_Y = (P_2 % 4294967296) as u32 / 2939745 / 4;
        proof {
            lemma_mulshift(N_C as u64);
            lemma_cycle(N_C as int, 365);
            assert(Z as int == N_2 as int / 1461);
            assert(N_Y as int == (N_2 as int % 1461) / 4);
            assert(N_C as int == 365 * Z + Z / 4 + N_Y);
            assert(Z <= 99);
            assert(N_Y <= 365);
            assert(N_Y == 365 ==> Z % 4 == 3);
        }

        let Y = 100 * C + Z;

        let N_3 = 2141 * N_Y + 197913;
        let M = N_3 / 65536;
        let D = (N_3 % 65536) / 2141;
        proof { lemma_month(N_Y); lemma_moff(M as int); }


        let J = N_Y >= 306;
        let year = Y.wrapping_sub(L).wrapping_add(J as u32) as i16;
        let month = (if J { M - 12 } else { M }) as i8;
        let day = (D + 1) as i8;
        proof {
            lemma_ns_final(self.epoch_day as int, C as int, Z as int, N_Y as int, M as int, D as int);
            let yy: int = Y as int - 32800;
            let yr: int = yy + if J { 1int } else { 0int };
            let w = Y.wrapping_sub(L).wrapping_add(J as u32);
            assert(yr >= 0 ==> w as int == yr);
            assert(yr < 0 ==> w as int == yr + 4294967296);
            assert(w < 0x8000 ==> (w as i16) as int == w as int) by (bit_vector);
            assert(w >= 0xFFFF8000u32 ==> (w as i16) as int == w as int - 4294967296) by (bit_vector);
            let mo: u32 = if J { (M - 12) as u32 } else { M };
            assert(mo <= 12 ==> (mo as i8) as int == mo as int) by (bit_vector);
            let dd = (D + 1) as u32;
            assert(dd <= 31 ==> (dd as i8) as int == dd as int) by (bit_vector);
        }

        IDate { year, month, day }
    }

// @fn IEpochDay::weekday @src crates/jiff-static/src/shared/util/itime.rs:206
#[verifier::spinoff_prover]

    pub const fn weekday(&self) -> (r: IWeekday)
    requires
        -2147483000 <= self.epoch_day <= 2147483000,
    ensures
        r.offset == wd(self.epoch_day as int),
{
        
        
        
        
        
        IWeekday::from_monday_zero_offset(
            (self.epoch_day + 3).rem_euclid(7) as i8
        )
    }

// @fn IEpochDay::checked_add @src crates/jiff-static/src/shared/util/itime.rs:222
#[verifier::spinoff_prover]

    pub fn checked_add(&self, amount: i32) -> (r: Result<IEpochDay, Error>)
    requires
        self.wf(),
    ensures
        r.is_ok() <==> -4371587 <= self.epoch_day + amount <= 2932896,
    r.is_ok() ==> r.unwrap().epoch_day == self.epoch_day + amount,
{
        let epoch_day = self.epoch_day;
        let sum = epoch_day.checked_add(amount).ok_or_else(|| -> (e: Error) { verif_err() })?;
        let ret = IEpochDay { epoch_day: sum };
        if !(IEpochDay::MIN <= ret && ret <= IEpochDay::MAX) {
            return Err(verif_err());
        }
        Ok(ret)
    }
}

#[derive(Clone, Copy, Debug, Eq, PartialEq, Structural)]
pub struct IDate {
    pub year: i16,
    pub month: i8,
    pub day: i8,
}

impl IDate {
    pub open spec fn cmp_spec(self, o: IDate) -> int {
        if self.year < o.year { -1int } else if self.year > o.year { 1int } else { if self.month < o.month { -1int } else if self.month > o.month { 1int } else { if self.day < o.day { -1int } else if self.day > o.day { 1int } else { 0int } } }
    }
    pub fn cmp_exec(&self, o: &IDate) -> (r: i8) ensures r as int == self.cmp_spec(*o), -1 <= r <= 1 {
        if self.year < o.year { -1 } else if self.year > o.year { 1 } else { if self.month < o.month { -1 } else if self.month > o.month { 1 } else { if self.day < o.day { -1 } else if self.day > o.day { 1 } else { 0 } } }
    }
}
impl vstd::std_specs::cmp::PartialOrdSpecImpl for IDate {
    open spec fn obeys_partial_cmp_spec() -> bool { true }
    open spec fn partial_cmp_spec(&self, other: &IDate) -> Option<core::cmp::Ordering> {
        Some(if self.cmp_spec(*other) < 0 { core::cmp::Ordering::Less } else if self.cmp_spec(*other) > 0 { core::cmp::Ordering::Greater } else { core::cmp::Ordering::Equal })
    }
}
impl core::cmp::PartialOrd for IDate {
    fn partial_cmp(&self, other: &IDate) -> (r: Option<core::cmp::Ordering>) {
        let c = self.cmp_exec(other);
        if c < 0 { Some(core::cmp::Ordering::Less) } else if c > 0 { Some(core::cmp::Ordering::Greater) } else { Some(core::cmp::Ordering::Equal) }
    }
}

impl IDate {
pub const MIN: IDate = IDate { year: -9999, month: 1, day: 1 };

pub const MAX: IDate = IDate { year: 9999, month: 12, day: 31 };

// @fn IDate::try_new @src crates/jiff-static/src/shared/util/itime.rs:259
#[verifier::spinoff_prover]

    pub fn try_new(
        year: i16,
        month: i8,
        day: i8,
    ) -> (r: Result<IDate, Error>)
    requires
        1 <= month <= 12, 1 <= day,
    ensures
        r.is_ok() <==> day <= dim(year as int, month as int),
    r.is_ok() ==> r.unwrap() == (IDate { year, month, day }),
{
        if day > 28 {
            let max_day = days_in_month(year, month);
            if day > max_day {
                return Err(verif_err());
            }
        }
        Ok(IDate { year, month, day })
    }

// @fn IDate::from_day_of_year @src crates/jiff-static/src/shared/util/itime.rs:283
#[verifier::spinoff_prover]

    pub fn from_day_of_year(
        year: i16,
        day: i16,
    ) -> (r: Result<IDate, Error>)
    requires
        -9999 <= year <= 9999,
    ensures
        r.is_ok() <==> 1 <= day <= diy(year as int),
    r.is_ok() ==> r.unwrap().wf() && r.unwrap().year == year && r.unwrap().rd() == rd(year as int, 1, 1) + day - 1,
{
        if !(1 <= day && day <= 366) {
            return Err(verif_err());
        }
        let start = IDate { year, month: 1, day: 1 }.to_epoch_day();
        proof {
            lemma_rd_bounds(year as int, 1, 1);
            lemma_rd_year(year as int);
        }

        let end = start
            .checked_add(i32::from(day) - 1)
            .map_err(|_e: Error| -> (e: Error) { verif_err() })?
            .to_date();
        proof {
            let ey = end.year as int; let y = year as int;
            lemma_year_of_rd(ey, end.month as int, end.day as int);
            lemma_rd_year(y);
            if ey < y { lemma_rd_year_mono(ey + 1, y); }
            if ey > y { lemma_rd_year_mono(y + 1, ey); }
        }

        
        if year != end.year {
            
            { let verif_da: bool = (day) == (366); assert(verif_da); };
            { let verif_da: bool = !is_leap_year(year); assert(verif_da); };
            return Err(verif_err());
        }
        Ok(end)
    }

// @fn IDate::from_day_of_year_no_leap @src crates/jiff-static/src/shared/util/itime.rs:329
#[verifier::spinoff_prover]

    pub fn from_day_of_year_no_leap(
        year: i16,
        mut day: i16,
    ) -> (r: Result<IDate, Error>)
    requires
        -9999 <= year <= 9999,
    ensures
        r.is_ok() <==> 1 <= day <= 365,
    r.is_ok() ==> r.unwrap().wf() && r.unwrap().year == year
        && r.unwrap().rd() == rd(year as int, 1, 1) + day - 1 + (if day >= 60 && is_leap(year as int) { 1int } else { 0int })
        && !(r.unwrap().month == 2 && r.unwrap().day == 29),
{
        if !(1 <= day && day <= 365) {
            return Err(verif_err());
        }
        if day >= 60 && is_leap_year(year) {
            day += 1;
        }
        proof {
            // Feb 29 is day 60 of a leap year: rd(y,2,29) == rd(y,1,1) + 59
            lemma_doy_rd(year as int, 2, 29);
            reveal_with_fuel(days_before_month, 3);
        }

        
        Ok(IDate::from_day_of_year(year, day).unwrap())
    }

// @fn IDate::to_epoch_day @src crates/jiff-static/src/shared/util/itime.rs:353
#[verifier::spinoff_prover]

     
    pub const fn to_epoch_day(&self) -> (r: IEpochDay)
    requires
        -9999 <= self.year <= 9999, 1 <= self.month <= 12, 1 <= self.day <= 31,
    ensures
        r.epoch_day == self.rd(),
{
        let s: u32 = 82;
        let K: u32 = 719468 + 146097 * s;
        let L: u32 = 400 * s;

        let year = self.year as u32;
        let month = self.month as u32;
        let day = self.day as u32;
        proof {
            let y = self.year;
            assert(y >= 0 ==> y as u32 == y as int) by (bit_vector);
            assert(y < 0 ==> (y as u32) as int == (y as int) + 4294967296) by (bit_vector);
            let m = self.month;
            assert(m >= 0 ==> m as u32 == m as int) by (bit_vector);
            let d = self.day;
            assert(d >= 0 ==> d as u32 == d as int) by (bit_vector);
        }


        let J = month <= 2;
        let Y = year.wrapping_add(L).wrapping_sub(J as u32);
        let M = if J { month + 12 } else { month };
        let D = day - 1;
        let C = Y / 100;

        let y_star = 1461 * Y / 4 - C + C / 4;
        let m_star = (979 * M - 2919) / 32;
        let N = y_star + m_star + D;
        proof {
            let yy: int = self.year as int - (if J { 1int } else { 0int });
            assert(Y as int == yy + 32800);
            assert(3 <= M <= 14);
            assert((979 * M - 2919) / 32 == (153 * (M as int - 3) + 2) / 5);
            assert(Y as int / 4 == yy / 4 + 8200);
            assert(Y as int / 100 == yy / 100 + 328);
            assert((Y as int / 100) / 4 == yy / 400 + 82);
        }


        let N_U = N.wrapping_sub(K);
        let epoch_day = N_U as i32;
        proof {
            assert((N_U as int) < 2147483648 ==> (N_U as i32) as int == N_U as int) by (bit_vector);
            assert((N_U as int) >= 2147483648 ==> (N_U as i32) as int == N_U as int - 4294967296) by (bit_vector);
        }

        IEpochDay { epoch_day }
    }

// @fn IDate::weekday @src crates/jiff-static/src/shared/util/itime.rs:379
#[verifier::spinoff_prover]

    pub const fn weekday(&self) -> (r: IWeekday)
    requires
        self.wf(),
    ensures
        r.offset == wd(self.rd()),
{
        self.to_epoch_day().weekday()
    }

// @fn IDate::nth_weekday_of_month @src crates/jiff-static/src/shared/util/itime.rs:391
#[verifier::spinoff_prover]

    pub fn nth_weekday_of_month(
        &self,
        nth: i8,
        weekday: IWeekday,
    ) -> (r: Result<IDate, Error>)
    requires
        self.wf(), weekday.wf(),
    ensures
        r.is_ok() ==> r.unwrap().wf() && r.unwrap().year == self.year && r.unwrap().month == self.month
        && wd(r.unwrap().rd()) == weekday.offset
        && (nth > 0 ==> (nth - 1) * 7 < r.unwrap().day <= nth * 7)
        && (nth < 0 ==> (-nth - 1) * 7 <= dim(self.year as int, self.month as int) - r.unwrap().day < -nth * 7),
    r.is_err() <==> (nth == 0 || nth < -5 || nth > 5
        || (nth > 0 && nth_first_day(self.year as int, self.month as int, weekday.offset as int) + (nth - 1) * 7 > dim(self.year as int, self.month as int))
        || (nth < 0 && nth_last_day(self.year as int, self.month as int, weekday.offset as int) - (-nth - 1) * 7 < 1)),
{
        proof {
            if nth > 0 { lemma_nth_day(self.year as int, self.month as int, weekday.offset as int, nth as int - 1); }
            if nth < 0 { lemma_nth_day(self.year as int, self.month as int, weekday.offset as int, -(nth as int) - 1); }
        }

        if nth == 0 || !(-5 <= nth && nth <= 5) {
            return Err(verif_err());
        }
        if nth > 0 {
            let first_weekday = self.first_of_month().weekday();
            let diff = weekday.since(first_weekday);
            let day = diff + 1 + (nth - 1) * 7;
            IDate::try_new(self.year, self.month, day)
        } else {
            let last = self.last_of_month();
            let last_weekday = last.weekday();
            let diff = last_weekday.since(weekday);
            let day = last.day - diff - (nth.abs() - 1) * 7;
            
            
            
            
            if day < 1 {
                return Err(verif_err());
            }
            IDate::try_new(self.year, self.month, day)
        }
    }

// @fn IDate::yesterday @src crates/jiff-static/src/shared/util/itime.rs:431
#[verifier::spinoff_prover]

    pub fn yesterday(self) -> (r: Result<IDate, Error>)
    requires
        self.wf(),
    ensures
        r.is_ok() <==> !(self.year == -9999 && self.month == 1 && self.day == 1),
    r.is_ok() ==> r.unwrap().wf() && self.is_next_of(&r.unwrap()),
{
        if self.day == 1 {
            if self.month == 1 {
                let year = self.year - 1;
                if year <= -10000 {
                    return Err(verif_err());
                }
                return Ok(IDate { year, month: 12, day: 31 });
            }
            let month = self.month - 1;
            let day = days_in_month(self.year, month);
            return Ok(IDate { month, day, ..self });
        }
        Ok(IDate { day: self.day - 1, ..self })
    }

// @fn IDate::tomorrow @src crates/jiff-static/src/shared/util/itime.rs:453
#[verifier::spinoff_prover]

    pub fn tomorrow(self) -> (r: Result<IDate, Error>)
    requires
        self.wf(),
    ensures
        r.is_ok() <==> !(self.year == 9999 && self.month == 12 && self.day == 31),
    r.is_ok() ==> r.unwrap().wf() && r.unwrap().is_next_of(&self),
{
        if self.day >= 28 && self.day == days_in_month(self.year, self.month) {
            if self.month == 12 {
                let year = self.year + 1;
                if year >= 10000 {
                    return Err(verif_err());
                }
                return Ok(IDate { year, month: 1, day: 1 });
            }
            let month = self.month + 1;
            return Ok(IDate { month, day: 1, ..self });
        }
        Ok(IDate { day: self.day + 1, ..self })
    }

// @fn IDate::prev_year @src crates/jiff-static/src/shared/util/itime.rs:474
#[verifier::spinoff_prover]

    pub fn prev_year(self) -> (r: Result<i16, Error>)
    requires
        -9999 <= self.year <= 9999,
    ensures
        r.is_ok() <==> self.year > -9999, r.is_ok() ==> r.unwrap() == self.year - 1,
{
        let year = self.year - 1;
        if year <= -10_000 {
            return Err(verif_err());
        }
        Ok(year)
    }

// @fn IDate::next_year @src crates/jiff-static/src/shared/util/itime.rs:491
#[verifier::spinoff_prover]

    pub fn next_year(self) -> (r: Result<i16, Error>)
    requires
        -9999 <= self.year <= 9999,
    ensures
        r.is_ok() <==> self.year < 9999, r.is_ok() ==> r.unwrap() == self.year + 1,
{
        let year = self.year + 1;
        if year >= 10_000 {
            return Err(verif_err());
        }
        Ok(year)
    }

// @fn IDate::checked_add_days @src crates/jiff-static/src/shared/util/itime.rs:508
#[verifier::spinoff_prover]

    pub fn checked_add_days(
        &self,
        amount: i32,
    ) -> (r: Result<IDate, Error>)
    requires
        self.wf(),
    ensures
        r.is_ok() <==> -4371587 <= self.rd() + amount <= 2932896,
    r.is_ok() ==> r.unwrap().wf() && r.unwrap().rd() == self.rd() + amount,
{
        proof {
            lemma_rd_bounds(self.year as int, self.month as int, self.day as int);
            lemma_rd_succ(self.year as int, self.month as int, self.day as int);
            lemma_rd_pred(self.year as int, self.month as int, self.day as int);
        }

        match amount {
            0 => Ok(*self),
            -1 => self.yesterday(),
            1 => self.tomorrow(),
            n => self.to_epoch_day().checked_add(n).map(|d: IEpochDay| -> (r: IDate) requires d.wf() ensures r.wf(), r.rd() == d.epoch_day { d.to_date() }),
        }
    }

// @fn IDate::first_of_month @src crates/jiff-static/src/shared/util/itime.rs:521
#[verifier::spinoff_prover]

    pub fn first_of_month(&self) -> (r: IDate)
    ensures
        r == (IDate { day: 1, ..*self }),
{
        IDate { day: 1, ..*self }
    }

// @fn IDate::last_of_month @src crates/jiff-static/src/shared/util/itime.rs:526
#[verifier::spinoff_prover]

    pub fn last_of_month(&self) -> (r: IDate)
    requires
        1 <= self.month <= 12,
    ensures
        r == (IDate { day: dim(self.year as int, self.month as int) as i8, ..*self }),
{
        IDate { day: days_in_month(self.year, self.month), ..*self }
    }
}

#[derive(Clone, Copy, Debug, Eq, PartialEq, Structural)]
pub struct ITime {
    pub hour: i8,
    pub minute: i8,
    pub second: i8,
    pub subsec_nanosecond: i32,
}

impl ITime {
    pub open spec fn cmp_spec(self, o: ITime) -> int {
        if self.hour < o.hour { -1int } else if self.hour > o.hour { 1int } else { if self.minute < o.minute { -1int } else if self.minute > o.minute { 1int } else { if self.second < o.second { -1int } else if self.second > o.second { 1int } else { if self.subsec_nanosecond < o.subsec_nanosecond { -1int } else if self.subsec_nanosecond > o.subsec_nanosecond { 1int } else { 0int } } } }
    }
    pub fn cmp_exec(&self, o: &ITime) -> (r: i8) ensures r as int == self.cmp_spec(*o), -1 <= r <= 1 {
        if self.hour < o.hour { -1 } else if self.hour > o.hour { 1 } else { if self.minute < o.minute { -1 } else if self.minute > o.minute { 1 } else { if self.second < o.second { -1 } else if self.second > o.second { 1 } else { if self.subsec_nanosecond < o.subsec_nanosecond { -1 } else if self.subsec_nanosecond > o.subsec_nanosecond { 1 } else { 0 } } } }
    }
}
impl vstd::std_specs::cmp::PartialOrdSpecImpl for ITime {
    open spec fn obeys_partial_cmp_spec() -> bool { true }
    open spec fn partial_cmp_spec(&self, other: &ITime) -> Option<core::cmp::Ordering> {
        Some(if self.cmp_spec(*other) < 0 { core::cmp::Ordering::Less } else if self.cmp_spec(*other) > 0 { core::cmp::Ordering::Greater } else { core::cmp::Ordering::Equal })
    }
}
impl core::cmp::PartialOrd for ITime {
    fn partial_cmp(&self, other: &ITime) -> (r: Option<core::cmp::Ordering>) {
        let c = self.cmp_exec(other);
        if c < 0 { Some(core::cmp::Ordering::Less) } else if c > 0 { Some(core::cmp::Ordering::Greater) } else { Some(core::cmp::Ordering::Equal) }
    }
}

impl ITime {
pub const ZERO: ITime =
        ITime { hour: 0, minute: 0, second: 0, subsec_nanosecond: 0 };

pub const MIN: ITime =
        ITime { hour: 0, minute: 0, second: 0, subsec_nanosecond: 0 };

pub const MAX: ITime = ITime {
        hour: 23,
        minute: 59,
        second: 59,
        subsec_nanosecond: 999_999_999,
    };

// @fn ITime::to_second @src crates/jiff-static/src/shared/util/itime.rs:568
#[verifier::spinoff_prover]

    pub const fn to_second(&self) -> (r: ITimeSecond)
    requires
        self.wf(),
    ensures
        r.second == self.hour * 3600 + self.minute * 60 + self.second, 0 <= r.second < 86400,
{
        let mut second: i32 = 0;
        second += (self.hour as i32) * 3600;
        second += (self.minute as i32) * 60;
        second += self.second as i32;
        ITimeSecond { second }
    }

// @fn ITime::to_nanosecond @src crates/jiff-static/src/shared/util/itime.rs:577
#[verifier::spinoff_prover]

    pub const fn to_nanosecond(&self) -> (r: ITimeNanosecond)
    requires
        self.wf(),
    ensures
        r.nanosecond == self.ns_of_day(), 0 <= r.nanosecond < 86_400_000_000_000,
{
        let mut nanosecond: i64 = 0;
        nanosecond += (self.hour as i64) * 3_600_000_000_000;
        nanosecond += (self.minute as i64) * 60_000_000_000;
        nanosecond += (self.second as i64) * 1_000_000_000;
        nanosecond += self.subsec_nanosecond as i64;
        ITimeNanosecond { nanosecond }
    }
}

#[derive(Clone, Copy, Debug, Eq, PartialEq, Structural)]
pub struct ITimeSecond {
    pub second: i32,
}

impl ITimeSecond {
    pub open spec fn cmp_spec(self, o: ITimeSecond) -> int {
        if self.second < o.second { -1int } else if self.second > o.second { 1int } else { 0int }
    }
    pub fn cmp_exec(&self, o: &ITimeSecond) -> (r: i8) ensures r as int == self.cmp_spec(*o), -1 <= r <= 1 {
        if self.second < o.second { -1 } else if self.second > o.second { 1 } else { 0 }
    }
}
impl vstd::std_specs::cmp::PartialOrdSpecImpl for ITimeSecond {
    open spec fn obeys_partial_cmp_spec() -> bool { true }
    open spec fn partial_cmp_spec(&self, other: &ITimeSecond) -> Option<core::cmp::Ordering> {
        Some(if self.cmp_spec(*other) < 0 { core::cmp::Ordering::Less } else if self.cmp_spec(*other) > 0 { core::cmp::Ordering::Greater } else { core::cmp::Ordering::Equal })
    }
}
impl core::cmp::PartialOrd for ITimeSecond {
    fn partial_cmp(&self, other: &ITimeSecond) -> (r: Option<core::cmp::Ordering>) {
        let c = self.cmp_exec(other);
        if c < 0 { Some(core::cmp::Ordering::Less) } else if c > 0 { Some(core::cmp::Ordering::Greater) } else { Some(core::cmp::Ordering::Equal) }
    }
}

impl ITimeSecond {
// @fn ITimeSecond::to_time @src crates/jiff-static/src/shared/util/itime.rs:595
#[verifier::spinoff_prover]

    pub const fn to_time(&self) -> (r: ITime)
    requires
        0 <= self.second < 86400,
    ensures
        r.wf(), r.subsec_nanosecond == 0, r.hour * 3600 + r.minute * 60 + r.second == self.second,
{
        let mut second = self.second;
        let mut time = ITime::ZERO;
        if second != 0 {
            time.hour = (second / 3600) as i8;
            second = second % (3600);
            if second != 0 {
                time.minute = (second / 60) as i8;
                time.second = (second % 60) as i8;
            }
        }
        time
    }
}

#[derive(Clone, Copy, Debug, Eq, PartialEq, Structural)]
pub struct ITimeNanosecond {
    pub nanosecond: i64,
}

impl ITimeNanosecond {
    pub open spec fn cmp_spec(self, o: ITimeNanosecond) -> int {
        if self.nanosecond < o.nanosecond { -1int } else if self.nanosecond > o.nanosecond { 1int } else { 0int }
    }
    pub fn cmp_exec(&self, o: &ITimeNanosecond) -> (r: i8) ensures r as int == self.cmp_spec(*o), -1 <= r <= 1 {
        if self.nanosecond < o.nanosecond { -1 } else if self.nanosecond > o.nanosecond { 1 } else { 0 }
    }
}
impl vstd::std_specs::cmp::PartialOrdSpecImpl for ITimeNanosecond {
    open spec fn obeys_partial_cmp_spec() -> bool { true }
    open spec fn partial_cmp_spec(&self, other: &ITimeNanosecond) -> Option<core::cmp::Ordering> {
        Some(if self.cmp_spec(*other) < 0 { core::cmp::Ordering::Less } else if self.cmp_spec(*other) > 0 { core::cmp::Ordering::Greater } else { core::cmp::Ordering::Equal })
    }
}
impl core::cmp::PartialOrd for ITimeNanosecond {
    fn partial_cmp(&self, other: &ITimeNanosecond) -> (r: Option<core::cmp::Ordering>) {
        let c = self.cmp_exec(other);
        if c < 0 { Some(core::cmp::Ordering::Less) } else if c > 0 { Some(core::cmp::Ordering::Greater) } else { Some(core::cmp::Ordering::Equal) }
    }
}

impl ITimeNanosecond {
// @fn ITimeNanosecond::to_time @src crates/jiff-static/src/shared/util/itime.rs:618
#[verifier::spinoff_prover]

    pub const fn to_time(&self) -> (r: ITime)
    requires
        0 <= self.nanosecond < 86_400_000_000_000,
    ensures
        r.wf(), r.ns_of_day() == self.nanosecond,
{
        let mut nanosecond = self.nanosecond;
        let mut time = ITime::ZERO;
        if nanosecond != 0 {
            time.hour = (nanosecond / 3_600_000_000_000) as i8;
            nanosecond = nanosecond % (3_600_000_000_000);
            if nanosecond != 0 {
                time.minute = (nanosecond / 60_000_000_000) as i8;
                nanosecond = nanosecond % (60_000_000_000);
                if nanosecond != 0 {
                    time.second = (nanosecond / 1_000_000_000) as i8;
                    time.subsec_nanosecond =
                        (nanosecond % 1_000_000_000) as i32;
                }
            }
        }
        time
    }
}

#[derive(Clone, Copy, Debug, Eq, PartialEq, Structural)]
pub struct IWeekday {
    
    pub offset: i8,
}

impl IWeekday {
    pub open spec fn cmp_spec(self, o: IWeekday) -> int {
        if self.offset < o.offset { -1int } else if self.offset > o.offset { 1int } else { 0int }
    }
    pub fn cmp_exec(&self, o: &IWeekday) -> (r: i8) ensures r as int == self.cmp_spec(*o), -1 <= r <= 1 {
        if self.offset < o.offset { -1 } else if self.offset > o.offset { 1 } else { 0 }
    }
}
impl vstd::std_specs::cmp::PartialOrdSpecImpl for IWeekday {
    open spec fn obeys_partial_cmp_spec() -> bool { true }
    open spec fn partial_cmp_spec(&self, other: &IWeekday) -> Option<core::cmp::Ordering> {
        Some(if self.cmp_spec(*other) < 0 { core::cmp::Ordering::Less } else if self.cmp_spec(*other) > 0 { core::cmp::Ordering::Greater } else { core::cmp::Ordering::Equal })
    }
}
impl core::cmp::PartialOrd for IWeekday {
    fn partial_cmp(&self, other: &IWeekday) -> (r: Option<core::cmp::Ordering>) {
        let c = self.cmp_exec(other);
        if c < 0 { Some(core::cmp::Ordering::Less) } else if c > 0 { Some(core::cmp::Ordering::Greater) } else { Some(core::cmp::Ordering::Equal) }
    }
}

impl IWeekday {
// @fn IWeekday::from_monday_zero_offset @src crates/jiff-static/src/shared/util/itime.rs:649
#[verifier::spinoff_prover]

    pub const fn from_monday_zero_offset(offset: i8) -> (r: IWeekday)
    requires
        0 <= offset <= 6,
    ensures
        r.offset == offset + 1,
{
        assert!(0 <= offset && offset <= 6);
        IWeekday::from_monday_one_offset(offset + 1)
    }

// @fn IWeekday::from_monday_one_offset @src crates/jiff-static/src/shared/util/itime.rs:657
#[verifier::spinoff_prover]

    pub const fn from_monday_one_offset(offset: i8) -> (r: IWeekday)
    requires
        1 <= offset <= 7,
    ensures
        r.offset == offset,
{
        assert!(1 <= offset && offset <= 7);
        IWeekday { offset }
    }

// @fn IWeekday::from_sunday_zero_offset @src crates/jiff-static/src/shared/util/itime.rs:665
#[verifier::spinoff_prover]

    pub const fn from_sunday_zero_offset(offset: i8) -> (r: IWeekday)
    requires
        0 <= offset <= 6,
    ensures
        r.offset == (if offset == 0 { 7int } else { offset as int }),
{
        assert!(0 <= offset && offset <= 6);
        IWeekday::from_monday_zero_offset((offset - 1).rem_euclid(7))
    }

// @fn IWeekday::to_monday_zero_offset @src crates/jiff-static/src/shared/util/itime.rs:682
#[verifier::spinoff_prover]

    pub const fn to_monday_zero_offset(self) -> (r: i8)
    requires
        self.wf(),
    ensures
        r == self.offset - 1,
{
        self.to_monday_one_offset() - 1
    }

// @fn IWeekday::to_monday_one_offset @src crates/jiff-static/src/shared/util/itime.rs:689
#[verifier::spinoff_prover]

    pub const fn to_monday_one_offset(self) -> (r: i8)
    ensures
        r == self.offset,
{
        self.offset
    }

// @fn IWeekday::since @src crates/jiff-static/src/shared/util/itime.rs:710
#[verifier::spinoff_prover]

    pub const fn since(self, other: IWeekday) -> (r: i8)
    requires
        self.wf(), other.wf(),
    ensures
        r as int == (self.offset - other.offset) % 7, 0 <= r <= 6,
{
        (self.to_monday_zero_offset() - other.to_monday_zero_offset())
            .rem_euclid(7)
    }
}

#[derive(Clone, Copy, Debug, Eq, PartialEq, Structural)]
pub enum IAmbiguousOffset {
    Unambiguous { offset: IOffset },
    Gap { before: IOffset, after: IOffset },
    Fold { before: IOffset, after: IOffset },
}

// @fn is_leap_year @src crates/jiff-static/src/shared/util/itime.rs:727
#[verifier::spinoff_prover]

pub const fn is_leap_year(year: i16) -> (r: bool)
    ensures
        r == is_leap(year as int),
{
    proof {
        let y = year as int;
        assert(y % 25 == 0 ==> (y % 100 == 0 <==> y % 4 == 0));
        assert(y % 25 == 0 ==> (y % 400 == 0 <==> y % 16 == 0));
        assert(y % 100 == 0 ==> y % 25 == 0);
    }

    
    let d = if year % 25 != 0 { 4 } else { 16 };
    (year % d) == 0
}

// @fn days_in_year @src crates/jiff-static/src/shared/util/itime.rs:735
#[verifier::spinoff_prover]

pub const fn days_in_year(year: i16) -> (r: i16)
    ensures
        r == diy(year as int),
{
    if is_leap_year(year) {
        366
    } else {
        365
    }
}

// @fn days_in_month @src crates/jiff-static/src/shared/util/itime.rs:745
#[verifier::spinoff_prover]

pub const fn days_in_month(year: i16, month: i8) -> (r: i8)
    requires
        1 <= month <= 12,
    ensures
        r == dim(year as int, month as int),
{
    proof {
        assert(1 <= month <= 12 && month != 2 ==> (30 | (month ^ month >> 3)) == (if month == 4 || month == 6 || month == 9 || month == 11 { 30i8 } else { 31i8 })) by (bit_vector);
    }

    
    if month == 2 {
        if is_leap_year(year) {
            29
        } else {
            28
        }
    } else {
        30 | (month ^ month >> 3)
    }
}

#[derive(Clone, Copy, Debug)] pub struct PosixTimeZone {
    pub std_abbrev: Abbrev,
    pub std_offset: PosixOffset,
    pub dst: Option<PosixDst>,
}

#[derive(Clone, Copy, Debug)] pub struct PosixDst {
    pub abbrev: Abbrev,
    pub offset: PosixOffset,
    pub rule: PosixRule,
}

#[derive(Clone, Copy, Debug, Eq, PartialEq, Structural)]
pub struct PosixRule {
    pub start: PosixDayTime,
    pub end: PosixDayTime,
}

#[derive(Clone, Copy, Debug, Eq, PartialEq, Structural)]
pub struct PosixDayTime {
    pub date: PosixDay,
    pub time: PosixTime,
}

#[derive(Clone, Copy, Debug, Eq, PartialEq, Structural)]
pub enum PosixDay {
    
    
    
    JulianOne(i16),
    
    
    
    JulianZero(i16),
    
    WeekdayOfMonth {
        
        
        
        month: i8,
        
        
        
        
        
        
        
        
        week: i8,
        
        
        
        weekday: i8,
    },
}

#[derive(Clone, Copy, Debug, Eq, PartialEq, Structural)]
pub struct PosixTime {
    pub second: i32,
}

#[derive(Clone, Copy, Debug, Eq, PartialEq, Structural)]
pub struct PosixOffset {
    pub second: i32,
}

#[derive(Debug)] pub struct DstInfo<'a> {
    
    pub dst: &'a PosixDst,
    
    
    
    
    
    
    
    
    pub start: IDateTime,
    
    
    
    
    
    
    
    
    pub end: IDateTime,
}

impl PosixOffset {
// @fn PosixOffset::to_ioffset @src crates/jiff-static/src/shared/posix.rs:465
#[verifier::spinoff_prover]
pub fn to_ioffset(&self) -> (r: IOffset)
    ensures
        r.second == self.second,
{
        IOffset { second: self.second }
    }
}

impl<'a> DstInfo<'a> {
// @fn DstInfo::in_dst @src crates/jiff-static/src/shared/posix.rs:540
#[verifier::spinoff_prover]
pub fn in_dst(&self, utc_dt: IDateTime) -> (r: bool)
    ensures
        r == in_dst_spec(self.start, self.end, utc_dt),
{
        if self.start <= self.end {
            self.start <= utc_dt && utc_dt < self.end
        } else {
            !(self.end <= utc_dt && utc_dt < self.start)
        }
    }
}

impl<'a> DstInfo<'a> {
// @fn DstInfo::ordered @src crates/jiff-static/src/shared/posix.rs:549
#[verifier::spinoff_prover]
pub fn ordered(&self) -> (r: (IDateTime, IDateTime))
    ensures
        r == ordered_spec(self.start, self.end),
{
        if self.start <= self.end {
            (self.start, self.end)
        } else {
            (self.end, self.start)
        }
    }
}

impl<'a> DstInfo<'a> {
// @fn DstInfo::offset @src crates/jiff-static/src/shared/posix.rs:558
#[verifier::spinoff_prover]
pub fn offset(&self) -> (r: &PosixOffset)
    ensures
        *r == self.dst.offset,
{
        &self.dst.offset
    }
}

impl PosixDay {
// @fn PosixDay::to_date @src crates/jiff-static/src/shared/posix.rs:374
#[verifier::spinoff_prover]
pub fn to_date(&self, year: i16) -> (r: Option<IDate>)
    requires
        self.wf(), -9999 <= year <= 9999,
    ensures
        match r {
        Some(d) => d.wf() && d.year == year && self.spec_rd(year as int) == Some(d.rd()),
        None => self.spec_rd(year as int) is None,
    },
    // Jn never yields February 29
    self is JulianOne ==> r is Some && !(r->0.month == 2 && r->0.day == 29),
    // Mm.w.d: in that month, on that weekday, and it is the w-th one (w = 5: the last one)
    match *self {
        PosixDay::WeekdayOfMonth { month, week, weekday } => r is Some && r->0.month == month
            && wd(r->0.rd()) == iso_of_posix_wd(weekday as int)
            && (week <= 4 ==> (week - 1) * 7 < r->0.day <= week * 7)
            && (week == 5 ==> dim(year as int, month as int) - 7 < r->0.day <= dim(year as int, month as int)),
        _ => true,
    },
{
        match *self {
            PosixDay::JulianOne(day) => {
                
                
                
                Some(
                    IDate::from_day_of_year_no_leap(year, day)
                        .expect("Julian `J day` should be in bounds"),
                )
            }
            PosixDay::JulianZero(day) => {
                
                
                
                
                
                
                
                
                
                IDate::from_day_of_year(year, day + 1).ok()
            }
            PosixDay::WeekdayOfMonth { month, week, weekday } => {
                let weekday = IWeekday::from_sunday_zero_offset(weekday);
                let first = IDate { year, month, day: 1 };
                let week = if week == 5 { -1 } else { week };
                proof {
                    lemma_nth_day(year as int, month as int, weekday.offset as int, if week > 0 { week as int - 1 } else { 0 });
                }

                { let verif_da: bool = week == -1 || (1..=4).contains(&week); assert(verif_da); };
                
                
                
                
                
                
                
                
                
                
                
                
                
                
                { let verif_d = first.nth_weekday_of_month(week, weekday).expect("nth weekday always exists"); proof { lemma_mwd(year as int, month as int, weekday.offset as int, week as int, verif_d.day as int); } Some(verif_d) }
            }
        }
    }
}

impl PosixDayTime {
// @fn PosixDayTime::to_datetime @src crates/jiff-static/src/shared/posix.rs:322
#[verifier::spinoff_prover]
pub fn to_datetime(&self, year: i16, offset: IOffset) -> (r: IDateTime)
    requires
        self.wf(), -9999 <= year <= 9999, -93599 <= offset.second <= 93599,
    ensures
        dt_wf(r), r.date.year == year,
    match self.spec_loc(year as int, offset.second as int) {
        // the nominal transition, when it falls inside the year ...
        Some(t) => if t < year_lo(year as int) { r == year_first(year) }
                   else if t >= year_hi(year as int) { r == year_last(year) }
                   else { loc(r) == t && r.time.subsec_nanosecond == 0 },
        // ... else clamped to the year (also when the rule names no day of this year)
        None => r == year_last(year),
    },
    r == self.spec_datetime(year, offset.second as int),
{
        proof { lemma_year_ends(year); }

        let mkmin = || -> (m: IDateTime) ensures m == year_first(year) { IDateTime {
            date: IDate { year, month: 1, day: 1 },
            time: ITime::MIN,
        } };
        let mkmax = || -> (m: IDateTime) ensures m == year_last(year) { IDateTime {
            date: IDate { year, month: 12, day: 31 },
            time: ITime::MAX,
        } };
        let Some(date) = self.date.to_date(year) else { return mkmax() };
        
        
        
        let offset = self.time.second - offset.second;
        
        
        let days = offset.div_euclid(86400);
        let ghost verif_rd0 = date.rd();

        let second = offset.rem_euclid(86400);

        let Ok(date) = date.checked_add_days(days) else {
            return if offset < 0 { mkmin() } else { mkmax() };
        };
        proof { lemma_date_vs_year(date, year as int); }

        if date.year < year {
            mkmin()
        } else if date.year > year {
            mkmax()
        } else {
            let time = ITimeSecond { second }.to_time();
        proof { lemma_key_loc(IDateTime { date, time }); lemma_dt_of_key(IDateTime { date, time }); }

            IDateTime { date, time }
        }
    }
}

impl PosixTimeZone {
// @fn PosixTimeZone::dst_info_utc @src crates/jiff-static/src/shared/posix.rs:235
#[verifier::spinoff_prover]
pub fn dst_info_utc(&self, year: i16) -> (r: Option<DstInfo<'_>>)
    requires
        self.wf(), -9999 <= year <= 9999,
    ensures
        r is Some <==> self.dst is Some,
    r is Some ==> *r->0.dst == self.dst->0 && r->0.start == self.utc_start(year) && r->0.end == self.utc_end(year)
        && dt_wf(r->0.start) && dt_wf(r->0.end) && r->0.start.date.year == year && r->0.end.date.year == year,
{
        let dst = self.dst.as_ref()?;
        
        
        let start =
            dst.rule.start.to_datetime(year, self.std_offset.to_ioffset());
        
        
        let end = dst.rule.end.to_datetime(year, dst.offset.to_ioffset());
        Some(DstInfo { dst, start, end })
    }
}

impl PosixTimeZone {
// @fn PosixTimeZone::dst_info_wall @src crates/jiff-static/src/shared/posix.rs:252
#[verifier::spinoff_prover]
pub fn dst_info_wall(&self, year: i16) -> (r: Option<DstInfo<'_>>)
    requires
        self.wf(), -9999 <= year <= 9999,
    ensures
        r is Some <==> self.dst is Some,
    r is Some ==> *r->0.dst == self.dst->0 && r->0.start == self.wall_start(year) && r->0.end == self.wall_end(year)
        && dt_wf(r->0.start) && dt_wf(r->0.end) && r->0.start.date.year == year && r->0.end.date.year == year,
{
        let dst = self.dst.as_ref()?;
        
        
        
        let start = dst.rule.start.to_datetime(year, IOffset::UTC);
        let end = dst.rule.end.to_datetime(year, IOffset::UTC);
        Some(DstInfo { dst, start, end })
    }
}

impl PosixTimeZone {
// @fn PosixTimeZone::to_offset @src crates/jiff-static/src/shared/posix.rs:39
#[verifier::spinoff_prover]
pub fn to_offset(&self, timestamp: ITimestamp) -> (r: IOffset)
    requires
        self.wf(), ts_wf(timestamp),
    ensures
        r.second == self.offset_of(self.dst_at(timestamp)),
{
        let std_offset = self.std_offset.to_ioffset();
        if self.dst.is_none() {
            return std_offset;
        }

        let dt = timestamp.to_datetime(IOffset::UTC);
        proof { lemma_dt_of_key(dt); }

        self.dst_info_utc(dt.date.year)
            .filter(|dst_info: &DstInfo<'_>| -> (b: bool) ensures b == in_dst_spec(dst_info.start, dst_info.end, dt) { dst_info.in_dst(dt) })
            .map(|dst_info: DstInfo<'_>| -> (o: IOffset) ensures o.second == dst_info.dst.offset.second { dst_info.offset().to_ioffset() })
            .unwrap_or_else(|| -> (o: IOffset) ensures o == std_offset { std_offset })
    }
}

impl PosixTimeZone {
// @fn PosixTimeZone::to_offset_info @src crates/jiff-static/src/shared/posix.rs:58
#[verifier::spinoff_prover]
pub fn to_offset_info(
        &self,
        timestamp: ITimestamp,
    ) -> (r: (IOffset, &'_ str, bool))
    requires
        self.wf(), ts_wf(timestamp),
    ensures
        r.2 == self.dst_at(timestamp),
    r.0.second == self.offset_of(self.dst_at(timestamp)),
    r.1@ == self.abbrev_of(self.dst_at(timestamp)),
{
        let std_offset = self.std_offset.to_ioffset();
        if self.dst.is_none() {
            return (std_offset, self.std_abbrev.as_ref(), false);
        }

        let dt = timestamp.to_datetime(IOffset::UTC);
        proof { lemma_dt_of_key(dt); }

        self.dst_info_utc(dt.date.year)
            .filter(|dst_info: &DstInfo<'_>| -> (b: bool) ensures b == in_dst_spec(dst_info.start, dst_info.end, dt) { dst_info.in_dst(dt) })
            .map(|dst_info: DstInfo<'_>| -> (o: (IOffset, &str, bool)) ensures o.0.second == dst_info.dst.offset.second, o.1@ == dst_info.dst.abbrev.text(), o.2 == true {
                (
                    dst_info.offset().to_ioffset(),
                    dst_info.dst.abbrev.as_ref(),
                    true,
                )
            })
            .unwrap_or_else(|| -> (o: (IOffset, &str, bool)) ensures o.0 == std_offset, o.1@ == self.std_abbrev.text(), o.2 == false { (std_offset, self.std_abbrev.as_ref(), false) })
    }
}

impl PosixTimeZone {
// @fn PosixTimeZone::to_ambiguous_kind @src crates/jiff-static/src/shared/posix.rs:91
#[verifier::spinoff_prover]
pub fn to_ambiguous_kind(&self, dt: IDateTime) -> (r: IAmbiguousOffset)
    requires
        self.wf(), dt_wf(dt),
    // data assumption, see wall_sep
    self.wall_sep(dt.date.year),
    // carve-out: at the very last representable civil datetime the saturated window end IDateTime::MAX is not
    // strictly above dt although the exact window end is (reported as a finding)
    dt != IDateTime::MAX,
    ensures
        r == self.amb_spec(dt),
{
        hide(key); hide(loc); hide(shift); hide(sat_add_post); hide(rd);

        let year = dt.date.year;
        let std_offset = self.std_offset.to_ioffset();
        let Some(dst_info) = self.dst_info_wall(year) else {
            return IAmbiguousOffset::Unambiguous { offset: std_offset };
        };
        proof {
            lemma_dt_order(dst_info.start, dst_info.end);
            lemma_dt_order(dst_info.start, dt); lemma_dt_order(dt, dst_info.start);
            lemma_dt_order(dst_info.end, dt); lemma_dt_order(dt, dst_info.end);
        }

        let dst_offset = dst_info.offset().to_ioffset();
        let diff = dst_offset.second - std_offset.second;
        
        
        
        
        
        
        
        
        
        
        
        
        
        
        if diff == 0 {
            { let verif_da: bool = (std_offset) == (dst_offset); assert(verif_da); };
            IAmbiguousOffset::Unambiguous { offset: std_offset }
        } else if diff.is_negative() {
            
            
            
            if dst_info.in_dst(dt) {
                IAmbiguousOffset::Unambiguous { offset: dst_offset }
            } else {
                let fold_start = dst_info.start.saturating_add_seconds(diff);
                let gap_end =
                    dst_info.end.saturating_add_seconds(diff.saturating_neg());
                proof {
                    lemma_sat_shift(dst_info.start, diff as int, fold_start, dt);
                    lemma_sat_shift(dst_info.end, -(diff as int), gap_end, dt);
                }

                if fold_start <= dt && dt < dst_info.start {
                    IAmbiguousOffset::Fold {
                        before: std_offset,
                        after: dst_offset,
                    }
                } else if dst_info.end <= dt && dt < gap_end {
                    IAmbiguousOffset::Gap {
                        before: dst_offset,
                        after: std_offset,
                    }
                } else {
                    IAmbiguousOffset::Unambiguous { offset: std_offset }
                }
            }
        } else {
            
            
            
            if !dst_info.in_dst(dt) {
                IAmbiguousOffset::Unambiguous { offset: std_offset }
            } else {
                
                
                
                
                let gap_end = dst_info.start.saturating_add_seconds(diff);
                let fold_start =
                    dst_info.end.saturating_add_seconds(diff.saturating_neg());
                proof {
                    lemma_sat_shift(dst_info.start, diff as int, gap_end, dt);
                    lemma_sat_shift(dst_info.end, -(diff as int), fold_start, dt);
                }

                if dst_info.start <= dt && dt < gap_end {
                    IAmbiguousOffset::Gap {
                        before: std_offset,
                        after: dst_offset,
                    }
                } else if fold_start <= dt && dt < dst_info.end {
                    IAmbiguousOffset::Fold {
                        before: dst_offset,
                        after: std_offset,
                    }
                } else {
                    IAmbiguousOffset::Unambiguous { offset: dst_offset }
                }
            }
        }
    }
}

impl PosixTimeZone {
// @fn PosixTimeZone::previous_transition @src crates/jiff-static/src/shared/posix.rs:173
#[verifier::spinoff_prover]
pub fn previous_transition(
        &self,
        timestamp: ITimestamp,
    ) -> (r: Option<(ITimestamp, IOffset, &'_ str, bool)>)
    requires
        self.wf(), ts_wf(timestamp),
    ensures
        match self.prev_cand(utc_dt(timestamp)) {
        None => r is None,
        Some((c, cy)) => self.trans_post(c, cy, r) && dt_lt(c, utc_dt(timestamp)),
    },
    // strictly before the given instant
    r is Some ==> ts_key((r->0).0) < ts_key(timestamp),
{
        hide(rd); hide(valid_ymd); hide(IDate::cmp_spec); hide(ITime::cmp_spec);
        let ghost verif_ts = timestamp;

        let dt = timestamp.to_datetime(IOffset::UTC);
        proof { lemma_dt_of_key(dt); }
        let ghost verif_dt = dt;

        let dst_info = self.dst_info_utc(dt.date.year)?;
        let (earlier, later) = dst_info.ordered();
        proof { lemma_dt_order(dt, later); lemma_dt_order(dt, earlier); }

        let (prev, dst_info) = if dt > later {
            (later, dst_info)
        } else if dt > earlier {
            (earlier, dst_info)
        } else {
            let prev_year = dt.date.prev_year().ok()?;
            let dst_info = self.dst_info_utc(prev_year)?;
            let (_, later) = dst_info.ordered();
            (later, dst_info)
        };
        let ghost verif_cy = prev.date.year;
        proof {
            assert(self.prev_cand(verif_dt) == Some((prev, verif_cy)));
            assert(dst_info.start == self.utc_start(verif_cy) && dst_info.end == self.utc_end(verif_cy));
            lemma_dt_order(prev, verif_dt);
            lemma_year_lt(prev, verif_dt);
            assert(dt_lt(prev, verif_dt));
        }


        let timestamp = prev.to_timestamp_checked(IOffset::UTC)?;
        proof { lemma_dt_of_key(prev); }

        let dt = timestamp.to_datetime(IOffset::UTC);
        proof { lemma_dt_order(dt, prev); }

        let (offset, abbrev, dst) = if dst_info.in_dst(dt) {
            (dst_info.offset(), dst_info.dst.abbrev.as_ref(), true)
        } else {
            (&self.std_offset, self.std_abbrev.as_ref(), false)
        };
        Some((timestamp, offset.to_ioffset(), abbrev, dst))
    }
}

impl PosixTimeZone {
// @fn PosixTimeZone::next_transition @src crates/jiff-static/src/shared/posix.rs:203
#[verifier::spinoff_prover]
pub fn next_transition(
        &self,
        timestamp: ITimestamp,
    ) -> (r: Option<(ITimestamp, IOffset, &'_ str, bool)>)
    requires
        self.wf(), ts_wf(timestamp),
    ensures
        match self.next_cand(utc_dt(timestamp)) {
        None => r is None,
        Some((c, cy)) => self.trans_post(c, cy, r) && dt_lt(utc_dt(timestamp), c),
    },
    // strictly after the given instant
    r is Some ==> ts_key((r->0).0) > ts_key(timestamp),
{
        hide(rd); hide(valid_ymd); hide(IDate::cmp_spec); hide(ITime::cmp_spec);
        let ghost verif_ts = timestamp;

        let dt = timestamp.to_datetime(IOffset::UTC);
        proof { lemma_dt_of_key(dt); }
        let ghost verif_dt = dt;

        let dst_info = self.dst_info_utc(dt.date.year)?;
        let (earlier, later) = dst_info.ordered();
        proof { lemma_dt_order(dt, later); lemma_dt_order(dt, earlier); }

        let (next, dst_info) = if dt < earlier {
            (earlier, dst_info)
        } else if dt < later {
            (later, dst_info)
        } else {
            let next_year = dt.date.next_year().ok()?;
            let dst_info = self.dst_info_utc(next_year)?;
            let (earlier, _) = dst_info.ordered();
            (earlier, dst_info)
        };
        let ghost verif_cy = next.date.year;
        proof {
            assert(self.next_cand(verif_dt) == Some((next, verif_cy)));
            assert(dst_info.start == self.utc_start(verif_cy) && dst_info.end == self.utc_end(verif_cy));
            lemma_dt_order(verif_dt, next);
            lemma_year_lt(verif_dt, next);
            assert(dt_lt(verif_dt, next));
        }


        let timestamp = next.to_timestamp_checked(IOffset::UTC)?;
        proof { lemma_dt_of_key(next); }

        let dt = timestamp.to_datetime(IOffset::UTC);
        proof { lemma_dt_order(dt, next); }

        let (offset, abbrev, dst) = if dst_info.in_dst(dt) {
            (dst_info.offset(), dst_info.dst.abbrev.as_ref(), true)
        } else {
            (&self.std_offset, self.std_abbrev.as_ref(), false)
        };
        Some((timestamp, offset.to_ioffset(), abbrev, dst))
    }
}

// ==== end extracted ====

// ---- C02, "converting that civil datetime back with o yields exactly t": the two conversion contracts compose to the identity
#[verifier::spinoff_prover]
pub proof fn lemma_day_decomp_unique(a1: int, n1: int, a2: int, n2: int)
    requires a1 * 86_400_000_000_000 + n1 == a2 * 86_400_000_000_000 + n2, 0 <= n1 < 86_400_000_000_000, 0 <= n2 < 86_400_000_000_000,
    ensures a1 == a2, n1 == n2,
{
    if a1 < a2 { assert((a2 - a1) * 86_400_000_000_000 >= 86_400_000_000_000) by (nonlinear_arith) requires a2 - a1 >= 1; }
    if a2 < a1 { assert((a1 - a2) * 86_400_000_000_000 >= 86_400_000_000_000) by (nonlinear_arith) requires a1 - a2 >= 1; }
}
#[verifier::spinoff_prover]
pub proof fn lemma_time_unique(t1: ITime, t2: ITime)
    requires t1.wf(), t2.wf(), t1.ns_of_day() == t2.ns_of_day(),
    ensures t1 == t2,
{
    let s1 = t1.hour * 3600 + t1.minute * 60 + t1.second; let s2 = t2.hour * 3600 + t2.minute * 60 + t2.second;
    assert(t1.ns_of_day() == s1 * 1_000_000_000 + t1.subsec_nanosecond);
    assert(t2.ns_of_day() == s2 * 1_000_000_000 + t2.subsec_nanosecond);
    if s1 < s2 { assert((s2 - s1) * 1_000_000_000 >= 1_000_000_000) by (nonlinear_arith) requires s2 - s1 >= 1; }
    if s2 < s1 { assert((s1 - s2) * 1_000_000_000 >= 1_000_000_000) by (nonlinear_arith) requires s1 - s2 >= 1; }
    assert(s1 == s2 && t1.subsec_nanosecond == t2.subsec_nanosecond);
    let m1 = t1.hour * 60 + t1.minute; let m2 = t2.hour * 60 + t2.minute;
    assert(s1 == m1 * 60 + t1.second && s2 == m2 * 60 + t2.second);
    assert(m1 == m2 && t1.second == t2.second);
    assert(t1.hour == t2.hour && t1.minute == t2.minute);
}
/// datetime -> timestamp -> datetime is the identity, and timestamp -> datetime -> timestamp keeps the instant
#[verifier::spinoff_prover]
pub proof fn lemma_c02_roundtrip(dt: IDateTime, off: int, sec: int, ns: int, dt2: IDateTime)
    requires dt.date.wf(), dt.time.wf(), dt2.date.wf(), dt2.time.wf(),
             // postcondition of IDateTime::to_timestamp(dt, off) = (sec, ns)
             sec * 1_000_000_000 + ns == dt.date.rd() * 86_400_000_000_000 + dt.time.ns_of_day() - off * 1_000_000_000,
             // postcondition of ITimestamp::to_datetime((sec, ns), off) = dt2
             dt2.date.rd() * 86_400_000_000_000 + dt2.time.ns_of_day() == (sec + off) * 1_000_000_000 + ns,
    ensures dt2 == dt,
{
    assert((sec + off) * 1_000_000_000 == sec * 1_000_000_000 + off * 1_000_000_000) by (nonlinear_arith);
    lemma_day_decomp_unique(dt.date.rd(), dt.time.ns_of_day(), dt2.date.rd(), dt2.time.ns_of_day());
    lemma_rd_inj(dt.date.year as int, dt.date.month as int, dt.date.day as int, dt2.date.year as int, dt2.date.month as int, dt2.date.day as int);
    lemma_time_unique(dt.time, dt2.time);
}
} // verus!
fn main() {}
