#![allow(unused, non_snake_case, non_upper_case_globals)]
use vstd::prelude::*;
verus! {
// ---- include lib/stdspecs.vrs ----
// Specifications of core integer methods that vstd 0.2026.09.13 does not provide (trusted; each mirrors the std documentation).
// Included by every unit so that an edited body that starts using one of them is still decided.
pub assume_specification[ i8::div_euclid ](x: i8, y: i8) -> (r: i8) requires y != 0, !(x == i8::MIN && y == -1), ensures y > 0 ==> r as int == (x as int) / (y as int);
pub assume_specification[ i8::rem_euclid ](x: i8, y: i8) -> (r: i8) requires y != 0, !(x == i8::MIN && y == -1), ensures y > 0 ==> r as int == (x as int) % (y as int), y < 0 ==> r as int == (x as int) % (-(y as int));
pub assume_specification[ i8::abs ](x: i8) -> (r: i8) requires x != i8::MIN, ensures r as int == (if x < 0 { -(x as int) } else { x as int });
pub assume_specification[ i8::signum ](x: i8) -> (r: i8) ensures r == (if x > 0 { 1int } else if x < 0 { -1int } else { 0int });
pub assume_specification[ i8::is_positive ](x: i8) -> (r: bool) ensures r == (x > 0);
pub assume_specification[ i8::is_negative ](x: i8) -> (r: bool) ensures r == (x < 0);
pub assume_specification[ i8::checked_neg ](x: i8) -> (r: Option<i8>) ensures x == i8::MIN ==> r.is_none(), x != i8::MIN ==> r == Some((-x) as i8);
pub assume_specification[ i8::saturating_add ](x: i8, y: i8) -> (r: i8) ensures i8::MIN <= x + y <= i8::MAX ==> r == x + y, x + y > i8::MAX ==> r == i8::MAX, x + y < i8::MIN ==> r == i8::MIN;
pub assume_specification[ i8::saturating_sub ](x: i8, y: i8) -> (r: i8) ensures i8::MIN <= x - y <= i8::MAX ==> r == x - y, x - y > i8::MAX ==> r == i8::MAX, x - y < i8::MIN ==> r == i8::MIN;
pub assume_specification[ i8::saturating_neg ](x: i8) -> (r: i8) ensures x == i8::MIN ==> r == i8::MAX, x != i8::MIN ==> r == -x;
pub assume_specification[ i8::unsigned_abs ](x: i8) -> (r: u8) ensures r as int == (if x < 0 { -(x as int) } else { x as int });
pub assume_specification[ i8::checked_abs ](x: i8) -> (r: Option<i8>) ensures x == i8::MIN ==> r.is_none(), x != i8::MIN ==> r == Some((if x < 0 { -x } else { x as int }) as i8);
pub assume_specification[ i16::div_euclid ](x: i16, y: i16) -> (r: i16) requires y != 0, !(x == i16::MIN && y == -1), ensures y > 0 ==> r as int == (x as int) / (y as int);
pub assume_specification[ i16::rem_euclid ](x: i16, y: i16) -> (r: i16) requires y != 0, !(x == i16::MIN && y == -1), ensures y > 0 ==> r as int == (x as int) % (y as int), y < 0 ==> r as int == (x as int) % (-(y as int));
pub assume_specification[ i16::abs ](x: i16) -> (r: i16) requires x != i16::MIN, ensures r as int == (if x < 0 { -(x as int) } else { x as int });
pub assume_specification[ i16::signum ](x: i16) -> (r: i16) ensures r == (if x > 0 { 1int } else if x < 0 { -1int } else { 0int });
pub assume_specification[ i16::is_positive ](x: i16) -> (r: bool) ensures r == (x > 0);
pub assume_specification[ i16::is_negative ](x: i16) -> (r: bool) ensures r == (x < 0);
pub assume_specification[ i16::checked_neg ](x: i16) -> (r: Option<i16>) ensures x == i16::MIN ==> r.is_none(), x != i16::MIN ==> r == Some((-x) as i16);
pub assume_specification[ i16::saturating_add ](x: i16, y: i16) -> (r: i16) ensures i16::MIN <= x + y <= i16::MAX ==> r == x + y, x + y > i16::MAX ==> r == i16::MAX, x + y < i16::MIN ==> r == i16::MIN;
pub assume_specification[ i16::saturating_sub ](x: i16, y: i16) -> (r: i16) ensures i16::MIN <= x - y <= i16::MAX ==> r == x - y, x - y > i16::MAX ==> r == i16::MAX, x - y < i16::MIN ==> r == i16::MIN;
pub assume_specification[ i16::saturating_neg ](x: i16) -> (r: i16) ensures x == i16::MIN ==> r == i16::MAX, x != i16::MIN ==> r == -x;
pub assume_specification[ i16::unsigned_abs ](x: i16) -> (r: u16) ensures r as int == (if x < 0 { -(x as int) } else { x as int });
pub assume_specification[ i16::checked_abs ](x: i16) -> (r: Option<i16>) ensures x == i16::MIN ==> r.is_none(), x != i16::MIN ==> r == Some((if x < 0 { -x } else { x as int }) as i16);
pub assume_specification[ i32::div_euclid ](x: i32, y: i32) -> (r: i32) requires y != 0, !(x == i32::MIN && y == -1), ensures y > 0 ==> r as int == (x as int) / (y as int);
pub assume_specification[ i32::rem_euclid ](x: i32, y: i32) -> (r: i32) requires y != 0, !(x == i32::MIN && y == -1), ensures y > 0 ==> r as int == (x as int) % (y as int), y < 0 ==> r as int == (x as int) % (-(y as int));
pub assume_specification[ i32::abs ](x: i32) -> (r: i32) requires x != i32::MIN, ensures r as int == (if x < 0 { -(x as int) } else { x as int });
pub assume_specification[ i32::signum ](x: i32) -> (r: i32) ensures r == (if x > 0 { 1int } else if x < 0 { -1int } else { 0int });
pub assume_specification[ i32::is_positive ](x: i32) -> (r: bool) ensures r == (x > 0);
pub assume_specification[ i32::is_negative ](x: i32) -> (r: bool) ensures r == (x < 0);
pub assume_specification[ i32::checked_neg ](x: i32) -> (r: Option<i32>) ensures x == i32::MIN ==> r.is_none(), x != i32::MIN ==> r == Some((-x) as i32);
pub assume_specification[ i32::saturating_add ](x: i32, y: i32) -> (r: i32) ensures i32::MIN <= x + y <= i32::MAX ==> r == x + y, x + y > i32::MAX ==> r == i32::MAX, x + y < i32::MIN ==> r == i32::MIN;
pub assume_specification[ i32::saturating_sub ](x: i32, y: i32) -> (r: i32) ensures i32::MIN <= x - y <= i32::MAX ==> r == x - y, x - y > i32::MAX ==> r == i32::MAX, x - y < i32::MIN ==> r == i32::MIN;
pub assume_specification[ i32::saturating_neg ](x: i32) -> (r: i32) ensures x == i32::MIN ==> r == i32::MAX, x != i32::MIN ==> r == -x;
pub assume_specification[ i32::unsigned_abs ](x: i32) -> (r: u32) ensures r as int == (if x < 0 { -(x as int) } else { x as int });
pub assume_specification[ i32::checked_abs ](x: i32) -> (r: Option<i32>) ensures x == i32::MIN ==> r.is_none(), x != i32::MIN ==> r == Some((if x < 0 { -x } else { x as int }) as i32);
pub assume_specification[ i64::div_euclid ](x: i64, y: i64) -> (r: i64) requires y != 0, !(x == i64::MIN && y == -1), ensures y > 0 ==> r as int == (x as int) / (y as int);
pub assume_specification[ i64::rem_euclid ](x: i64, y: i64) -> (r: i64) requires y != 0, !(x == i64::MIN && y == -1), ensures y > 0 ==> r as int == (x as int) % (y as int), y < 0 ==> r as int == (x as int) % (-(y as int));
pub assume_specification[ i64::abs ](x: i64) -> (r: i64) requires x != i64::MIN, ensures r as int == (if x < 0 { -(x as int) } else { x as int });
pub assume_specification[ i64::signum ](x: i64) -> (r: i64) ensures r == (if x > 0 { 1int } else if x < 0 { -1int } else { 0int });
pub assume_specification[ i64::is_positive ](x: i64) -> (r: bool) ensures r == (x > 0);
pub assume_specification[ i64::is_negative ](x: i64) -> (r: bool) ensures r == (x < 0);
pub assume_specification[ i64::checked_neg ](x: i64) -> (r: Option<i64>) ensures x == i64::MIN ==> r.is_none(), x != i64::MIN ==> r == Some((-x) as i64);
pub assume_specification[ i64::saturating_add ](x: i64, y: i64) -> (r: i64) ensures i64::MIN <= x + y <= i64::MAX ==> r == x + y, x + y > i64::MAX ==> r == i64::MAX, x + y < i64::MIN ==> r == i64::MIN;
pub assume_specification[ i64::saturating_sub ](x: i64, y: i64) -> (r: i64) ensures i64::MIN <= x - y <= i64::MAX ==> r == x - y, x - y > i64::MAX ==> r == i64::MAX, x - y < i64::MIN ==> r == i64::MIN;
pub assume_specification[ i64::saturating_neg ](x: i64) -> (r: i64) ensures x == i64::MIN ==> r == i64::MAX, x != i64::MIN ==> r == -x;
pub assume_specification[ i64::unsigned_abs ](x: i64) -> (r: u64) ensures r as int == (if x < 0 { -(x as int) } else { x as int });
pub assume_specification[ i64::checked_abs ](x: i64) -> (r: Option<i64>) ensures x == i64::MIN ==> r.is_none(), x != i64::MIN ==> r == Some((if x < 0 { -x } else { x as int }) as i64);
pub assume_specification[ i128::div_euclid ](x: i128, y: i128) -> (r: i128) requires y != 0, !(x == i128::MIN && y == -1), ensures y > 0 ==> r as int == (x as int) / (y as int);
pub assume_specification[ i128::rem_euclid ](x: i128, y: i128) -> (r: i128) requires y != 0, !(x == i128::MIN && y == -1), ensures y > 0 ==> r as int == (x as int) % (y as int), y < 0 ==> r as int == (x as int) % (-(y as int));
pub assume_specification[ i128::abs ](x: i128) -> (r: i128) requires x != i128::MIN, ensures r as int == (if x < 0 { -(x as int) } else { x as int });
pub assume_specification[ i128::signum ](x: i128) -> (r: i128) ensures r == (if x > 0 { 1int } else if x < 0 { -1int } else { 0int });
pub assume_specification[ i128::is_positive ](x: i128) -> (r: bool) ensures r == (x > 0);
pub assume_specification[ i128::is_negative ](x: i128) -> (r: bool) ensures r == (x < 0);
pub assume_specification[ i128::checked_neg ](x: i128) -> (r: Option<i128>) ensures x == i128::MIN ==> r.is_none(), x != i128::MIN ==> r == Some((-x) as i128);
pub assume_specification[ i128::saturating_add ](x: i128, y: i128) -> (r: i128) ensures i128::MIN <= x + y <= i128::MAX ==> r == x + y, x + y > i128::MAX ==> r == i128::MAX, x + y < i128::MIN ==> r == i128::MIN;
pub assume_specification[ i128::saturating_sub ](x: i128, y: i128) -> (r: i128) ensures i128::MIN <= x - y <= i128::MAX ==> r == x - y, x - y > i128::MAX ==> r == i128::MAX, x - y < i128::MIN ==> r == i128::MIN;
pub assume_specification[ i128::saturating_neg ](x: i128) -> (r: i128) ensures x == i128::MIN ==> r == i128::MAX, x != i128::MIN ==> r == -x;
pub assume_specification[ i128::unsigned_abs ](x: i128) -> (r: u128) ensures r as int == (if x < 0 { -(x as int) } else { x as int });
pub assume_specification[ i128::checked_abs ](x: i128) -> (r: Option<i128>) ensures x == i128::MIN ==> r.is_none(), x != i128::MIN ==> r == Some((if x < 0 { -x } else { x as int }) as i128);

// ---- include lib/rangeint.vrs ----
// GENERATED by lib/gen_rangeint.py -- the rangeint model (T2).  Do not edit by hand.
use vstd::std_specs::cmp::*;
use vstd::std_specs::ops::*;
use core::cmp::Ordering;

#[derive(Clone, Copy)]
pub struct Constant(pub i64);
#[allow(non_snake_case)]
pub fn C(v: i64) -> (r: ri64) ensures r.val == v { ri64 { val: v } }
#[allow(non_snake_case)]
pub fn C128(v: i64) -> (r: ri128) ensures r.val == v { ri128 { val: v as i128 } }
impl Constant {
    pub fn value(self) -> (r: i64) ensures r == self.0 { self.0 }
    pub fn bound(self) -> (r: i128) ensures r == self.0 { self.0 as i128 }
}
pub open spec fn int_cmp(a: int, b: int) -> Ordering { if a < b { Ordering::Less } else if a > b { Ordering::Greater } else { Ordering::Equal } }
/// truncating division / remainder (Rust `/`, `%` on primitives), b != 0
pub open spec fn tdiv(a: int, b: int) -> int {
    if b > 0 { if a >= 0 { a / b } else { -((-a) / b) } } else { if a >= 0 { -(a / (-b)) } else { (-a) / (-b) } }
}
pub open spec fn trem(a: int, b: int) -> int { a - tdiv(a, b) * b }

pub trait RInto<T>: Sized {
    spec fn rinto_spec(self) -> T;
    spec fn rinto_req(self) -> bool;
    fn rinto(self) -> (r: T) requires self.rinto_req() ensures r == self.rinto_spec();
}
pub trait RFrom<T>: Sized {
    spec fn rfrom_spec(t: T) -> Self;
    spec fn rfrom_req(t: T) -> bool;
    fn rfrom(t: T) -> (r: Self) requires Self::rfrom_req(t) ensures r == Self::rfrom_spec(t);
}


// ------------------------------------------------------------------ ri8
#[derive(Clone, Copy)]
pub struct ri8 { pub val: i8 }
impl ri8 {
    pub fn new_unchecked(val: i8) -> (r: Self) ensures r.val == val { ri8 { val } }
    pub fn get(self) -> (r: i8) ensures r == self.val { self.val }
    pub fn get_unchecked(self) -> (r: i8) ensures r == self.val { self.val }
    pub fn without_bounds(self) -> (r: Self) ensures r == self { self }
    // `T::N::<VAL>()` is rewritten to `T::verif_N(VAL)`: the constant VAL (release: `Self { val: VAL }`, no bound is consulted).
    // (Not modelled with a const generic: Verus 0.2026.09.13 derives `false` from a negative const generic argument.)
    pub const fn verif_N(v: i8) -> (r: Self) ensures r.val == v { ri8 { val: v } }
    #[verifier::external_body]
    pub fn abs(self) -> (r: Self)
        requires self.val > i8::MIN,
        ensures r.val == (if self.val < 0 { -self.val } else { self.val as int })
    { unimplemented!() }
    // real: returns `riN<-1, 1>` of the SAME width
    pub fn signum(self) -> (r: Self) ensures r.val == (if self.val < 0 { -1int } else if self.val > 0 { 1int } else { 0int })
    { if self.val < 0 { ri8 { val: -1 } } else if self.val > 0 { ri8 { val: 1 } } else { ri8 { val: 0 } } }
    pub fn min<R: RInto<Self>>(self, other: R) -> (r: Self)
        requires other.rinto_req(),
        ensures r.val == (if other.rinto_spec().val < self.val { other.rinto_spec().val } else { self.val })
    { let o = other.rinto(); if o.val < self.val { o } else { self } }
    pub fn max<R: RInto<Self>>(self, other: R) -> (r: Self)
        requires other.rinto_req(),
        ensures r.val == (if other.rinto_spec().val > self.val { other.rinto_spec().val } else { self.val })
    { let o = other.rinto(); if o.val > self.val { o } else { self } }
    // truncating
    #[verifier::external_body]
    pub fn div_ceil<R: RInto<Self>>(self, rhs: R) -> (r: Self)
        requires rhs.rinto_req(), rhs.rinto_spec().val != 0, !(self.val == i8::MIN && rhs.rinto_spec().val == -1),
        ensures r.val == tdiv(self.val as int, rhs.rinto_spec().val as int)
    { unimplemented!() }
    #[verifier::external_body]
    pub fn rem_ceil<R: RInto<Self>>(self, rhs: R) -> (r: Self)
        requires rhs.rinto_req(), rhs.rinto_spec().val != 0, !(self.val == i8::MIN && rhs.rinto_spec().val == -1),
        ensures r.val == trem(self.val as int, rhs.rinto_spec().val as int)
    { unimplemented!() }
    // Euclidean (divisor > 0 required here; every use in jiff divides by a positive quantity)
    #[verifier::external_body]
    pub fn div_floor<R: RInto<Self>>(self, rhs: R) -> (r: Self)
        requires rhs.rinto_req(), rhs.rinto_spec().val > 0,
        ensures r.val == (self.val as int) / (rhs.rinto_spec().val as int)
    { unimplemented!() }
    #[verifier::external_body]
    pub fn rem_floor<R: RInto<Self>>(self, rhs: R) -> (r: Self)
        requires rhs.rinto_req(), rhs.rinto_spec().val > 0,
        ensures r.val == (self.val as int) % (rhs.rinto_spec().val as int)
    { unimplemented!() }
    #[verifier::external_body]
    pub fn saturating_mul<R: RInto<Self>>(self, rhs: R) -> (r: Self)
        requires rhs.rinto_req(),
        ensures i8::MIN <= self.val * rhs.rinto_spec().val <= i8::MAX ==> r.val == self.val * rhs.rinto_spec().val,
                self.val * rhs.rinto_spec().val > i8::MAX ==> r.val == i8::MAX,
                self.val * rhs.rinto_spec().val < i8::MIN ==> r.val == i8::MIN,
    { unimplemented!() }
    #[verifier::external_body]
    pub fn saturating_add<R: RInto<Self>>(self, rhs: R) -> (r: Self)
        requires rhs.rinto_req(),
        ensures i8::MIN <= self.val + rhs.rinto_spec().val <= i8::MAX ==> r.val == self.val + rhs.rinto_spec().val,
                self.val + rhs.rinto_spec().val > i8::MAX ==> r.val == i8::MAX,
                self.val + rhs.rinto_spec().val < i8::MIN ==> r.val == i8::MIN,
    { unimplemented!() }
}
// `type Range = ri8<{ LO }, { HI }>; Range::try_new("what", v)`: the bounds of an anonymous range are passed explicitly
#[verifier::external_body]
pub fn verif_try_new_range_8(lo: i128, hi: i128, v: i64) -> (res: Result<ri8, Error>)
    requires i8::MIN <= lo, hi <= i8::MAX,
    ensures res.is_ok() <==> lo <= v <= hi, res.is_ok() ==> res.unwrap().val == v
{ unimplemented!() }
impl RInto<ri8> for ri8 {
    open spec fn rinto_spec(self) -> ri8 { self }
    open spec fn rinto_req(self) -> bool { true }
    fn rinto(self) -> (r: ri8) { self }
}
impl RFrom<ri8> for ri8 {
    open spec fn rfrom_spec(t: ri8) -> ri8 { t }
    open spec fn rfrom_req(t: ri8) -> bool { true }
    fn rfrom(t: ri8) -> (r: ri8) { t }
}
impl RInto<ri8> for Constant {
    open spec fn rinto_spec(self) -> ri8 { ri8 { val: self.0 as i8 } }
    open spec fn rinto_req(self) -> bool { i8::MIN <= self.0 <= i8::MAX }
    #[verifier::external_body]
    fn rinto(self) -> (r: ri8) { unimplemented!() }
}
impl RFrom<Constant> for ri8 {
    open spec fn rfrom_spec(t: Constant) -> ri8 { ri8 { val: t.0 as i8 } }
    open spec fn rfrom_req(t: Constant) -> bool { i8::MIN <= t.0 <= i8::MAX }
    #[verifier::external_body]
    fn rfrom(t: Constant) -> (r: ri8) { unimplemented!() }
}
impl RInto<i8> for ri8 {
    open spec fn rinto_spec(self) -> i8 { self.val }
    open spec fn rinto_req(self) -> bool { true }
    fn rinto(self) -> (r: i8) { self.val }
}

impl PartialEqSpecImpl<ri8> for ri8 {
    open spec fn obeys_eq_spec() -> bool { true }
    open spec fn eq_spec(&self, other: &ri8) -> bool { self.val == other.val }
}
impl PartialEq<ri8> for ri8 {
    #[verifier::external_body]
    fn eq(&self, other: &ri8) -> bool { unimplemented!() }
}
impl PartialOrdSpecImpl<ri8> for ri8 {
    open spec fn obeys_partial_cmp_spec() -> bool { true }
    open spec fn partial_cmp_spec(&self, other: &ri8) -> Option<Ordering> { Some(int_cmp(self.val as int, other.val as int)) }
}
impl PartialOrd<ri8> for ri8 {
    #[verifier::external_body]
    fn partial_cmp(&self, other: &ri8) -> Option<Ordering> { unimplemented!() }
}

impl PartialEqSpecImpl<Constant> for ri8 {
    open spec fn obeys_eq_spec() -> bool { true }
    open spec fn eq_spec(&self, other: &Constant) -> bool { self.val == other.0 }
}
impl PartialEq<Constant> for ri8 {
    #[verifier::external_body]
    fn eq(&self, other: &Constant) -> bool { unimplemented!() }
}
impl PartialOrdSpecImpl<Constant> for ri8 {
    open spec fn obeys_partial_cmp_spec() -> bool { true }
    open spec fn partial_cmp_spec(&self, other: &Constant) -> Option<Ordering> { Some(int_cmp(self.val as int, other.0 as int)) }
}
impl PartialOrd<Constant> for ri8 {
    #[verifier::external_body]
    fn partial_cmp(&self, other: &Constant) -> Option<Ordering> { unimplemented!() }
}

impl PartialEqSpecImpl<ri16> for ri8 {
    open spec fn obeys_eq_spec() -> bool { true }
    open spec fn eq_spec(&self, other: &ri16) -> bool { self.val == other.val }
}
impl PartialEq<ri16> for ri8 {
    #[verifier::external_body]
    fn eq(&self, other: &ri16) -> bool { unimplemented!() }
}
impl PartialOrdSpecImpl<ri16> for ri8 {
    open spec fn obeys_partial_cmp_spec() -> bool { true }
    open spec fn partial_cmp_spec(&self, other: &ri16) -> Option<Ordering> { Some(int_cmp(self.val as int, other.val as int)) }
}
impl PartialOrd<ri16> for ri8 {
    #[verifier::external_body]
    fn partial_cmp(&self, other: &ri16) -> Option<Ordering> { unimplemented!() }
}

impl PartialEqSpecImpl<ri32> for ri8 {
    open spec fn obeys_eq_spec() -> bool { true }
    open spec fn eq_spec(&self, other: &ri32) -> bool { self.val == other.val }
}
impl PartialEq<ri32> for ri8 {
    #[verifier::external_body]
    fn eq(&self, other: &ri32) -> bool { unimplemented!() }
}
impl PartialOrdSpecImpl<ri32> for ri8 {
    open spec fn obeys_partial_cmp_spec() -> bool { true }
    open spec fn partial_cmp_spec(&self, other: &ri32) -> Option<Ordering> { Some(int_cmp(self.val as int, other.val as int)) }
}
impl PartialOrd<ri32> for ri8 {
    #[verifier::external_body]
    fn partial_cmp(&self, other: &ri32) -> Option<Ordering> { unimplemented!() }
}

impl PartialEqSpecImpl<ri64> for ri8 {
    open spec fn obeys_eq_spec() -> bool { true }
    open spec fn eq_spec(&self, other: &ri64) -> bool { self.val == other.val }
}
impl PartialEq<ri64> for ri8 {
    #[verifier::external_body]
    fn eq(&self, other: &ri64) -> bool { unimplemented!() }
}
impl PartialOrdSpecImpl<ri64> for ri8 {
    open spec fn obeys_partial_cmp_spec() -> bool { true }
    open spec fn partial_cmp_spec(&self, other: &ri64) -> Option<Ordering> { Some(int_cmp(self.val as int, other.val as int)) }
}
impl PartialOrd<ri64> for ri8 {
    #[verifier::external_body]
    fn partial_cmp(&self, other: &ri64) -> Option<Ordering> { unimplemented!() }
}

impl PartialEqSpecImpl<ri128> for ri8 {
    open spec fn obeys_eq_spec() -> bool { true }
    open spec fn eq_spec(&self, other: &ri128) -> bool { self.val == other.val }
}
impl PartialEq<ri128> for ri8 {
    #[verifier::external_body]
    fn eq(&self, other: &ri128) -> bool { unimplemented!() }
}
impl PartialOrdSpecImpl<ri128> for ri8 {
    open spec fn obeys_partial_cmp_spec() -> bool { true }
    open spec fn partial_cmp_spec(&self, other: &ri128) -> Option<Ordering> { Some(int_cmp(self.val as int, other.val as int)) }
}
impl PartialOrd<ri128> for ri8 {
    #[verifier::external_body]
    fn partial_cmp(&self, other: &ri128) -> Option<Ordering> { unimplemented!() }
}

impl AddSpecImpl<ri8> for ri8 {
    open spec fn obeys_add_spec() -> bool { true }
    open spec fn add_req(self, rhs: ri8) -> bool { i8::MIN <= self.val + rhs.val <= i8::MAX }
    open spec fn add_spec(self, rhs: ri8) -> ri8 { ri8 { val: (self.val + rhs.val) as i8 } }
}
impl core::ops::Add<ri8> for ri8 {
    type Output = ri8;
    #[verifier::external_body]
    fn add(self, rhs: ri8) -> ri8 { unimplemented!() }
}
impl AddAssignSpecImpl<ri8> for ri8 {
    open spec fn obeys_add_assign_spec() -> bool { true }
    open spec fn add_assign_req(&self, rhs: ri8) -> bool { i8::MIN <= self.val + rhs.val <= i8::MAX }
    open spec fn add_assign_spec(&self, rhs: ri8) -> &ri8 { &ri8 { val: (self.val + rhs.val) as i8 } }
}
impl core::ops::AddAssign<ri8> for ri8 {
    #[verifier::external_body]
    fn add_assign(&mut self, rhs: ri8) { unimplemented!() }
}

impl SubSpecImpl<ri8> for ri8 {
    open spec fn obeys_sub_spec() -> bool { true }
    open spec fn sub_req(self, rhs: ri8) -> bool { i8::MIN <= self.val - rhs.val <= i8::MAX }
    open spec fn sub_spec(self, rhs: ri8) -> ri8 { ri8 { val: (self.val - rhs.val) as i8 } }
}
impl core::ops::Sub<ri8> for ri8 {
    type Output = ri8;
    #[verifier::external_body]
    fn sub(self, rhs: ri8) -> ri8 { unimplemented!() }
}
impl SubAssignSpecImpl<ri8> for ri8 {
    open spec fn obeys_sub_assign_spec() -> bool { true }
    open spec fn sub_assign_req(&self, rhs: ri8) -> bool { i8::MIN <= self.val - rhs.val <= i8::MAX }
    open spec fn sub_assign_spec(&self, rhs: ri8) -> &ri8 { &ri8 { val: (self.val - rhs.val) as i8 } }
}
impl core::ops::SubAssign<ri8> for ri8 {
    #[verifier::external_body]
    fn sub_assign(&mut self, rhs: ri8) { unimplemented!() }
}

impl MulSpecImpl<ri8> for ri8 {
    open spec fn obeys_mul_spec() -> bool { true }
    open spec fn mul_req(self, rhs: ri8) -> bool { i8::MIN <= self.val * rhs.val <= i8::MAX }
    open spec fn mul_spec(self, rhs: ri8) -> ri8 { ri8 { val: (self.val * rhs.val) as i8 } }
}
impl core::ops::Mul<ri8> for ri8 {
    type Output = ri8;
    #[verifier::external_body]
    fn mul(self, rhs: ri8) -> ri8 { unimplemented!() }
}
impl MulAssignSpecImpl<ri8> for ri8 {
    open spec fn obeys_mul_assign_spec() -> bool { true }
    open spec fn mul_assign_req(&self, rhs: ri8) -> bool { i8::MIN <= self.val * rhs.val <= i8::MAX }
    open spec fn mul_assign_spec(&self, rhs: ri8) -> &ri8 { &ri8 { val: (self.val * rhs.val) as i8 } }
}
impl core::ops::MulAssign<ri8> for ri8 {
    #[verifier::external_body]
    fn mul_assign(&mut self, rhs: ri8) { unimplemented!() }
}

impl DivSpecImpl<ri8> for ri8 {
    open spec fn obeys_div_spec() -> bool { true }
    open spec fn div_req(self, rhs: ri8) -> bool { rhs.val > 0 }
    open spec fn div_spec(self, rhs: ri8) -> ri8 { ri8 { val: (self.val as int / rhs.val as int) as i8 } }
}
impl core::ops::Div<ri8> for ri8 {
    type Output = ri8;
    #[verifier::external_body]
    fn div(self, rhs: ri8) -> ri8 { unimplemented!() }
}
impl RemSpecImpl<ri8> for ri8 {
    open spec fn obeys_rem_spec() -> bool { true }
    open spec fn rem_req(self, rhs: ri8) -> bool { rhs.val > 0 }
    open spec fn rem_spec(self, rhs: ri8) -> ri8 { ri8 { val: (self.val as int % rhs.val as int) as i8 } }
}
impl core::ops::Rem<ri8> for ri8 {
    type Output = ri8;
    #[verifier::external_body]
    fn rem(self, rhs: ri8) -> ri8 { unimplemented!() }
}

impl AddSpecImpl<Constant> for ri8 {
    open spec fn obeys_add_spec() -> bool { true }
    open spec fn add_req(self, rhs: Constant) -> bool { i8::MIN <= self.val + rhs.0 <= i8::MAX }
    open spec fn add_spec(self, rhs: Constant) -> ri8 { ri8 { val: (self.val + rhs.0) as i8 } }
}
impl core::ops::Add<Constant> for ri8 {
    type Output = ri8;
    #[verifier::external_body]
    fn add(self, rhs: Constant) -> ri8 { unimplemented!() }
}
impl AddAssignSpecImpl<Constant> for ri8 {
    open spec fn obeys_add_assign_spec() -> bool { true }
    open spec fn add_assign_req(&self, rhs: Constant) -> bool { i8::MIN <= self.val + rhs.0 <= i8::MAX }
    open spec fn add_assign_spec(&self, rhs: Constant) -> &ri8 { &ri8 { val: (self.val + rhs.0) as i8 } }
}
impl core::ops::AddAssign<Constant> for ri8 {
    #[verifier::external_body]
    fn add_assign(&mut self, rhs: Constant) { unimplemented!() }
}

impl SubSpecImpl<Constant> for ri8 {
    open spec fn obeys_sub_spec() -> bool { true }
    open spec fn sub_req(self, rhs: Constant) -> bool { i8::MIN <= self.val - rhs.0 <= i8::MAX }
    open spec fn sub_spec(self, rhs: Constant) -> ri8 { ri8 { val: (self.val - rhs.0) as i8 } }
}
impl core::ops::Sub<Constant> for ri8 {
    type Output = ri8;
    #[verifier::external_body]
    fn sub(self, rhs: Constant) -> ri8 { unimplemented!() }
}
impl SubAssignSpecImpl<Constant> for ri8 {
    open spec fn obeys_sub_assign_spec() -> bool { true }
    open spec fn sub_assign_req(&self, rhs: Constant) -> bool { i8::MIN <= self.val - rhs.0 <= i8::MAX }
    open spec fn sub_assign_spec(&self, rhs: Constant) -> &ri8 { &ri8 { val: (self.val - rhs.0) as i8 } }
}
impl core::ops::SubAssign<Constant> for ri8 {
    #[verifier::external_body]
    fn sub_assign(&mut self, rhs: Constant) { unimplemented!() }
}

impl MulSpecImpl<Constant> for ri8 {
    open spec fn obeys_mul_spec() -> bool { true }
    open spec fn mul_req(self, rhs: Constant) -> bool { i8::MIN <= self.val * rhs.0 <= i8::MAX }
    open spec fn mul_spec(self, rhs: Constant) -> ri8 { ri8 { val: (self.val * rhs.0) as i8 } }
}
impl core::ops::Mul<Constant> for ri8 {
    type Output = ri8;
    #[verifier::external_body]
    fn mul(self, rhs: Constant) -> ri8 { unimplemented!() }
}
impl MulAssignSpecImpl<Constant> for ri8 {
    open spec fn obeys_mul_assign_spec() -> bool { true }
    open spec fn mul_assign_req(&self, rhs: Constant) -> bool { i8::MIN <= self.val * rhs.0 <= i8::MAX }
    open spec fn mul_assign_spec(&self, rhs: Constant) -> &ri8 { &ri8 { val: (self.val * rhs.0) as i8 } }
}
impl core::ops::MulAssign<Constant> for ri8 {
    #[verifier::external_body]
    fn mul_assign(&mut self, rhs: Constant) { unimplemented!() }
}

impl DivSpecImpl<Constant> for ri8 {
    open spec fn obeys_div_spec() -> bool { true }
    open spec fn div_req(self, rhs: Constant) -> bool { rhs.0 > 0 }
    open spec fn div_spec(self, rhs: Constant) -> ri8 { ri8 { val: (self.val as int / rhs.0 as int) as i8 } }
}
impl core::ops::Div<Constant> for ri8 {
    type Output = ri8;
    #[verifier::external_body]
    fn div(self, rhs: Constant) -> ri8 { unimplemented!() }
}
impl RemSpecImpl<Constant> for ri8 {
    open spec fn obeys_rem_spec() -> bool { true }
    open spec fn rem_req(self, rhs: Constant) -> bool { rhs.0 > 0 }
    open spec fn rem_spec(self, rhs: Constant) -> ri8 { ri8 { val: (self.val as int % rhs.0 as int) as i8 } }
}
impl core::ops::Rem<Constant> for ri8 {
    type Output = ri8;
    #[verifier::external_body]
    fn rem(self, rhs: Constant) -> ri8 { unimplemented!() }
}

impl AddSpecImpl<ri16> for ri8 {
    open spec fn obeys_add_spec() -> bool { true }
    open spec fn add_req(self, rhs: ri16) -> bool { i8::MIN <= self.val + rhs.val <= i8::MAX }
    open spec fn add_spec(self, rhs: ri16) -> ri8 { ri8 { val: (self.val + rhs.val) as i8 } }
}
impl core::ops::Add<ri16> for ri8 {
    type Output = ri8;
    #[verifier::external_body]
    fn add(self, rhs: ri16) -> ri8 { unimplemented!() }
}
impl AddAssignSpecImpl<ri16> for ri8 {
    open spec fn obeys_add_assign_spec() -> bool { true }
    open spec fn add_assign_req(&self, rhs: ri16) -> bool { i8::MIN <= self.val + rhs.val <= i8::MAX }
    open spec fn add_assign_spec(&self, rhs: ri16) -> &ri8 { &ri8 { val: (self.val + rhs.val) as i8 } }
}
impl core::ops::AddAssign<ri16> for ri8 {
    #[verifier::external_body]
    fn add_assign(&mut self, rhs: ri16) { unimplemented!() }
}

impl SubSpecImpl<ri16> for ri8 {
    open spec fn obeys_sub_spec() -> bool { true }
    open spec fn sub_req(self, rhs: ri16) -> bool { i8::MIN <= self.val - rhs.val <= i8::MAX }
    open spec fn sub_spec(self, rhs: ri16) -> ri8 { ri8 { val: (self.val - rhs.val) as i8 } }
}
impl core::ops::Sub<ri16> for ri8 {
    type Output = ri8;
    #[verifier::external_body]
    fn sub(self, rhs: ri16) -> ri8 { unimplemented!() }
}
impl SubAssignSpecImpl<ri16> for ri8 {
    open spec fn obeys_sub_assign_spec() -> bool { true }
    open spec fn sub_assign_req(&self, rhs: ri16) -> bool { i8::MIN <= self.val - rhs.val <= i8::MAX }
    open spec fn sub_assign_spec(&self, rhs: ri16) -> &ri8 { &ri8 { val: (self.val - rhs.val) as i8 } }
}
impl core::ops::SubAssign<ri16> for ri8 {
    #[verifier::external_body]
    fn sub_assign(&mut self, rhs: ri16) { unimplemented!() }
}

impl MulSpecImpl<ri16> for ri8 {
    open spec fn obeys_mul_spec() -> bool { true }
    open spec fn mul_req(self, rhs: ri16) -> bool { i8::MIN <= self.val * rhs.val <= i8::MAX }
    open spec fn mul_spec(self, rhs: ri16) -> ri8 { ri8 { val: (self.val * rhs.val) as i8 } }
}
impl core::ops::Mul<ri16> for ri8 {
    type Output = ri8;
    #[verifier::external_body]
    fn mul(self, rhs: ri16) -> ri8 { unimplemented!() }
}
impl MulAssignSpecImpl<ri16> for ri8 {
    open spec fn obeys_mul_assign_spec() -> bool { true }
    open spec fn mul_assign_req(&self, rhs: ri16) -> bool { i8::MIN <= self.val * rhs.val <= i8::MAX }
    open spec fn mul_assign_spec(&self, rhs: ri16) -> &ri8 { &ri8 { val: (self.val * rhs.val) as i8 } }
}
impl core::ops::MulAssign<ri16> for ri8 {
    #[verifier::external_body]
    fn mul_assign(&mut self, rhs: ri16) { unimplemented!() }
}

impl DivSpecImpl<ri16> for ri8 {
    open spec fn obeys_div_spec() -> bool { true }
    open spec fn div_req(self, rhs: ri16) -> bool { rhs.val > 0 }
    open spec fn div_spec(self, rhs: ri16) -> ri8 { ri8 { val: (self.val as int / rhs.val as int) as i8 } }
}
impl core::ops::Div<ri16> for ri8 {
    type Output = ri8;
    #[verifier::external_body]
    fn div(self, rhs: ri16) -> ri8 { unimplemented!() }
}
impl RemSpecImpl<ri16> for ri8 {
    open spec fn obeys_rem_spec() -> bool { true }
    open spec fn rem_req(self, rhs: ri16) -> bool { rhs.val > 0 }
    open spec fn rem_spec(self, rhs: ri16) -> ri8 { ri8 { val: (self.val as int % rhs.val as int) as i8 } }
}
impl core::ops::Rem<ri16> for ri8 {
    type Output = ri8;
    #[verifier::external_body]
    fn rem(self, rhs: ri16) -> ri8 { unimplemented!() }
}

impl AddSpecImpl<ri32> for ri8 {
    open spec fn obeys_add_spec() -> bool { true }
    open spec fn add_req(self, rhs: ri32) -> bool { i8::MIN <= self.val + rhs.val <= i8::MAX }
    open spec fn add_spec(self, rhs: ri32) -> ri8 { ri8 { val: (self.val + rhs.val) as i8 } }
}
impl core::ops::Add<ri32> for ri8 {
    type Output = ri8;
    #[verifier::external_body]
    fn add(self, rhs: ri32) -> ri8 { unimplemented!() }
}
impl AddAssignSpecImpl<ri32> for ri8 {
    open spec fn obeys_add_assign_spec() -> bool { true }
    open spec fn add_assign_req(&self, rhs: ri32) -> bool { i8::MIN <= self.val + rhs.val <= i8::MAX }
    open spec fn add_assign_spec(&self, rhs: ri32) -> &ri8 { &ri8 { val: (self.val + rhs.val) as i8 } }
}
impl core::ops::AddAssign<ri32> for ri8 {
    #[verifier::external_body]
    fn add_assign(&mut self, rhs: ri32) { unimplemented!() }
}

impl SubSpecImpl<ri32> for ri8 {
    open spec fn obeys_sub_spec() -> bool { true }
    open spec fn sub_req(self, rhs: ri32) -> bool { i8::MIN <= self.val - rhs.val <= i8::MAX }
    open spec fn sub_spec(self, rhs: ri32) -> ri8 { ri8 { val: (self.val - rhs.val) as i8 } }
}
impl core::ops::Sub<ri32> for ri8 {
    type Output = ri8;
    #[verifier::external_body]
    fn sub(self, rhs: ri32) -> ri8 { unimplemented!() }
}
impl SubAssignSpecImpl<ri32> for ri8 {
    open spec fn obeys_sub_assign_spec() -> bool { true }
    open spec fn sub_assign_req(&self, rhs: ri32) -> bool { i8::MIN <= self.val - rhs.val <= i8::MAX }
    open spec fn sub_assign_spec(&self, rhs: ri32) -> &ri8 { &ri8 { val: (self.val - rhs.val) as i8 } }
}
impl core::ops::SubAssign<ri32> for ri8 {
    #[verifier::external_body]
    fn sub_assign(&mut self, rhs: ri32) { unimplemented!() }
}

impl MulSpecImpl<ri32> for ri8 {
    open spec fn obeys_mul_spec() -> bool { true }
    open spec fn mul_req(self, rhs: ri32) -> bool { i8::MIN <= self.val * rhs.val <= i8::MAX }
    open spec fn mul_spec(self, rhs: ri32) -> ri8 { ri8 { val: (self.val * rhs.val) as i8 } }
}
impl core::ops::Mul<ri32> for ri8 {
    type Output = ri8;
    #[verifier::external_body]
    fn mul(self, rhs: ri32) -> ri8 { unimplemented!() }
}
impl MulAssignSpecImpl<ri32> for ri8 {
    open spec fn obeys_mul_assign_spec() -> bool { true }
    open spec fn mul_assign_req(&self, rhs: ri32) -> bool { i8::MIN <= self.val * rhs.val <= i8::MAX }
    open spec fn mul_assign_spec(&self, rhs: ri32) -> &ri8 { &ri8 { val: (self.val * rhs.val) as i8 } }
}
impl core::ops::MulAssign<ri32> for ri8 {
    #[verifier::external_body]
    fn mul_assign(&mut self, rhs: ri32) { unimplemented!() }
}

impl DivSpecImpl<ri32> for ri8 {
    open spec fn obeys_div_spec() -> bool { true }
    open spec fn div_req(self, rhs: ri32) -> bool { rhs.val > 0 }
    open spec fn div_spec(self, rhs: ri32) -> ri8 { ri8 { val: (self.val as int / rhs.val as int) as i8 } }
}
impl core::ops::Div<ri32> for ri8 {
    type Output = ri8;
    #[verifier::external_body]
    fn div(self, rhs: ri32) -> ri8 { unimplemented!() }
}
impl RemSpecImpl<ri32> for ri8 {
    open spec fn obeys_rem_spec() -> bool { true }
    open spec fn rem_req(self, rhs: ri32) -> bool { rhs.val > 0 }
    open spec fn rem_spec(self, rhs: ri32) -> ri8 { ri8 { val: (self.val as int % rhs.val as int) as i8 } }
}
impl core::ops::Rem<ri32> for ri8 {
    type Output = ri8;
    #[verifier::external_body]
    fn rem(self, rhs: ri32) -> ri8 { unimplemented!() }
}

impl AddSpecImpl<ri64> for ri8 {
    open spec fn obeys_add_spec() -> bool { true }
    open spec fn add_req(self, rhs: ri64) -> bool { i8::MIN <= self.val + rhs.val <= i8::MAX }
    open spec fn add_spec(self, rhs: ri64) -> ri8 { ri8 { val: (self.val + rhs.val) as i8 } }
}
impl core::ops::Add<ri64> for ri8 {
    type Output = ri8;
    #[verifier::external_body]
    fn add(self, rhs: ri64) -> ri8 { unimplemented!() }
}
impl AddAssignSpecImpl<ri64> for ri8 {
    open spec fn obeys_add_assign_spec() -> bool { true }
    open spec fn add_assign_req(&self, rhs: ri64) -> bool { i8::MIN <= self.val + rhs.val <= i8::MAX }
    open spec fn add_assign_spec(&self, rhs: ri64) -> &ri8 { &ri8 { val: (self.val + rhs.val) as i8 } }
}
impl core::ops::AddAssign<ri64> for ri8 {
    #[verifier::external_body]
    fn add_assign(&mut self, rhs: ri64) { unimplemented!() }
}

impl SubSpecImpl<ri64> for ri8 {
    open spec fn obeys_sub_spec() -> bool { true }
    open spec fn sub_req(self, rhs: ri64) -> bool { i8::MIN <= self.val - rhs.val <= i8::MAX }
    open spec fn sub_spec(self, rhs: ri64) -> ri8 { ri8 { val: (self.val - rhs.val) as i8 } }
}
impl core::ops::Sub<ri64> for ri8 {
    type Output = ri8;
    #[verifier::external_body]
    fn sub(self, rhs: ri64) -> ri8 { unimplemented!() }
}
impl SubAssignSpecImpl<ri64> for ri8 {
    open spec fn obeys_sub_assign_spec() -> bool { true }
    open spec fn sub_assign_req(&self, rhs: ri64) -> bool { i8::MIN <= self.val - rhs.val <= i8::MAX }
    open spec fn sub_assign_spec(&self, rhs: ri64) -> &ri8 { &ri8 { val: (self.val - rhs.val) as i8 } }
}
impl core::ops::SubAssign<ri64> for ri8 {
    #[verifier::external_body]
    fn sub_assign(&mut self, rhs: ri64) { unimplemented!() }
}

impl MulSpecImpl<ri64> for ri8 {
    open spec fn obeys_mul_spec() -> bool { true }
    open spec fn mul_req(self, rhs: ri64) -> bool { i8::MIN <= self.val * rhs.val <= i8::MAX }
    open spec fn mul_spec(self, rhs: ri64) -> ri8 { ri8 { val: (self.val * rhs.val) as i8 } }
}
impl core::ops::Mul<ri64> for ri8 {
    type Output = ri8;
    #[verifier::external_body]
    fn mul(self, rhs: ri64) -> ri8 { unimplemented!() }
}
impl MulAssignSpecImpl<ri64> for ri8 {
    open spec fn obeys_mul_assign_spec() -> bool { true }
    open spec fn mul_assign_req(&self, rhs: ri64) -> bool { i8::MIN <= self.val * rhs.val <= i8::MAX }
    open spec fn mul_assign_spec(&self, rhs: ri64) -> &ri8 { &ri8 { val: (self.val * rhs.val) as i8 } }
}
impl core::ops::MulAssign<ri64> for ri8 {
    #[verifier::external_body]
    fn mul_assign(&mut self, rhs: ri64) { unimplemented!() }
}

impl DivSpecImpl<ri64> for ri8 {
    open spec fn obeys_div_spec() -> bool { true }
    open spec fn div_req(self, rhs: ri64) -> bool { rhs.val > 0 }
    open spec fn div_spec(self, rhs: ri64) -> ri8 { ri8 { val: (self.val as int / rhs.val as int) as i8 } }
}
impl core::ops::Div<ri64> for ri8 {
    type Output = ri8;
    #[verifier::external_body]
    fn div(self, rhs: ri64) -> ri8 { unimplemented!() }
}
impl RemSpecImpl<ri64> for ri8 {
    open spec fn obeys_rem_spec() -> bool { true }
    open spec fn rem_req(self, rhs: ri64) -> bool { rhs.val > 0 }
    open spec fn rem_spec(self, rhs: ri64) -> ri8 { ri8 { val: (self.val as int % rhs.val as int) as i8 } }
}
impl core::ops::Rem<ri64> for ri8 {
    type Output = ri8;
    #[verifier::external_body]
    fn rem(self, rhs: ri64) -> ri8 { unimplemented!() }
}

impl AddSpecImpl<ri128> for ri8 {
    open spec fn obeys_add_spec() -> bool { true }
    open spec fn add_req(self, rhs: ri128) -> bool { i8::MIN <= self.val + rhs.val <= i8::MAX }
    open spec fn add_spec(self, rhs: ri128) -> ri8 { ri8 { val: (self.val + rhs.val) as i8 } }
}
impl core::ops::Add<ri128> for ri8 {
    type Output = ri8;
    #[verifier::external_body]
    fn add(self, rhs: ri128) -> ri8 { unimplemented!() }
}
impl AddAssignSpecImpl<ri128> for ri8 {
    open spec fn obeys_add_assign_spec() -> bool { true }
    open spec fn add_assign_req(&self, rhs: ri128) -> bool { i8::MIN <= self.val + rhs.val <= i8::MAX }
    open spec fn add_assign_spec(&self, rhs: ri128) -> &ri8 { &ri8 { val: (self.val + rhs.val) as i8 } }
}
impl core::ops::AddAssign<ri128> for ri8 {
    #[verifier::external_body]
    fn add_assign(&mut self, rhs: ri128) { unimplemented!() }
}

impl SubSpecImpl<ri128> for ri8 {
    open spec fn obeys_sub_spec() -> bool { true }
    open spec fn sub_req(self, rhs: ri128) -> bool { i8::MIN <= self.val - rhs.val <= i8::MAX }
    open spec fn sub_spec(self, rhs: ri128) -> ri8 { ri8 { val: (self.val - rhs.val) as i8 } }
}
impl core::ops::Sub<ri128> for ri8 {
    type Output = ri8;
    #[verifier::external_body]
    fn sub(self, rhs: ri128) -> ri8 { unimplemented!() }
}
impl SubAssignSpecImpl<ri128> for ri8 {
    open spec fn obeys_sub_assign_spec() -> bool { true }
    open spec fn sub_assign_req(&self, rhs: ri128) -> bool { i8::MIN <= self.val - rhs.val <= i8::MAX }
    open spec fn sub_assign_spec(&self, rhs: ri128) -> &ri8 { &ri8 { val: (self.val - rhs.val) as i8 } }
}
impl core::ops::SubAssign<ri128> for ri8 {
    #[verifier::external_body]
    fn sub_assign(&mut self, rhs: ri128) { unimplemented!() }
}

impl MulSpecImpl<ri128> for ri8 {
    open spec fn obeys_mul_spec() -> bool { true }
    open spec fn mul_req(self, rhs: ri128) -> bool { i8::MIN <= self.val * rhs.val <= i8::MAX }
    open spec fn mul_spec(self, rhs: ri128) -> ri8 { ri8 { val: (self.val * rhs.val) as i8 } }
}
impl core::ops::Mul<ri128> for ri8 {
    type Output = ri8;
    #[verifier::external_body]
    fn mul(self, rhs: ri128) -> ri8 { unimplemented!() }
}
impl MulAssignSpecImpl<ri128> for ri8 {
    open spec fn obeys_mul_assign_spec() -> bool { true }
    open spec fn mul_assign_req(&self, rhs: ri128) -> bool { i8::MIN <= self.val * rhs.val <= i8::MAX }
    open spec fn mul_assign_spec(&self, rhs: ri128) -> &ri8 { &ri8 { val: (self.val * rhs.val) as i8 } }
}
impl core::ops::MulAssign<ri128> for ri8 {
    #[verifier::external_body]
    fn mul_assign(&mut self, rhs: ri128) { unimplemented!() }
}

impl DivSpecImpl<ri128> for ri8 {
    open spec fn obeys_div_spec() -> bool { true }
    open spec fn div_req(self, rhs: ri128) -> bool { rhs.val > 0 }
    open spec fn div_spec(self, rhs: ri128) -> ri8 { ri8 { val: (self.val as int / rhs.val as int) as i8 } }
}
impl core::ops::Div<ri128> for ri8 {
    type Output = ri8;
    #[verifier::external_body]
    fn div(self, rhs: ri128) -> ri8 { unimplemented!() }
}
impl RemSpecImpl<ri128> for ri8 {
    open spec fn obeys_rem_spec() -> bool { true }
    open spec fn rem_req(self, rhs: ri128) -> bool { rhs.val > 0 }
    open spec fn rem_spec(self, rhs: ri128) -> ri8 { ri8 { val: (self.val as int % rhs.val as int) as i8 } }
}
impl core::ops::Rem<ri128> for ri8 {
    type Output = ri8;
    #[verifier::external_body]
    fn rem(self, rhs: ri128) -> ri8 { unimplemented!() }
}

impl NegSpecImpl for ri8 {
    open spec fn obeys_neg_spec() -> bool { true }
    open spec fn neg_req(self) -> bool { self.val > i8::MIN }
    open spec fn neg_spec(self) -> ri8 { ri8 { val: (-self.val) as i8 } }
}
impl core::ops::Neg for ri8 {
    type Output = ri8;
    #[verifier::external_body]
    fn neg(self) -> ri8 { unimplemented!() }
}


// ------------------------------------------------------------------ ri16
#[derive(Clone, Copy)]
pub struct ri16 { pub val: i16 }
impl ri16 {
    pub fn new_unchecked(val: i16) -> (r: Self) ensures r.val == val { ri16 { val } }
    pub fn get(self) -> (r: i16) ensures r == self.val { self.val }
    pub fn get_unchecked(self) -> (r: i16) ensures r == self.val { self.val }
    pub fn without_bounds(self) -> (r: Self) ensures r == self { self }
    // `T::N::<VAL>()` is rewritten to `T::verif_N(VAL)`: the constant VAL (release: `Self { val: VAL }`, no bound is consulted).
    // (Not modelled with a const generic: Verus 0.2026.09.13 derives `false` from a negative const generic argument.)
    pub const fn verif_N(v: i16) -> (r: Self) ensures r.val == v { ri16 { val: v } }
    #[verifier::external_body]
    pub fn abs(self) -> (r: Self)
        requires self.val > i16::MIN,
        ensures r.val == (if self.val < 0 { -self.val } else { self.val as int })
    { unimplemented!() }
    // real: returns `riN<-1, 1>` of the SAME width
    pub fn signum(self) -> (r: Self) ensures r.val == (if self.val < 0 { -1int } else if self.val > 0 { 1int } else { 0int })
    { if self.val < 0 { ri16 { val: -1 } } else if self.val > 0 { ri16 { val: 1 } } else { ri16 { val: 0 } } }
    pub fn min<R: RInto<Self>>(self, other: R) -> (r: Self)
        requires other.rinto_req(),
        ensures r.val == (if other.rinto_spec().val < self.val { other.rinto_spec().val } else { self.val })
    { let o = other.rinto(); if o.val < self.val { o } else { self } }
    pub fn max<R: RInto<Self>>(self, other: R) -> (r: Self)
        requires other.rinto_req(),
        ensures r.val == (if other.rinto_spec().val > self.val { other.rinto_spec().val } else { self.val })
    { let o = other.rinto(); if o.val > self.val { o } else { self } }
    // truncating
    #[verifier::external_body]
    pub fn div_ceil<R: RInto<Self>>(self, rhs: R) -> (r: Self)
        requires rhs.rinto_req(), rhs.rinto_spec().val != 0, !(self.val == i16::MIN && rhs.rinto_spec().val == -1),
        ensures r.val == tdiv(self.val as int, rhs.rinto_spec().val as int)
    { unimplemented!() }
    #[verifier::external_body]
    pub fn rem_ceil<R: RInto<Self>>(self, rhs: R) -> (r: Self)
        requires rhs.rinto_req(), rhs.rinto_spec().val != 0, !(self.val == i16::MIN && rhs.rinto_spec().val == -1),
        ensures r.val == trem(self.val as int, rhs.rinto_spec().val as int)
    { unimplemented!() }
    // Euclidean (divisor > 0 required here; every use in jiff divides by a positive quantity)
    #[verifier::external_body]
    pub fn div_floor<R: RInto<Self>>(self, rhs: R) -> (r: Self)
        requires rhs.rinto_req(), rhs.rinto_spec().val > 0,
        ensures r.val == (self.val as int) / (rhs.rinto_spec().val as int)
    { unimplemented!() }
    #[verifier::external_body]
    pub fn rem_floor<R: RInto<Self>>(self, rhs: R) -> (r: Self)
        requires rhs.rinto_req(), rhs.rinto_spec().val > 0,
        ensures r.val == (self.val as int) % (rhs.rinto_spec().val as int)
    { unimplemented!() }
    #[verifier::external_body]
    pub fn saturating_mul<R: RInto<Self>>(self, rhs: R) -> (r: Self)
        requires rhs.rinto_req(),
        ensures i16::MIN <= self.val * rhs.rinto_spec().val <= i16::MAX ==> r.val == self.val * rhs.rinto_spec().val,
                self.val * rhs.rinto_spec().val > i16::MAX ==> r.val == i16::MAX,
                self.val * rhs.rinto_spec().val < i16::MIN ==> r.val == i16::MIN,
    { unimplemented!() }
    #[verifier::external_body]
    pub fn saturating_add<R: RInto<Self>>(self, rhs: R) -> (r: Self)
        requires rhs.rinto_req(),
        ensures i16::MIN <= self.val + rhs.rinto_spec().val <= i16::MAX ==> r.val == self.val + rhs.rinto_spec().val,
                self.val + rhs.rinto_spec().val > i16::MAX ==> r.val == i16::MAX,
                self.val + rhs.rinto_spec().val < i16::MIN ==> r.val == i16::MIN,
    { unimplemented!() }
}
// `type Range = ri16<{ LO }, { HI }>; Range::try_new("what", v)`: the bounds of an anonymous range are passed explicitly
#[verifier::external_body]
pub fn verif_try_new_range_16(lo: i128, hi: i128, v: i64) -> (res: Result<ri16, Error>)
    requires i16::MIN <= lo, hi <= i16::MAX,
    ensures res.is_ok() <==> lo <= v <= hi, res.is_ok() ==> res.unwrap().val == v
{ unimplemented!() }
impl RInto<ri16> for ri16 {
    open spec fn rinto_spec(self) -> ri16 { self }
    open spec fn rinto_req(self) -> bool { true }
    fn rinto(self) -> (r: ri16) { self }
}
impl RFrom<ri16> for ri16 {
    open spec fn rfrom_spec(t: ri16) -> ri16 { t }
    open spec fn rfrom_req(t: ri16) -> bool { true }
    fn rfrom(t: ri16) -> (r: ri16) { t }
}
impl RInto<ri16> for Constant {
    open spec fn rinto_spec(self) -> ri16 { ri16 { val: self.0 as i16 } }
    open spec fn rinto_req(self) -> bool { i16::MIN <= self.0 <= i16::MAX }
    #[verifier::external_body]
    fn rinto(self) -> (r: ri16) { unimplemented!() }
}
impl RFrom<Constant> for ri16 {
    open spec fn rfrom_spec(t: Constant) -> ri16 { ri16 { val: t.0 as i16 } }
    open spec fn rfrom_req(t: Constant) -> bool { i16::MIN <= t.0 <= i16::MAX }
    #[verifier::external_body]
    fn rfrom(t: Constant) -> (r: ri16) { unimplemented!() }
}
impl RInto<i16> for ri16 {
    open spec fn rinto_spec(self) -> i16 { self.val }
    open spec fn rinto_req(self) -> bool { true }
    fn rinto(self) -> (r: i16) { self.val }
}

impl PartialEqSpecImpl<ri16> for ri16 {
    open spec fn obeys_eq_spec() -> bool { true }
    open spec fn eq_spec(&self, other: &ri16) -> bool { self.val == other.val }
}
impl PartialEq<ri16> for ri16 {
    #[verifier::external_body]
    fn eq(&self, other: &ri16) -> bool { unimplemented!() }
}
impl PartialOrdSpecImpl<ri16> for ri16 {
    open spec fn obeys_partial_cmp_spec() -> bool { true }
    open spec fn partial_cmp_spec(&self, other: &ri16) -> Option<Ordering> { Some(int_cmp(self.val as int, other.val as int)) }
}
impl PartialOrd<ri16> for ri16 {
    #[verifier::external_body]
    fn partial_cmp(&self, other: &ri16) -> Option<Ordering> { unimplemented!() }
}

impl PartialEqSpecImpl<Constant> for ri16 {
    open spec fn obeys_eq_spec() -> bool { true }
    open spec fn eq_spec(&self, other: &Constant) -> bool { self.val == other.0 }
}
impl PartialEq<Constant> for ri16 {
    #[verifier::external_body]
    fn eq(&self, other: &Constant) -> bool { unimplemented!() }
}
impl PartialOrdSpecImpl<Constant> for ri16 {
    open spec fn obeys_partial_cmp_spec() -> bool { true }
    open spec fn partial_cmp_spec(&self, other: &Constant) -> Option<Ordering> { Some(int_cmp(self.val as int, other.0 as int)) }
}
impl PartialOrd<Constant> for ri16 {
    #[verifier::external_body]
    fn partial_cmp(&self, other: &Constant) -> Option<Ordering> { unimplemented!() }
}

impl PartialEqSpecImpl<ri8> for ri16 {
    open spec fn obeys_eq_spec() -> bool { true }
    open spec fn eq_spec(&self, other: &ri8) -> bool { self.val == other.val }
}
impl PartialEq<ri8> for ri16 {
    #[verifier::external_body]
    fn eq(&self, other: &ri8) -> bool { unimplemented!() }
}
impl PartialOrdSpecImpl<ri8> for ri16 {
    open spec fn obeys_partial_cmp_spec() -> bool { true }
    open spec fn partial_cmp_spec(&self, other: &ri8) -> Option<Ordering> { Some(int_cmp(self.val as int, other.val as int)) }
}
impl PartialOrd<ri8> for ri16 {
    #[verifier::external_body]
    fn partial_cmp(&self, other: &ri8) -> Option<Ordering> { unimplemented!() }
}

impl PartialEqSpecImpl<ri32> for ri16 {
    open spec fn obeys_eq_spec() -> bool { true }
    open spec fn eq_spec(&self, other: &ri32) -> bool { self.val == other.val }
}
impl PartialEq<ri32> for ri16 {
    #[verifier::external_body]
    fn eq(&self, other: &ri32) -> bool { unimplemented!() }
}
impl PartialOrdSpecImpl<ri32> for ri16 {
    open spec fn obeys_partial_cmp_spec() -> bool { true }
    open spec fn partial_cmp_spec(&self, other: &ri32) -> Option<Ordering> { Some(int_cmp(self.val as int, other.val as int)) }
}
impl PartialOrd<ri32> for ri16 {
    #[verifier::external_body]
    fn partial_cmp(&self, other: &ri32) -> Option<Ordering> { unimplemented!() }
}

impl PartialEqSpecImpl<ri64> for ri16 {
    open spec fn obeys_eq_spec() -> bool { true }
    open spec fn eq_spec(&self, other: &ri64) -> bool { self.val == other.val }
}
impl PartialEq<ri64> for ri16 {
    #[verifier::external_body]
    fn eq(&self, other: &ri64) -> bool { unimplemented!() }
}
impl PartialOrdSpecImpl<ri64> for ri16 {
    open spec fn obeys_partial_cmp_spec() -> bool { true }
    open spec fn partial_cmp_spec(&self, other: &ri64) -> Option<Ordering> { Some(int_cmp(self.val as int, other.val as int)) }
}
impl PartialOrd<ri64> for ri16 {
    #[verifier::external_body]
    fn partial_cmp(&self, other: &ri64) -> Option<Ordering> { unimplemented!() }
}

impl PartialEqSpecImpl<ri128> for ri16 {
    open spec fn obeys_eq_spec() -> bool { true }
    open spec fn eq_spec(&self, other: &ri128) -> bool { self.val == other.val }
}
impl PartialEq<ri128> for ri16 {
    #[verifier::external_body]
    fn eq(&self, other: &ri128) -> bool { unimplemented!() }
}
impl PartialOrdSpecImpl<ri128> for ri16 {
    open spec fn obeys_partial_cmp_spec() -> bool { true }
    open spec fn partial_cmp_spec(&self, other: &ri128) -> Option<Ordering> { Some(int_cmp(self.val as int, other.val as int)) }
}
impl PartialOrd<ri128> for ri16 {
    #[verifier::external_body]
    fn partial_cmp(&self, other: &ri128) -> Option<Ordering> { unimplemented!() }
}

impl AddSpecImpl<ri16> for ri16 {
    open spec fn obeys_add_spec() -> bool { true }
    open spec fn add_req(self, rhs: ri16) -> bool { i16::MIN <= self.val + rhs.val <= i16::MAX }
    open spec fn add_spec(self, rhs: ri16) -> ri16 { ri16 { val: (self.val + rhs.val) as i16 } }
}
impl core::ops::Add<ri16> for ri16 {
    type Output = ri16;
    #[verifier::external_body]
    fn add(self, rhs: ri16) -> ri16 { unimplemented!() }
}
impl AddAssignSpecImpl<ri16> for ri16 {
    open spec fn obeys_add_assign_spec() -> bool { true }
    open spec fn add_assign_req(&self, rhs: ri16) -> bool { i16::MIN <= self.val + rhs.val <= i16::MAX }
    open spec fn add_assign_spec(&self, rhs: ri16) -> &ri16 { &ri16 { val: (self.val + rhs.val) as i16 } }
}
impl core::ops::AddAssign<ri16> for ri16 {
    #[verifier::external_body]
    fn add_assign(&mut self, rhs: ri16) { unimplemented!() }
}

impl SubSpecImpl<ri16> for ri16 {
    open spec fn obeys_sub_spec() -> bool { true }
    open spec fn sub_req(self, rhs: ri16) -> bool { i16::MIN <= self.val - rhs.val <= i16::MAX }
    open spec fn sub_spec(self, rhs: ri16) -> ri16 { ri16 { val: (self.val - rhs.val) as i16 } }
}
impl core::ops::Sub<ri16> for ri16 {
    type Output = ri16;
    #[verifier::external_body]
    fn sub(self, rhs: ri16) -> ri16 { unimplemented!() }
}
impl SubAssignSpecImpl<ri16> for ri16 {
    open spec fn obeys_sub_assign_spec() -> bool { true }
    open spec fn sub_assign_req(&self, rhs: ri16) -> bool { i16::MIN <= self.val - rhs.val <= i16::MAX }
    open spec fn sub_assign_spec(&self, rhs: ri16) -> &ri16 { &ri16 { val: (self.val - rhs.val) as i16 } }
}
impl core::ops::SubAssign<ri16> for ri16 {
    #[verifier::external_body]
    fn sub_assign(&mut self, rhs: ri16) { unimplemented!() }
}

impl MulSpecImpl<ri16> for ri16 {
    open spec fn obeys_mul_spec() -> bool { true }
    open spec fn mul_req(self, rhs: ri16) -> bool { i16::MIN <= self.val * rhs.val <= i16::MAX }
    open spec fn mul_spec(self, rhs: ri16) -> ri16 { ri16 { val: (self.val * rhs.val) as i16 } }
}
impl core::ops::Mul<ri16> for ri16 {
    type Output = ri16;
    #[verifier::external_body]
    fn mul(self, rhs: ri16) -> ri16 { unimplemented!() }
}
impl MulAssignSpecImpl<ri16> for ri16 {
    open spec fn obeys_mul_assign_spec() -> bool { true }
    open spec fn mul_assign_req(&self, rhs: ri16) -> bool { i16::MIN <= self.val * rhs.val <= i16::MAX }
    open spec fn mul_assign_spec(&self, rhs: ri16) -> &ri16 { &ri16 { val: (self.val * rhs.val) as i16 } }
}
impl core::ops::MulAssign<ri16> for ri16 {
    #[verifier::external_body]
    fn mul_assign(&mut self, rhs: ri16) { unimplemented!() }
}

impl DivSpecImpl<ri16> for ri16 {
    open spec fn obeys_div_spec() -> bool { true }
    open spec fn div_req(self, rhs: ri16) -> bool { rhs.val > 0 }
    open spec fn div_spec(self, rhs: ri16) -> ri16 { ri16 { val: (self.val as int / rhs.val as int) as i16 } }
}
impl core::ops::Div<ri16> for ri16 {
    type Output = ri16;
    #[verifier::external_body]
    fn div(self, rhs: ri16) -> ri16 { unimplemented!() }
}
impl RemSpecImpl<ri16> for ri16 {
    open spec fn obeys_rem_spec() -> bool { true }
    open spec fn rem_req(self, rhs: ri16) -> bool { rhs.val > 0 }
    open spec fn rem_spec(self, rhs: ri16) -> ri16 { ri16 { val: (self.val as int % rhs.val as int) as i16 } }
}
impl core::ops::Rem<ri16> for ri16 {
    type Output = ri16;
    #[verifier::external_body]
    fn rem(self, rhs: ri16) -> ri16 { unimplemented!() }
}

impl AddSpecImpl<Constant> for ri16 {
    open spec fn obeys_add_spec() -> bool { true }
    open spec fn add_req(self, rhs: Constant) -> bool { i16::MIN <= self.val + rhs.0 <= i16::MAX }
    open spec fn add_spec(self, rhs: Constant) -> ri16 { ri16 { val: (self.val + rhs.0) as i16 } }
}
impl core::ops::Add<Constant> for ri16 {
    type Output = ri16;
    #[verifier::external_body]
    fn add(self, rhs: Constant) -> ri16 { unimplemented!() }
}
impl AddAssignSpecImpl<Constant> for ri16 {
    open spec fn obeys_add_assign_spec() -> bool { true }
    open spec fn add_assign_req(&self, rhs: Constant) -> bool { i16::MIN <= self.val + rhs.0 <= i16::MAX }
    open spec fn add_assign_spec(&self, rhs: Constant) -> &ri16 { &ri16 { val: (self.val + rhs.0) as i16 } }
}
impl core::ops::AddAssign<Constant> for ri16 {
    #[verifier::external_body]
    fn add_assign(&mut self, rhs: Constant) { unimplemented!() }
}

impl SubSpecImpl<Constant> for ri16 {
    open spec fn obeys_sub_spec() -> bool { true }
    open spec fn sub_req(self, rhs: Constant) -> bool { i16::MIN <= self.val - rhs.0 <= i16::MAX }
    open spec fn sub_spec(self, rhs: Constant) -> ri16 { ri16 { val: (self.val - rhs.0) as i16 } }
}
impl core::ops::Sub<Constant> for ri16 {
    type Output = ri16;
    #[verifier::external_body]
    fn sub(self, rhs: Constant) -> ri16 { unimplemented!() }
}
impl SubAssignSpecImpl<Constant> for ri16 {
    open spec fn obeys_sub_assign_spec() -> bool { true }
    open spec fn sub_assign_req(&self, rhs: Constant) -> bool { i16::MIN <= self.val - rhs.0 <= i16::MAX }
    open spec fn sub_assign_spec(&self, rhs: Constant) -> &ri16 { &ri16 { val: (self.val - rhs.0) as i16 } }
}
impl core::ops::SubAssign<Constant> for ri16 {
    #[verifier::external_body]
    fn sub_assign(&mut self, rhs: Constant) { unimplemented!() }
}

impl MulSpecImpl<Constant> for ri16 {
    open spec fn obeys_mul_spec() -> bool { true }
    open spec fn mul_req(self, rhs: Constant) -> bool { i16::MIN <= self.val * rhs.0 <= i16::MAX }
    open spec fn mul_spec(self, rhs: Constant) -> ri16 { ri16 { val: (self.val * rhs.0) as i16 } }
}
impl core::ops::Mul<Constant> for ri16 {
    type Output = ri16;
    #[verifier::external_body]
    fn mul(self, rhs: Constant) -> ri16 { unimplemented!() }
}
impl MulAssignSpecImpl<Constant> for ri16 {
    open spec fn obeys_mul_assign_spec() -> bool { true }
    open spec fn mul_assign_req(&self, rhs: Constant) -> bool { i16::MIN <= self.val * rhs.0 <= i16::MAX }
    open spec fn mul_assign_spec(&self, rhs: Constant) -> &ri16 { &ri16 { val: (self.val * rhs.0) as i16 } }
}
impl core::ops::MulAssign<Constant> for ri16 {
    #[verifier::external_body]
    fn mul_assign(&mut self, rhs: Constant) { unimplemented!() }
}

impl DivSpecImpl<Constant> for ri16 {
    open spec fn obeys_div_spec() -> bool { true }
    open spec fn div_req(self, rhs: Constant) -> bool { rhs.0 > 0 }
    open spec fn div_spec(self, rhs: Constant) -> ri16 { ri16 { val: (self.val as int / rhs.0 as int) as i16 } }
}
impl core::ops::Div<Constant> for ri16 {
    type Output = ri16;
    #[verifier::external_body]
    fn div(self, rhs: Constant) -> ri16 { unimplemented!() }
}
impl RemSpecImpl<Constant> for ri16 {
    open spec fn obeys_rem_spec() -> bool { true }
    open spec fn rem_req(self, rhs: Constant) -> bool { rhs.0 > 0 }
    open spec fn rem_spec(self, rhs: Constant) -> ri16 { ri16 { val: (self.val as int % rhs.0 as int) as i16 } }
}
impl core::ops::Rem<Constant> for ri16 {
    type Output = ri16;
    #[verifier::external_body]
    fn rem(self, rhs: Constant) -> ri16 { unimplemented!() }
}

impl AddSpecImpl<ri8> for ri16 {
    open spec fn obeys_add_spec() -> bool { true }
    open spec fn add_req(self, rhs: ri8) -> bool { i16::MIN <= self.val + rhs.val <= i16::MAX }
    open spec fn add_spec(self, rhs: ri8) -> ri16 { ri16 { val: (self.val + rhs.val) as i16 } }
}
impl core::ops::Add<ri8> for ri16 {
    type Output = ri16;
    #[verifier::external_body]
    fn add(self, rhs: ri8) -> ri16 { unimplemented!() }
}
impl AddAssignSpecImpl<ri8> for ri16 {
    open spec fn obeys_add_assign_spec() -> bool { true }
    open spec fn add_assign_req(&self, rhs: ri8) -> bool { i16::MIN <= self.val + rhs.val <= i16::MAX }
    open spec fn add_assign_spec(&self, rhs: ri8) -> &ri16 { &ri16 { val: (self.val + rhs.val) as i16 } }
}
impl core::ops::AddAssign<ri8> for ri16 {
    #[verifier::external_body]
    fn add_assign(&mut self, rhs: ri8) { unimplemented!() }
}

impl SubSpecImpl<ri8> for ri16 {
    open spec fn obeys_sub_spec() -> bool { true }
    open spec fn sub_req(self, rhs: ri8) -> bool { i16::MIN <= self.val - rhs.val <= i16::MAX }
    open spec fn sub_spec(self, rhs: ri8) -> ri16 { ri16 { val: (self.val - rhs.val) as i16 } }
}
impl core::ops::Sub<ri8> for ri16 {
    type Output = ri16;
    #[verifier::external_body]
    fn sub(self, rhs: ri8) -> ri16 { unimplemented!() }
}
impl SubAssignSpecImpl<ri8> for ri16 {
    open spec fn obeys_sub_assign_spec() -> bool { true }
    open spec fn sub_assign_req(&self, rhs: ri8) -> bool { i16::MIN <= self.val - rhs.val <= i16::MAX }
    open spec fn sub_assign_spec(&self, rhs: ri8) -> &ri16 { &ri16 { val: (self.val - rhs.val) as i16 } }
}
impl core::ops::SubAssign<ri8> for ri16 {
    #[verifier::external_body]
    fn sub_assign(&mut self, rhs: ri8) { unimplemented!() }
}

impl MulSpecImpl<ri8> for ri16 {
    open spec fn obeys_mul_spec() -> bool { true }
    open spec fn mul_req(self, rhs: ri8) -> bool { i16::MIN <= self.val * rhs.val <= i16::MAX }
    open spec fn mul_spec(self, rhs: ri8) -> ri16 { ri16 { val: (self.val * rhs.val) as i16 } }
}
impl core::ops::Mul<ri8> for ri16 {
    type Output = ri16;
    #[verifier::external_body]
    fn mul(self, rhs: ri8) -> ri16 { unimplemented!() }
}
impl MulAssignSpecImpl<ri8> for ri16 {
    open spec fn obeys_mul_assign_spec() -> bool { true }
    open spec fn mul_assign_req(&self, rhs: ri8) -> bool { i16::MIN <= self.val * rhs.val <= i16::MAX }
    open spec fn mul_assign_spec(&self, rhs: ri8) -> &ri16 { &ri16 { val: (self.val * rhs.val) as i16 } }
}
impl core::ops::MulAssign<ri8> for ri16 {
    #[verifier::external_body]
    fn mul_assign(&mut self, rhs: ri8) { unimplemented!() }
}

impl DivSpecImpl<ri8> for ri16 {
    open spec fn obeys_div_spec() -> bool { true }
    open spec fn div_req(self, rhs: ri8) -> bool { rhs.val > 0 }
    open spec fn div_spec(self, rhs: ri8) -> ri16 { ri16 { val: (self.val as int / rhs.val as int) as i16 } }
}
impl core::ops::Div<ri8> for ri16 {
    type Output = ri16;
    #[verifier::external_body]
    fn div(self, rhs: ri8) -> ri16 { unimplemented!() }
}
impl RemSpecImpl<ri8> for ri16 {
    open spec fn obeys_rem_spec() -> bool { true }
    open spec fn rem_req(self, rhs: ri8) -> bool { rhs.val > 0 }
    open spec fn rem_spec(self, rhs: ri8) -> ri16 { ri16 { val: (self.val as int % rhs.val as int) as i16 } }
}
impl core::ops::Rem<ri8> for ri16 {
    type Output = ri16;
    #[verifier::external_body]
    fn rem(self, rhs: ri8) -> ri16 { unimplemented!() }
}

impl AddSpecImpl<ri32> for ri16 {
    open spec fn obeys_add_spec() -> bool { true }
    open spec fn add_req(self, rhs: ri32) -> bool { i16::MIN <= self.val + rhs.val <= i16::MAX }
    open spec fn add_spec(self, rhs: ri32) -> ri16 { ri16 { val: (self.val + rhs.val) as i16 } }
}
impl core::ops::Add<ri32> for ri16 {
    type Output = ri16;
    #[verifier::external_body]
    fn add(self, rhs: ri32) -> ri16 { unimplemented!() }
}
impl AddAssignSpecImpl<ri32> for ri16 {
    open spec fn obeys_add_assign_spec() -> bool { true }
    open spec fn add_assign_req(&self, rhs: ri32) -> bool { i16::MIN <= self.val + rhs.val <= i16::MAX }
    open spec fn add_assign_spec(&self, rhs: ri32) -> &ri16 { &ri16 { val: (self.val + rhs.val) as i16 } }
}
impl core::ops::AddAssign<ri32> for ri16 {
    #[verifier::external_body]
    fn add_assign(&mut self, rhs: ri32) { unimplemented!() }
}

impl SubSpecImpl<ri32> for ri16 {
    open spec fn obeys_sub_spec() -> bool { true }
    open spec fn sub_req(self, rhs: ri32) -> bool { i16::MIN <= self.val - rhs.val <= i16::MAX }
    open spec fn sub_spec(self, rhs: ri32) -> ri16 { ri16 { val: (self.val - rhs.val) as i16 } }
}
impl core::ops::Sub<ri32> for ri16 {
    type Output = ri16;
    #[verifier::external_body]
    fn sub(self, rhs: ri32) -> ri16 { unimplemented!() }
}
impl SubAssignSpecImpl<ri32> for ri16 {
    open spec fn obeys_sub_assign_spec() -> bool { true }
    open spec fn sub_assign_req(&self, rhs: ri32) -> bool { i16::MIN <= self.val - rhs.val <= i16::MAX }
    open spec fn sub_assign_spec(&self, rhs: ri32) -> &ri16 { &ri16 { val: (self.val - rhs.val) as i16 } }
}
impl core::ops::SubAssign<ri32> for ri16 {
    #[verifier::external_body]
    fn sub_assign(&mut self, rhs: ri32) { unimplemented!() }
}

impl MulSpecImpl<ri32> for ri16 {
    open spec fn obeys_mul_spec() -> bool { true }
    open spec fn mul_req(self, rhs: ri32) -> bool { i16::MIN <= self.val * rhs.val <= i16::MAX }
    open spec fn mul_spec(self, rhs: ri32) -> ri16 { ri16 { val: (self.val * rhs.val) as i16 } }
}
impl core::ops::Mul<ri32> for ri16 {
    type Output = ri16;
    #[verifier::external_body]
    fn mul(self, rhs: ri32) -> ri16 { unimplemented!() }
}
impl MulAssignSpecImpl<ri32> for ri16 {
    open spec fn obeys_mul_assign_spec() -> bool { true }
    open spec fn mul_assign_req(&self, rhs: ri32) -> bool { i16::MIN <= self.val * rhs.val <= i16::MAX }
    open spec fn mul_assign_spec(&self, rhs: ri32) -> &ri16 { &ri16 { val: (self.val * rhs.val) as i16 } }
}
impl core::ops::MulAssign<ri32> for ri16 {
    #[verifier::external_body]
    fn mul_assign(&mut self, rhs: ri32) { unimplemented!() }
}

impl DivSpecImpl<ri32> for ri16 {
    open spec fn obeys_div_spec() -> bool { true }
    open spec fn div_req(self, rhs: ri32) -> bool { rhs.val > 0 }
    open spec fn div_spec(self, rhs: ri32) -> ri16 { ri16 { val: (self.val as int / rhs.val as int) as i16 } }
}
impl core::ops::Div<ri32> for ri16 {
    type Output = ri16;
    #[verifier::external_body]
    fn div(self, rhs: ri32) -> ri16 { unimplemented!() }
}
impl RemSpecImpl<ri32> for ri16 {
    open spec fn obeys_rem_spec() -> bool { true }
    open spec fn rem_req(self, rhs: ri32) -> bool { rhs.val > 0 }
    open spec fn rem_spec(self, rhs: ri32) -> ri16 { ri16 { val: (self.val as int % rhs.val as int) as i16 } }
}
impl core::ops::Rem<ri32> for ri16 {
    type Output = ri16;
    #[verifier::external_body]
    fn rem(self, rhs: ri32) -> ri16 { unimplemented!() }
}

impl AddSpecImpl<ri64> for ri16 {
    open spec fn obeys_add_spec() -> bool { true }
    open spec fn add_req(self, rhs: ri64) -> bool { i16::MIN <= self.val + rhs.val <= i16::MAX }
    open spec fn add_spec(self, rhs: ri64) -> ri16 { ri16 { val: (self.val + rhs.val) as i16 } }
}
impl core::ops::Add<ri64> for ri16 {
    type Output = ri16;
    #[verifier::external_body]
    fn add(self, rhs: ri64) -> ri16 { unimplemented!() }
}
impl AddAssignSpecImpl<ri64> for ri16 {
    open spec fn obeys_add_assign_spec() -> bool { true }
    open spec fn add_assign_req(&self, rhs: ri64) -> bool { i16::MIN <= self.val + rhs.val <= i16::MAX }
    open spec fn add_assign_spec(&self, rhs: ri64) -> &ri16 { &ri16 { val: (self.val + rhs.val) as i16 } }
}
impl core::ops::AddAssign<ri64> for ri16 {
    #[verifier::external_body]
    fn add_assign(&mut self, rhs: ri64) { unimplemented!() }
}

impl SubSpecImpl<ri64> for ri16 {
    open spec fn obeys_sub_spec() -> bool { true }
    open spec fn sub_req(self, rhs: ri64) -> bool { i16::MIN <= self.val - rhs.val <= i16::MAX }
    open spec fn sub_spec(self, rhs: ri64) -> ri16 { ri16 { val: (self.val - rhs.val) as i16 } }
}
impl core::ops::Sub<ri64> for ri16 {
    type Output = ri16;
    #[verifier::external_body]
    fn sub(self, rhs: ri64) -> ri16 { unimplemented!() }
}
impl SubAssignSpecImpl<ri64> for ri16 {
    open spec fn obeys_sub_assign_spec() -> bool { true }
    open spec fn sub_assign_req(&self, rhs: ri64) -> bool { i16::MIN <= self.val - rhs.val <= i16::MAX }
    open spec fn sub_assign_spec(&self, rhs: ri64) -> &ri16 { &ri16 { val: (self.val - rhs.val) as i16 } }
}
impl core::ops::SubAssign<ri64> for ri16 {
    #[verifier::external_body]
    fn sub_assign(&mut self, rhs: ri64) { unimplemented!() }
}

impl MulSpecImpl<ri64> for ri16 {
    open spec fn obeys_mul_spec() -> bool { true }
    open spec fn mul_req(self, rhs: ri64) -> bool { i16::MIN <= self.val * rhs.val <= i16::MAX }
    open spec fn mul_spec(self, rhs: ri64) -> ri16 { ri16 { val: (self.val * rhs.val) as i16 } }
}
impl core::ops::Mul<ri64> for ri16 {
    type Output = ri16;
    #[verifier::external_body]
    fn mul(self, rhs: ri64) -> ri16 { unimplemented!() }
}
impl MulAssignSpecImpl<ri64> for ri16 {
    open spec fn obeys_mul_assign_spec() -> bool { true }
    open spec fn mul_assign_req(&self, rhs: ri64) -> bool { i16::MIN <= self.val * rhs.val <= i16::MAX }
    open spec fn mul_assign_spec(&self, rhs: ri64) -> &ri16 { &ri16 { val: (self.val * rhs.val) as i16 } }
}
impl core::ops::MulAssign<ri64> for ri16 {
    #[verifier::external_body]
    fn mul_assign(&mut self, rhs: ri64) { unimplemented!() }
}

impl DivSpecImpl<ri64> for ri16 {
    open spec fn obeys_div_spec() -> bool { true }
    open spec fn div_req(self, rhs: ri64) -> bool { rhs.val > 0 }
    open spec fn div_spec(self, rhs: ri64) -> ri16 { ri16 { val: (self.val as int / rhs.val as int) as i16 } }
}
impl core::ops::Div<ri64> for ri16 {
    type Output = ri16;
    #[verifier::external_body]
    fn div(self, rhs: ri64) -> ri16 { unimplemented!() }
}
impl RemSpecImpl<ri64> for ri16 {
    open spec fn obeys_rem_spec() -> bool { true }
    open spec fn rem_req(self, rhs: ri64) -> bool { rhs.val > 0 }
    open spec fn rem_spec(self, rhs: ri64) -> ri16 { ri16 { val: (self.val as int % rhs.val as int) as i16 } }
}
impl core::ops::Rem<ri64> for ri16 {
    type Output = ri16;
    #[verifier::external_body]
    fn rem(self, rhs: ri64) -> ri16 { unimplemented!() }
}

impl AddSpecImpl<ri128> for ri16 {
    open spec fn obeys_add_spec() -> bool { true }
    open spec fn add_req(self, rhs: ri128) -> bool { i16::MIN <= self.val + rhs.val <= i16::MAX }
    open spec fn add_spec(self, rhs: ri128) -> ri16 { ri16 { val: (self.val + rhs.val) as i16 } }
}
impl core::ops::Add<ri128> for ri16 {
    type Output = ri16;
    #[verifier::external_body]
    fn add(self, rhs: ri128) -> ri16 { unimplemented!() }
}
impl AddAssignSpecImpl<ri128> for ri16 {
    open spec fn obeys_add_assign_spec() -> bool { true }
    open spec fn add_assign_req(&self, rhs: ri128) -> bool { i16::MIN <= self.val + rhs.val <= i16::MAX }
    open spec fn add_assign_spec(&self, rhs: ri128) -> &ri16 { &ri16 { val: (self.val + rhs.val) as i16 } }
}
impl core::ops::AddAssign<ri128> for ri16 {
    #[verifier::external_body]
    fn add_assign(&mut self, rhs: ri128) { unimplemented!() }
}

impl SubSpecImpl<ri128> for ri16 {
    open spec fn obeys_sub_spec() -> bool { true }
    open spec fn sub_req(self, rhs: ri128) -> bool { i16::MIN <= self.val - rhs.val <= i16::MAX }
    open spec fn sub_spec(self, rhs: ri128) -> ri16 { ri16 { val: (self.val - rhs.val) as i16 } }
}
impl core::ops::Sub<ri128> for ri16 {
    type Output = ri16;
    #[verifier::external_body]
    fn sub(self, rhs: ri128) -> ri16 { unimplemented!() }
}
impl SubAssignSpecImpl<ri128> for ri16 {
    open spec fn obeys_sub_assign_spec() -> bool { true }
    open spec fn sub_assign_req(&self, rhs: ri128) -> bool { i16::MIN <= self.val - rhs.val <= i16::MAX }
    open spec fn sub_assign_spec(&self, rhs: ri128) -> &ri16 { &ri16 { val: (self.val - rhs.val) as i16 } }
}
impl core::ops::SubAssign<ri128> for ri16 {
    #[verifier::external_body]
    fn sub_assign(&mut self, rhs: ri128) { unimplemented!() }
}

impl MulSpecImpl<ri128> for ri16 {
    open spec fn obeys_mul_spec() -> bool { true }
    open spec fn mul_req(self, rhs: ri128) -> bool { i16::MIN <= self.val * rhs.val <= i16::MAX }
    open spec fn mul_spec(self, rhs: ri128) -> ri16 { ri16 { val: (self.val * rhs.val) as i16 } }
}
impl core::ops::Mul<ri128> for ri16 {
    type Output = ri16;
    #[verifier::external_body]
    fn mul(self, rhs: ri128) -> ri16 { unimplemented!() }
}
impl MulAssignSpecImpl<ri128> for ri16 {
    open spec fn obeys_mul_assign_spec() -> bool { true }
    open spec fn mul_assign_req(&self, rhs: ri128) -> bool { i16::MIN <= self.val * rhs.val <= i16::MAX }
    open spec fn mul_assign_spec(&self, rhs: ri128) -> &ri16 { &ri16 { val: (self.val * rhs.val) as i16 } }
}
impl core::ops::MulAssign<ri128> for ri16 {
    #[verifier::external_body]
    fn mul_assign(&mut self, rhs: ri128) { unimplemented!() }
}

impl DivSpecImpl<ri128> for ri16 {
    open spec fn obeys_div_spec() -> bool { true }
    open spec fn div_req(self, rhs: ri128) -> bool { rhs.val > 0 }
    open spec fn div_spec(self, rhs: ri128) -> ri16 { ri16 { val: (self.val as int / rhs.val as int) as i16 } }
}
impl core::ops::Div<ri128> for ri16 {
    type Output = ri16;
    #[verifier::external_body]
    fn div(self, rhs: ri128) -> ri16 { unimplemented!() }
}
impl RemSpecImpl<ri128> for ri16 {
    open spec fn obeys_rem_spec() -> bool { true }
    open spec fn rem_req(self, rhs: ri128) -> bool { rhs.val > 0 }
    open spec fn rem_spec(self, rhs: ri128) -> ri16 { ri16 { val: (self.val as int % rhs.val as int) as i16 } }
}
impl core::ops::Rem<ri128> for ri16 {
    type Output = ri16;
    #[verifier::external_body]
    fn rem(self, rhs: ri128) -> ri16 { unimplemented!() }
}

impl NegSpecImpl for ri16 {
    open spec fn obeys_neg_spec() -> bool { true }
    open spec fn neg_req(self) -> bool { self.val > i16::MIN }
    open spec fn neg_spec(self) -> ri16 { ri16 { val: (-self.val) as i16 } }
}
impl core::ops::Neg for ri16 {
    type Output = ri16;
    #[verifier::external_body]
    fn neg(self) -> ri16 { unimplemented!() }
}


// ------------------------------------------------------------------ ri32
#[derive(Clone, Copy)]
pub struct ri32 { pub val: i32 }
impl ri32 {
    pub fn new_unchecked(val: i32) -> (r: Self) ensures r.val == val { ri32 { val } }
    pub fn get(self) -> (r: i32) ensures r == self.val { self.val }
    pub fn get_unchecked(self) -> (r: i32) ensures r == self.val { self.val }
    pub fn without_bounds(self) -> (r: Self) ensures r == self { self }
    // `T::N::<VAL>()` is rewritten to `T::verif_N(VAL)`: the constant VAL (release: `Self { val: VAL }`, no bound is consulted).
    // (Not modelled with a const generic: Verus 0.2026.09.13 derives `false` from a negative const generic argument.)
    pub const fn verif_N(v: i32) -> (r: Self) ensures r.val == v { ri32 { val: v } }
    #[verifier::external_body]
    pub fn abs(self) -> (r: Self)
        requires self.val > i32::MIN,
        ensures r.val == (if self.val < 0 { -self.val } else { self.val as int })
    { unimplemented!() }
    // real: returns `riN<-1, 1>` of the SAME width
    pub fn signum(self) -> (r: Self) ensures r.val == (if self.val < 0 { -1int } else if self.val > 0 { 1int } else { 0int })
    { if self.val < 0 { ri32 { val: -1 } } else if self.val > 0 { ri32 { val: 1 } } else { ri32 { val: 0 } } }
    pub fn min<R: RInto<Self>>(self, other: R) -> (r: Self)
        requires other.rinto_req(),
        ensures r.val == (if other.rinto_spec().val < self.val { other.rinto_spec().val } else { self.val })
    { let o = other.rinto(); if o.val < self.val { o } else { self } }
    pub fn max<R: RInto<Self>>(self, other: R) -> (r: Self)
        requires other.rinto_req(),
        ensures r.val == (if other.rinto_spec().val > self.val { other.rinto_spec().val } else { self.val })
    { let o = other.rinto(); if o.val > self.val { o } else { self } }
    // truncating
    #[verifier::external_body]
    pub fn div_ceil<R: RInto<Self>>(self, rhs: R) -> (r: Self)
        requires rhs.rinto_req(), rhs.rinto_spec().val != 0, !(self.val == i32::MIN && rhs.rinto_spec().val == -1),
        ensures r.val == tdiv(self.val as int, rhs.rinto_spec().val as int)
    { unimplemented!() }
    #[verifier::external_body]
    pub fn rem_ceil<R: RInto<Self>>(self, rhs: R) -> (r: Self)
        requires rhs.rinto_req(), rhs.rinto_spec().val != 0, !(self.val == i32::MIN && rhs.rinto_spec().val == -1),
        ensures r.val == trem(self.val as int, rhs.rinto_spec().val as int)
    { unimplemented!() }
    // Euclidean (divisor > 0 required here; every use in jiff divides by a positive quantity)
    #[verifier::external_body]
    pub fn div_floor<R: RInto<Self>>(self, rhs: R) -> (r: Self)
        requires rhs.rinto_req(), rhs.rinto_spec().val > 0,
        ensures r.val == (self.val as int) / (rhs.rinto_spec().val as int)
    { unimplemented!() }
    #[verifier::external_body]
    pub fn rem_floor<R: RInto<Self>>(self, rhs: R) -> (r: Self)
        requires rhs.rinto_req(), rhs.rinto_spec().val > 0,
        ensures r.val == (self.val as int) % (rhs.rinto_spec().val as int)
    { unimplemented!() }
    #[verifier::external_body]
    pub fn saturating_mul<R: RInto<Self>>(self, rhs: R) -> (r: Self)
        requires rhs.rinto_req(),
        ensures i32::MIN <= self.val * rhs.rinto_spec().val <= i32::MAX ==> r.val == self.val * rhs.rinto_spec().val,
                self.val * rhs.rinto_spec().val > i32::MAX ==> r.val == i32::MAX,
                self.val * rhs.rinto_spec().val < i32::MIN ==> r.val == i32::MIN,
    { unimplemented!() }
    #[verifier::external_body]
    pub fn saturating_add<R: RInto<Self>>(self, rhs: R) -> (r: Self)
        requires rhs.rinto_req(),
        ensures i32::MIN <= self.val + rhs.rinto_spec().val <= i32::MAX ==> r.val == self.val + rhs.rinto_spec().val,
                self.val + rhs.rinto_spec().val > i32::MAX ==> r.val == i32::MAX,
                self.val + rhs.rinto_spec().val < i32::MIN ==> r.val == i32::MIN,
    { unimplemented!() }
}
// `type Range = ri32<{ LO }, { HI }>; Range::try_new("what", v)`: the bounds of an anonymous range are passed explicitly
#[verifier::external_body]
pub fn verif_try_new_range_32(lo: i128, hi: i128, v: i64) -> (res: Result<ri32, Error>)
    requires i32::MIN <= lo, hi <= i32::MAX,
    ensures res.is_ok() <==> lo <= v <= hi, res.is_ok() ==> res.unwrap().val == v
{ unimplemented!() }
impl RInto<ri32> for ri32 {
    open spec fn rinto_spec(self) -> ri32 { self }
    open spec fn rinto_req(self) -> bool { true }
    fn rinto(self) -> (r: ri32) { self }
}
impl RFrom<ri32> for ri32 {
    open spec fn rfrom_spec(t: ri32) -> ri32 { t }
    open spec fn rfrom_req(t: ri32) -> bool { true }
    fn rfrom(t: ri32) -> (r: ri32) { t }
}
impl RInto<ri32> for Constant {
    open spec fn rinto_spec(self) -> ri32 { ri32 { val: self.0 as i32 } }
    open spec fn rinto_req(self) -> bool { i32::MIN <= self.0 <= i32::MAX }
    #[verifier::external_body]
    fn rinto(self) -> (r: ri32) { unimplemented!() }
}
impl RFrom<Constant> for ri32 {
    open spec fn rfrom_spec(t: Constant) -> ri32 { ri32 { val: t.0 as i32 } }
    open spec fn rfrom_req(t: Constant) -> bool { i32::MIN <= t.0 <= i32::MAX }
    #[verifier::external_body]
    fn rfrom(t: Constant) -> (r: ri32) { unimplemented!() }
}
impl RInto<i32> for ri32 {
    open spec fn rinto_spec(self) -> i32 { self.val }
    open spec fn rinto_req(self) -> bool { true }
    fn rinto(self) -> (r: i32) { self.val }
}

impl PartialEqSpecImpl<ri32> for ri32 {
    open spec fn obeys_eq_spec() -> bool { true }
    open spec fn eq_spec(&self, other: &ri32) -> bool { self.val == other.val }
}
impl PartialEq<ri32> for ri32 {
    #[verifier::external_body]
    fn eq(&self, other: &ri32) -> bool { unimplemented!() }
}
impl PartialOrdSpecImpl<ri32> for ri32 {
    open spec fn obeys_partial_cmp_spec() -> bool { true }
    open spec fn partial_cmp_spec(&self, other: &ri32) -> Option<Ordering> { Some(int_cmp(self.val as int, other.val as int)) }
}
impl PartialOrd<ri32> for ri32 {
    #[verifier::external_body]
    fn partial_cmp(&self, other: &ri32) -> Option<Ordering> { unimplemented!() }
}

impl PartialEqSpecImpl<Constant> for ri32 {
    open spec fn obeys_eq_spec() -> bool { true }
    open spec fn eq_spec(&self, other: &Constant) -> bool { self.val == other.0 }
}
impl PartialEq<Constant> for ri32 {
    #[verifier::external_body]
    fn eq(&self, other: &Constant) -> bool { unimplemented!() }
}
impl PartialOrdSpecImpl<Constant> for ri32 {
    open spec fn obeys_partial_cmp_spec() -> bool { true }
    open spec fn partial_cmp_spec(&self, other: &Constant) -> Option<Ordering> { Some(int_cmp(self.val as int, other.0 as int)) }
}
impl PartialOrd<Constant> for ri32 {
    #[verifier::external_body]
    fn partial_cmp(&self, other: &Constant) -> Option<Ordering> { unimplemented!() }
}

impl PartialEqSpecImpl<ri8> for ri32 {
    open spec fn obeys_eq_spec() -> bool { true }
    open spec fn eq_spec(&self, other: &ri8) -> bool { self.val == other.val }
}
impl PartialEq<ri8> for ri32 {
    #[verifier::external_body]
    fn eq(&self, other: &ri8) -> bool { unimplemented!() }
}
impl PartialOrdSpecImpl<ri8> for ri32 {
    open spec fn obeys_partial_cmp_spec() -> bool { true }
    open spec fn partial_cmp_spec(&self, other: &ri8) -> Option<Ordering> { Some(int_cmp(self.val as int, other.val as int)) }
}
impl PartialOrd<ri8> for ri32 {
    #[verifier::external_body]
    fn partial_cmp(&self, other: &ri8) -> Option<Ordering> { unimplemented!() }
}

impl PartialEqSpecImpl<ri16> for ri32 {
    open spec fn obeys_eq_spec() -> bool { true }
    open spec fn eq_spec(&self, other: &ri16) -> bool { self.val == other.val }
}
impl PartialEq<ri16> for ri32 {
    #[verifier::external_body]
    fn eq(&self, other: &ri16) -> bool { unimplemented!() }
}
impl PartialOrdSpecImpl<ri16> for ri32 {
    open spec fn obeys_partial_cmp_spec() -> bool { true }
    open spec fn partial_cmp_spec(&self, other: &ri16) -> Option<Ordering> { Some(int_cmp(self.val as int, other.val as int)) }
}
impl PartialOrd<ri16> for ri32 {
    #[verifier::external_body]
    fn partial_cmp(&self, other: &ri16) -> Option<Ordering> { unimplemented!() }
}

impl PartialEqSpecImpl<ri64> for ri32 {
    open spec fn obeys_eq_spec() -> bool { true }
    open spec fn eq_spec(&self, other: &ri64) -> bool { self.val == other.val }
}
impl PartialEq<ri64> for ri32 {
    #[verifier::external_body]
    fn eq(&self, other: &ri64) -> bool { unimplemented!() }
}
impl PartialOrdSpecImpl<ri64> for ri32 {
    open spec fn obeys_partial_cmp_spec() -> bool { true }
    open spec fn partial_cmp_spec(&self, other: &ri64) -> Option<Ordering> { Some(int_cmp(self.val as int, other.val as int)) }
}
impl PartialOrd<ri64> for ri32 {
    #[verifier::external_body]
    fn partial_cmp(&self, other: &ri64) -> Option<Ordering> { unimplemented!() }
}

impl PartialEqSpecImpl<ri128> for ri32 {
    open spec fn obeys_eq_spec() -> bool { true }
    open spec fn eq_spec(&self, other: &ri128) -> bool { self.val == other.val }
}
impl PartialEq<ri128> for ri32 {
    #[verifier::external_body]
    fn eq(&self, other: &ri128) -> bool { unimplemented!() }
}
impl PartialOrdSpecImpl<ri128> for ri32 {
    open spec fn obeys_partial_cmp_spec() -> bool { true }
    open spec fn partial_cmp_spec(&self, other: &ri128) -> Option<Ordering> { Some(int_cmp(self.val as int, other.val as int)) }
}
impl PartialOrd<ri128> for ri32 {
    #[verifier::external_body]
    fn partial_cmp(&self, other: &ri128) -> Option<Ordering> { unimplemented!() }
}

impl AddSpecImpl<ri32> for ri32 {
    open spec fn obeys_add_spec() -> bool { true }
    open spec fn add_req(self, rhs: ri32) -> bool { i32::MIN <= self.val + rhs.val <= i32::MAX }
    open spec fn add_spec(self, rhs: ri32) -> ri32 { ri32 { val: (self.val + rhs.val) as i32 } }
}
impl core::ops::Add<ri32> for ri32 {
    type Output = ri32;
    #[verifier::external_body]
    fn add(self, rhs: ri32) -> ri32 { unimplemented!() }
}
impl AddAssignSpecImpl<ri32> for ri32 {
    open spec fn obeys_add_assign_spec() -> bool { true }
    open spec fn add_assign_req(&self, rhs: ri32) -> bool { i32::MIN <= self.val + rhs.val <= i32::MAX }
    open spec fn add_assign_spec(&self, rhs: ri32) -> &ri32 { &ri32 { val: (self.val + rhs.val) as i32 } }
}
impl core::ops::AddAssign<ri32> for ri32 {
    #[verifier::external_body]
    fn add_assign(&mut self, rhs: ri32) { unimplemented!() }
}

impl SubSpecImpl<ri32> for ri32 {
    open spec fn obeys_sub_spec() -> bool { true }
    open spec fn sub_req(self, rhs: ri32) -> bool { i32::MIN <= self.val - rhs.val <= i32::MAX }
    open spec fn sub_spec(self, rhs: ri32) -> ri32 { ri32 { val: (self.val - rhs.val) as i32 } }
}
impl core::ops::Sub<ri32> for ri32 {
    type Output = ri32;
    #[verifier::external_body]
    fn sub(self, rhs: ri32) -> ri32 { unimplemented!() }
}
impl SubAssignSpecImpl<ri32> for ri32 {
    open spec fn obeys_sub_assign_spec() -> bool { true }
    open spec fn sub_assign_req(&self, rhs: ri32) -> bool { i32::MIN <= self.val - rhs.val <= i32::MAX }
    open spec fn sub_assign_spec(&self, rhs: ri32) -> &ri32 { &ri32 { val: (self.val - rhs.val) as i32 } }
}
impl core::ops::SubAssign<ri32> for ri32 {
    #[verifier::external_body]
    fn sub_assign(&mut self, rhs: ri32) { unimplemented!() }
}

impl MulSpecImpl<ri32> for ri32 {
    open spec fn obeys_mul_spec() -> bool { true }
    open spec fn mul_req(self, rhs: ri32) -> bool { i32::MIN <= self.val * rhs.val <= i32::MAX }
    open spec fn mul_spec(self, rhs: ri32) -> ri32 { ri32 { val: (self.val * rhs.val) as i32 } }
}
impl core::ops::Mul<ri32> for ri32 {
    type Output = ri32;
    #[verifier::external_body]
    fn mul(self, rhs: ri32) -> ri32 { unimplemented!() }
}
impl MulAssignSpecImpl<ri32> for ri32 {
    open spec fn obeys_mul_assign_spec() -> bool { true }
    open spec fn mul_assign_req(&self, rhs: ri32) -> bool { i32::MIN <= self.val * rhs.val <= i32::MAX }
    open spec fn mul_assign_spec(&self, rhs: ri32) -> &ri32 { &ri32 { val: (self.val * rhs.val) as i32 } }
}
impl core::ops::MulAssign<ri32> for ri32 {
    #[verifier::external_body]
    fn mul_assign(&mut self, rhs: ri32) { unimplemented!() }
}

impl DivSpecImpl<ri32> for ri32 {
    open spec fn obeys_div_spec() -> bool { true }
    open spec fn div_req(self, rhs: ri32) -> bool { rhs.val > 0 }
    open spec fn div_spec(self, rhs: ri32) -> ri32 { ri32 { val: (self.val as int / rhs.val as int) as i32 } }
}
impl core::ops::Div<ri32> for ri32 {
    type Output = ri32;
    #[verifier::external_body]
    fn div(self, rhs: ri32) -> ri32 { unimplemented!() }
}
impl RemSpecImpl<ri32> for ri32 {
    open spec fn obeys_rem_spec() -> bool { true }
    open spec fn rem_req(self, rhs: ri32) -> bool { rhs.val > 0 }
    open spec fn rem_spec(self, rhs: ri32) -> ri32 { ri32 { val: (self.val as int % rhs.val as int) as i32 } }
}
impl core::ops::Rem<ri32> for ri32 {
    type Output = ri32;
    #[verifier::external_body]
    fn rem(self, rhs: ri32) -> ri32 { unimplemented!() }
}

impl AddSpecImpl<Constant> for ri32 {
    open spec fn obeys_add_spec() -> bool { true }
    open spec fn add_req(self, rhs: Constant) -> bool { i32::MIN <= self.val + rhs.0 <= i32::MAX }
    open spec fn add_spec(self, rhs: Constant) -> ri32 { ri32 { val: (self.val + rhs.0) as i32 } }
}
impl core::ops::Add<Constant> for ri32 {
    type Output = ri32;
    #[verifier::external_body]
    fn add(self, rhs: Constant) -> ri32 { unimplemented!() }
}
impl AddAssignSpecImpl<Constant> for ri32 {
    open spec fn obeys_add_assign_spec() -> bool { true }
    open spec fn add_assign_req(&self, rhs: Constant) -> bool { i32::MIN <= self.val + rhs.0 <= i32::MAX }
    open spec fn add_assign_spec(&self, rhs: Constant) -> &ri32 { &ri32 { val: (self.val + rhs.0) as i32 } }
}
impl core::ops::AddAssign<Constant> for ri32 {
    #[verifier::external_body]
    fn add_assign(&mut self, rhs: Constant) { unimplemented!() }
}

impl SubSpecImpl<Constant> for ri32 {
    open spec fn obeys_sub_spec() -> bool { true }
    open spec fn sub_req(self, rhs: Constant) -> bool { i32::MIN <= self.val - rhs.0 <= i32::MAX }
    open spec fn sub_spec(self, rhs: Constant) -> ri32 { ri32 { val: (self.val - rhs.0) as i32 } }
}
impl core::ops::Sub<Constant> for ri32 {
    type Output = ri32;
    #[verifier::external_body]
    fn sub(self, rhs: Constant) -> ri32 { unimplemented!() }
}
impl SubAssignSpecImpl<Constant> for ri32 {
    open spec fn obeys_sub_assign_spec() -> bool { true }
    open spec fn sub_assign_req(&self, rhs: Constant) -> bool { i32::MIN <= self.val - rhs.0 <= i32::MAX }
    open spec fn sub_assign_spec(&self, rhs: Constant) -> &ri32 { &ri32 { val: (self.val - rhs.0) as i32 } }
}
impl core::ops::SubAssign<Constant> for ri32 {
    #[verifier::external_body]
    fn sub_assign(&mut self, rhs: Constant) { unimplemented!() }
}

impl MulSpecImpl<Constant> for ri32 {
    open spec fn obeys_mul_spec() -> bool { true }
    open spec fn mul_req(self, rhs: Constant) -> bool { i32::MIN <= self.val * rhs.0 <= i32::MAX }
    open spec fn mul_spec(self, rhs: Constant) -> ri32 { ri32 { val: (self.val * rhs.0) as i32 } }
}
impl core::ops::Mul<Constant> for ri32 {
    type Output = ri32;
    #[verifier::external_body]
    fn mul(self, rhs: Constant) -> ri32 { unimplemented!() }
}
impl MulAssignSpecImpl<Constant> for ri32 {
    open spec fn obeys_mul_assign_spec() -> bool { true }
    open spec fn mul_assign_req(&self, rhs: Constant) -> bool { i32::MIN <= self.val * rhs.0 <= i32::MAX }
    open spec fn mul_assign_spec(&self, rhs: Constant) -> &ri32 { &ri32 { val: (self.val * rhs.0) as i32 } }
}
impl core::ops::MulAssign<Constant> for ri32 {
    #[verifier::external_body]
    fn mul_assign(&mut self, rhs: Constant) { unimplemented!() }
}

impl DivSpecImpl<Constant> for ri32 {
    open spec fn obeys_div_spec() -> bool { true }
    open spec fn div_req(self, rhs: Constant) -> bool { rhs.0 > 0 }
    open spec fn div_spec(self, rhs: Constant) -> ri32 { ri32 { val: (self.val as int / rhs.0 as int) as i32 } }
}
impl core::ops::Div<Constant> for ri32 {
    type Output = ri32;
    #[verifier::external_body]
    fn div(self, rhs: Constant) -> ri32 { unimplemented!() }
}
impl RemSpecImpl<Constant> for ri32 {
    open spec fn obeys_rem_spec() -> bool { true }
    open spec fn rem_req(self, rhs: Constant) -> bool { rhs.0 > 0 }
    open spec fn rem_spec(self, rhs: Constant) -> ri32 { ri32 { val: (self.val as int % rhs.0 as int) as i32 } }
}
impl core::ops::Rem<Constant> for ri32 {
    type Output = ri32;
    #[verifier::external_body]
    fn rem(self, rhs: Constant) -> ri32 { unimplemented!() }
}

impl AddSpecImpl<ri8> for ri32 {
    open spec fn obeys_add_spec() -> bool { true }
    open spec fn add_req(self, rhs: ri8) -> bool { i32::MIN <= self.val + rhs.val <= i32::MAX }
    open spec fn add_spec(self, rhs: ri8) -> ri32 { ri32 { val: (self.val + rhs.val) as i32 } }
}
impl core::ops::Add<ri8> for ri32 {
    type Output = ri32;
    #[verifier::external_body]
    fn add(self, rhs: ri8) -> ri32 { unimplemented!() }
}
impl AddAssignSpecImpl<ri8> for ri32 {
    open spec fn obeys_add_assign_spec() -> bool { true }
    open spec fn add_assign_req(&self, rhs: ri8) -> bool { i32::MIN <= self.val + rhs.val <= i32::MAX }
    open spec fn add_assign_spec(&self, rhs: ri8) -> &ri32 { &ri32 { val: (self.val + rhs.val) as i32 } }
}
impl core::ops::AddAssign<ri8> for ri32 {
    #[verifier::external_body]
    fn add_assign(&mut self, rhs: ri8) { unimplemented!() }
}

impl SubSpecImpl<ri8> for ri32 {
    open spec fn obeys_sub_spec() -> bool { true }
    open spec fn sub_req(self, rhs: ri8) -> bool { i32::MIN <= self.val - rhs.val <= i32::MAX }
    open spec fn sub_spec(self, rhs: ri8) -> ri32 { ri32 { val: (self.val - rhs.val) as i32 } }
}
impl core::ops::Sub<ri8> for ri32 {
    type Output = ri32;
    #[verifier::external_body]
    fn sub(self, rhs: ri8) -> ri32 { unimplemented!() }
}
impl SubAssignSpecImpl<ri8> for ri32 {
    open spec fn obeys_sub_assign_spec() -> bool { true }
    open spec fn sub_assign_req(&self, rhs: ri8) -> bool { i32::MIN <= self.val - rhs.val <= i32::MAX }
    open spec fn sub_assign_spec(&self, rhs: ri8) -> &ri32 { &ri32 { val: (self.val - rhs.val) as i32 } }
}
impl core::ops::SubAssign<ri8> for ri32 {
    #[verifier::external_body]
    fn sub_assign(&mut self, rhs: ri8) { unimplemented!() }
}

impl MulSpecImpl<ri8> for ri32 {
    open spec fn obeys_mul_spec() -> bool { true }
    open spec fn mul_req(self, rhs: ri8) -> bool { i32::MIN <= self.val * rhs.val <= i32::MAX }
    open spec fn mul_spec(self, rhs: ri8) -> ri32 { ri32 { val: (self.val * rhs.val) as i32 } }
}
impl core::ops::Mul<ri8> for ri32 {
    type Output = ri32;
    #[verifier::external_body]
    fn mul(self, rhs: ri8) -> ri32 { unimplemented!() }
}
impl MulAssignSpecImpl<ri8> for ri32 {
    open spec fn obeys_mul_assign_spec() -> bool { true }
    open spec fn mul_assign_req(&self, rhs: ri8) -> bool { i32::MIN <= self.val * rhs.val <= i32::MAX }
    open spec fn mul_assign_spec(&self, rhs: ri8) -> &ri32 { &ri32 { val: (self.val * rhs.val) as i32 } }
}
impl core::ops::MulAssign<ri8> for ri32 {
    #[verifier::external_body]
    fn mul_assign(&mut self, rhs: ri8) { unimplemented!() }
}

impl DivSpecImpl<ri8> for ri32 {
    open spec fn obeys_div_spec() -> bool { true }
    open spec fn div_req(self, rhs: ri8) -> bool { rhs.val > 0 }
    open spec fn div_spec(self, rhs: ri8) -> ri32 { ri32 { val: (self.val as int / rhs.val as int) as i32 } }
}
impl core::ops::Div<ri8> for ri32 {
    type Output = ri32;
    #[verifier::external_body]
    fn div(self, rhs: ri8) -> ri32 { unimplemented!() }
}
impl RemSpecImpl<ri8> for ri32 {
    open spec fn obeys_rem_spec() -> bool { true }
    open spec fn rem_req(self, rhs: ri8) -> bool { rhs.val > 0 }
    open spec fn rem_spec(self, rhs: ri8) -> ri32 { ri32 { val: (self.val as int % rhs.val as int) as i32 } }
}
impl core::ops::Rem<ri8> for ri32 {
    type Output = ri32;
    #[verifier::external_body]
    fn rem(self, rhs: ri8) -> ri32 { unimplemented!() }
}

impl AddSpecImpl<ri16> for ri32 {
    open spec fn obeys_add_spec() -> bool { true }
    open spec fn add_req(self, rhs: ri16) -> bool { i32::MIN <= self.val + rhs.val <= i32::MAX }
    open spec fn add_spec(self, rhs: ri16) -> ri32 { ri32 { val: (self.val + rhs.val) as i32 } }
}
impl core::ops::Add<ri16> for ri32 {
    type Output = ri32;
    #[verifier::external_body]
    fn add(self, rhs: ri16) -> ri32 { unimplemented!() }
}
impl AddAssignSpecImpl<ri16> for ri32 {
    open spec fn obeys_add_assign_spec() -> bool { true }
    open spec fn add_assign_req(&self, rhs: ri16) -> bool { i32::MIN <= self.val + rhs.val <= i32::MAX }
    open spec fn add_assign_spec(&self, rhs: ri16) -> &ri32 { &ri32 { val: (self.val + rhs.val) as i32 } }
}
impl core::ops::AddAssign<ri16> for ri32 {
    #[verifier::external_body]
    fn add_assign(&mut self, rhs: ri16) { unimplemented!() }
}

impl SubSpecImpl<ri16> for ri32 {
    open spec fn obeys_sub_spec() -> bool { true }
    open spec fn sub_req(self, rhs: ri16) -> bool { i32::MIN <= self.val - rhs.val <= i32::MAX }
    open spec fn sub_spec(self, rhs: ri16) -> ri32 { ri32 { val: (self.val - rhs.val) as i32 } }
}
impl core::ops::Sub<ri16> for ri32 {
    type Output = ri32;
    #[verifier::external_body]
    fn sub(self, rhs: ri16) -> ri32 { unimplemented!() }
}
impl SubAssignSpecImpl<ri16> for ri32 {
    open spec fn obeys_sub_assign_spec() -> bool { true }
    open spec fn sub_assign_req(&self, rhs: ri16) -> bool { i32::MIN <= self.val - rhs.val <= i32::MAX }
    open spec fn sub_assign_spec(&self, rhs: ri16) -> &ri32 { &ri32 { val: (self.val - rhs.val) as i32 } }
}
impl core::ops::SubAssign<ri16> for ri32 {
    #[verifier::external_body]
    fn sub_assign(&mut self, rhs: ri16) { unimplemented!() }
}

impl MulSpecImpl<ri16> for ri32 {
    open spec fn obeys_mul_spec() -> bool { true }
    open spec fn mul_req(self, rhs: ri16) -> bool { i32::MIN <= self.val * rhs.val <= i32::MAX }
    open spec fn mul_spec(self, rhs: ri16) -> ri32 { ri32 { val: (self.val * rhs.val) as i32 } }
}
impl core::ops::Mul<ri16> for ri32 {
    type Output = ri32;
    #[verifier::external_body]
    fn mul(self, rhs: ri16) -> ri32 { unimplemented!() }
}
impl MulAssignSpecImpl<ri16> for ri32 {
    open spec fn obeys_mul_assign_spec() -> bool { true }
    open spec fn mul_assign_req(&self, rhs: ri16) -> bool { i32::MIN <= self.val * rhs.val <= i32::MAX }
    open spec fn mul_assign_spec(&self, rhs: ri16) -> &ri32 { &ri32 { val: (self.val * rhs.val) as i32 } }
}
impl core::ops::MulAssign<ri16> for ri32 {
    #[verifier::external_body]
    fn mul_assign(&mut self, rhs: ri16) { unimplemented!() }
}

impl DivSpecImpl<ri16> for ri32 {
    open spec fn obeys_div_spec() -> bool { true }
    open spec fn div_req(self, rhs: ri16) -> bool { rhs.val > 0 }
    open spec fn div_spec(self, rhs: ri16) -> ri32 { ri32 { val: (self.val as int / rhs.val as int) as i32 } }
}
impl core::ops::Div<ri16> for ri32 {
    type Output = ri32;
    #[verifier::external_body]
    fn div(self, rhs: ri16) -> ri32 { unimplemented!() }
}
impl RemSpecImpl<ri16> for ri32 {
    open spec fn obeys_rem_spec() -> bool { true }
    open spec fn rem_req(self, rhs: ri16) -> bool { rhs.val > 0 }
    open spec fn rem_spec(self, rhs: ri16) -> ri32 { ri32 { val: (self.val as int % rhs.val as int) as i32 } }
}
impl core::ops::Rem<ri16> for ri32 {
    type Output = ri32;
    #[verifier::external_body]
    fn rem(self, rhs: ri16) -> ri32 { unimplemented!() }
}

impl AddSpecImpl<ri64> for ri32 {
    open spec fn obeys_add_spec() -> bool { true }
    open spec fn add_req(self, rhs: ri64) -> bool { i32::MIN <= self.val + rhs.val <= i32::MAX }
    open spec fn add_spec(self, rhs: ri64) -> ri32 { ri32 { val: (self.val + rhs.val) as i32 } }
}
impl core::ops::Add<ri64> for ri32 {
    type Output = ri32;
    #[verifier::external_body]
    fn add(self, rhs: ri64) -> ri32 { unimplemented!() }
}
impl AddAssignSpecImpl<ri64> for ri32 {
    open spec fn obeys_add_assign_spec() -> bool { true }
    open spec fn add_assign_req(&self, rhs: ri64) -> bool { i32::MIN <= self.val + rhs.val <= i32::MAX }
    open spec fn add_assign_spec(&self, rhs: ri64) -> &ri32 { &ri32 { val: (self.val + rhs.val) as i32 } }
}
impl core::ops::AddAssign<ri64> for ri32 {
    #[verifier::external_body]
    fn add_assign(&mut self, rhs: ri64) { unimplemented!() }
}

impl SubSpecImpl<ri64> for ri32 {
    open spec fn obeys_sub_spec() -> bool { true }
    open spec fn sub_req(self, rhs: ri64) -> bool { i32::MIN <= self.val - rhs.val <= i32::MAX }
    open spec fn sub_spec(self, rhs: ri64) -> ri32 { ri32 { val: (self.val - rhs.val) as i32 } }
}
impl core::ops::Sub<ri64> for ri32 {
    type Output = ri32;
    #[verifier::external_body]
    fn sub(self, rhs: ri64) -> ri32 { unimplemented!() }
}
impl SubAssignSpecImpl<ri64> for ri32 {
    open spec fn obeys_sub_assign_spec() -> bool { true }
    open spec fn sub_assign_req(&self, rhs: ri64) -> bool { i32::MIN <= self.val - rhs.val <= i32::MAX }
    open spec fn sub_assign_spec(&self, rhs: ri64) -> &ri32 { &ri32 { val: (self.val - rhs.val) as i32 } }
}
impl core::ops::SubAssign<ri64> for ri32 {
    #[verifier::external_body]
    fn sub_assign(&mut self, rhs: ri64) { unimplemented!() }
}

impl MulSpecImpl<ri64> for ri32 {
    open spec fn obeys_mul_spec() -> bool { true }
    open spec fn mul_req(self, rhs: ri64) -> bool { i32::MIN <= self.val * rhs.val <= i32::MAX }
    open spec fn mul_spec(self, rhs: ri64) -> ri32 { ri32 { val: (self.val * rhs.val) as i32 } }
}
impl core::ops::Mul<ri64> for ri32 {
    type Output = ri32;
    #[verifier::external_body]
    fn mul(self, rhs: ri64) -> ri32 { unimplemented!() }
}
impl MulAssignSpecImpl<ri64> for ri32 {
    open spec fn obeys_mul_assign_spec() -> bool { true }
    open spec fn mul_assign_req(&self, rhs: ri64) -> bool { i32::MIN <= self.val * rhs.val <= i32::MAX }
    open spec fn mul_assign_spec(&self, rhs: ri64) -> &ri32 { &ri32 { val: (self.val * rhs.val) as i32 } }
}
impl core::ops::MulAssign<ri64> for ri32 {
    #[verifier::external_body]
    fn mul_assign(&mut self, rhs: ri64) { unimplemented!() }
}

impl DivSpecImpl<ri64> for ri32 {
    open spec fn obeys_div_spec() -> bool { true }
    open spec fn div_req(self, rhs: ri64) -> bool { rhs.val > 0 }
    open spec fn div_spec(self, rhs: ri64) -> ri32 { ri32 { val: (self.val as int / rhs.val as int) as i32 } }
}
impl core::ops::Div<ri64> for ri32 {
    type Output = ri32;
    #[verifier::external_body]
    fn div(self, rhs: ri64) -> ri32 { unimplemented!() }
}
impl RemSpecImpl<ri64> for ri32 {
    open spec fn obeys_rem_spec() -> bool { true }
    open spec fn rem_req(self, rhs: ri64) -> bool { rhs.val > 0 }
    open spec fn rem_spec(self, rhs: ri64) -> ri32 { ri32 { val: (self.val as int % rhs.val as int) as i32 } }
}
impl core::ops::Rem<ri64> for ri32 {
    type Output = ri32;
    #[verifier::external_body]
    fn rem(self, rhs: ri64) -> ri32 { unimplemented!() }
}

impl AddSpecImpl<ri128> for ri32 {
    open spec fn obeys_add_spec() -> bool { true }
    open spec fn add_req(self, rhs: ri128) -> bool { i32::MIN <= self.val + rhs.val <= i32::MAX }
    open spec fn add_spec(self, rhs: ri128) -> ri32 { ri32 { val: (self.val + rhs.val) as i32 } }
}
impl core::ops::Add<ri128> for ri32 {
    type Output = ri32;
    #[verifier::external_body]
    fn add(self, rhs: ri128) -> ri32 { unimplemented!() }
}
impl AddAssignSpecImpl<ri128> for ri32 {
    open spec fn obeys_add_assign_spec() -> bool { true }
    open spec fn add_assign_req(&self, rhs: ri128) -> bool { i32::MIN <= self.val + rhs.val <= i32::MAX }
    open spec fn add_assign_spec(&self, rhs: ri128) -> &ri32 { &ri32 { val: (self.val + rhs.val) as i32 } }
}
impl core::ops::AddAssign<ri128> for ri32 {
    #[verifier::external_body]
    fn add_assign(&mut self, rhs: ri128) { unimplemented!() }
}

impl SubSpecImpl<ri128> for ri32 {
    open spec fn obeys_sub_spec() -> bool { true }
    open spec fn sub_req(self, rhs: ri128) -> bool { i32::MIN <= self.val - rhs.val <= i32::MAX }
    open spec fn sub_spec(self, rhs: ri128) -> ri32 { ri32 { val: (self.val - rhs.val) as i32 } }
}
impl core::ops::Sub<ri128> for ri32 {
    type Output = ri32;
    #[verifier::external_body]
    fn sub(self, rhs: ri128) -> ri32 { unimplemented!() }
}
impl SubAssignSpecImpl<ri128> for ri32 {
    open spec fn obeys_sub_assign_spec() -> bool { true }
    open spec fn sub_assign_req(&self, rhs: ri128) -> bool { i32::MIN <= self.val - rhs.val <= i32::MAX }
    open spec fn sub_assign_spec(&self, rhs: ri128) -> &ri32 { &ri32 { val: (self.val - rhs.val) as i32 } }
}
impl core::ops::SubAssign<ri128> for ri32 {
    #[verifier::external_body]
    fn sub_assign(&mut self, rhs: ri128) { unimplemented!() }
}

impl MulSpecImpl<ri128> for ri32 {
    open spec fn obeys_mul_spec() -> bool { true }
    open spec fn mul_req(self, rhs: ri128) -> bool { i32::MIN <= self.val * rhs.val <= i32::MAX }
    open spec fn mul_spec(self, rhs: ri128) -> ri32 { ri32 { val: (self.val * rhs.val) as i32 } }
}
impl core::ops::Mul<ri128> for ri32 {
    type Output = ri32;
    #[verifier::external_body]
    fn mul(self, rhs: ri128) -> ri32 { unimplemented!() }
}
impl MulAssignSpecImpl<ri128> for ri32 {
    open spec fn obeys_mul_assign_spec() -> bool { true }
    open spec fn mul_assign_req(&self, rhs: ri128) -> bool { i32::MIN <= self.val * rhs.val <= i32::MAX }
    open spec fn mul_assign_spec(&self, rhs: ri128) -> &ri32 { &ri32 { val: (self.val * rhs.val) as i32 } }
}
impl core::ops::MulAssign<ri128> for ri32 {
    #[verifier::external_body]
    fn mul_assign(&mut self, rhs: ri128) { unimplemented!() }
}

impl DivSpecImpl<ri128> for ri32 {
    open spec fn obeys_div_spec() -> bool { true }
    open spec fn div_req(self, rhs: ri128) -> bool { rhs.val > 0 }
    open spec fn div_spec(self, rhs: ri128) -> ri32 { ri32 { val: (self.val as int / rhs.val as int) as i32 } }
}
impl core::ops::Div<ri128> for ri32 {
    type Output = ri32;
    #[verifier::external_body]
    fn div(self, rhs: ri128) -> ri32 { unimplemented!() }
}
impl RemSpecImpl<ri128> for ri32 {
    open spec fn obeys_rem_spec() -> bool { true }
    open spec fn rem_req(self, rhs: ri128) -> bool { rhs.val > 0 }
    open spec fn rem_spec(self, rhs: ri128) -> ri32 { ri32 { val: (self.val as int % rhs.val as int) as i32 } }
}
impl core::ops::Rem<ri128> for ri32 {
    type Output = ri32;
    #[verifier::external_body]
    fn rem(self, rhs: ri128) -> ri32 { unimplemented!() }
}

impl NegSpecImpl for ri32 {
    open spec fn obeys_neg_spec() -> bool { true }
    open spec fn neg_req(self) -> bool { self.val > i32::MIN }
    open spec fn neg_spec(self) -> ri32 { ri32 { val: (-self.val) as i32 } }
}
impl core::ops::Neg for ri32 {
    type Output = ri32;
    #[verifier::external_body]
    fn neg(self) -> ri32 { unimplemented!() }
}


// ------------------------------------------------------------------ ri64
#[derive(Clone, Copy)]
pub struct ri64 { pub val: i64 }
impl ri64 {
    pub fn new_unchecked(val: i64) -> (r: Self) ensures r.val == val { ri64 { val } }
    pub fn get(self) -> (r: i64) ensures r == self.val { self.val }
    pub fn get_unchecked(self) -> (r: i64) ensures r == self.val { self.val }
    pub fn without_bounds(self) -> (r: Self) ensures r == self { self }
    // `T::N::<VAL>()` is rewritten to `T::verif_N(VAL)`: the constant VAL (release: `Self { val: VAL }`, no bound is consulted).
    // (Not modelled with a const generic: Verus 0.2026.09.13 derives `false` from a negative const generic argument.)
    pub const fn verif_N(v: i64) -> (r: Self) ensures r.val == v { ri64 { val: v } }
    #[verifier::external_body]
    pub fn abs(self) -> (r: Self)
        requires self.val > i64::MIN,
        ensures r.val == (if self.val < 0 { -self.val } else { self.val as int })
    { unimplemented!() }
    // real: returns `riN<-1, 1>` of the SAME width
    pub fn signum(self) -> (r: Self) ensures r.val == (if self.val < 0 { -1int } else if self.val > 0 { 1int } else { 0int })
    { if self.val < 0 { ri64 { val: -1 } } else if self.val > 0 { ri64 { val: 1 } } else { ri64 { val: 0 } } }
    pub fn min<R: RInto<Self>>(self, other: R) -> (r: Self)
        requires other.rinto_req(),
        ensures r.val == (if other.rinto_spec().val < self.val { other.rinto_spec().val } else { self.val })
    { let o = other.rinto(); if o.val < self.val { o } else { self } }
    pub fn max<R: RInto<Self>>(self, other: R) -> (r: Self)
        requires other.rinto_req(),
        ensures r.val == (if other.rinto_spec().val > self.val { other.rinto_spec().val } else { self.val })
    { let o = other.rinto(); if o.val > self.val { o } else { self } }
    // truncating
    #[verifier::external_body]
    pub fn div_ceil<R: RInto<Self>>(self, rhs: R) -> (r: Self)
        requires rhs.rinto_req(), rhs.rinto_spec().val != 0, !(self.val == i64::MIN && rhs.rinto_spec().val == -1),
        ensures r.val == tdiv(self.val as int, rhs.rinto_spec().val as int)
    { unimplemented!() }
    #[verifier::external_body]
    pub fn rem_ceil<R: RInto<Self>>(self, rhs: R) -> (r: Self)
        requires rhs.rinto_req(), rhs.rinto_spec().val != 0, !(self.val == i64::MIN && rhs.rinto_spec().val == -1),
        ensures r.val == trem(self.val as int, rhs.rinto_spec().val as int)
    { unimplemented!() }
    // Euclidean (divisor > 0 required here; every use in jiff divides by a positive quantity)
    #[verifier::external_body]
    pub fn div_floor<R: RInto<Self>>(self, rhs: R) -> (r: Self)
        requires rhs.rinto_req(), rhs.rinto_spec().val > 0,
        ensures r.val == (self.val as int) / (rhs.rinto_spec().val as int)
    { unimplemented!() }
    #[verifier::external_body]
    pub fn rem_floor<R: RInto<Self>>(self, rhs: R) -> (r: Self)
        requires rhs.rinto_req(), rhs.rinto_spec().val > 0,
        ensures r.val == (self.val as int) % (rhs.rinto_spec().val as int)
    { unimplemented!() }
    #[verifier::external_body]
    pub fn saturating_mul<R: RInto<Self>>(self, rhs: R) -> (r: Self)
        requires rhs.rinto_req(),
        ensures i64::MIN <= self.val * rhs.rinto_spec().val <= i64::MAX ==> r.val == self.val * rhs.rinto_spec().val,
                self.val * rhs.rinto_spec().val > i64::MAX ==> r.val == i64::MAX,
                self.val * rhs.rinto_spec().val < i64::MIN ==> r.val == i64::MIN,
    { unimplemented!() }
    #[verifier::external_body]
    pub fn saturating_add<R: RInto<Self>>(self, rhs: R) -> (r: Self)
        requires rhs.rinto_req(),
        ensures i64::MIN <= self.val + rhs.rinto_spec().val <= i64::MAX ==> r.val == self.val + rhs.rinto_spec().val,
                self.val + rhs.rinto_spec().val > i64::MAX ==> r.val == i64::MAX,
                self.val + rhs.rinto_spec().val < i64::MIN ==> r.val == i64::MIN,
    { unimplemented!() }
}
// `type Range = ri64<{ LO }, { HI }>; Range::try_new("what", v)`: the bounds of an anonymous range are passed explicitly
#[verifier::external_body]
pub fn verif_try_new_range_64(lo: i128, hi: i128, v: i64) -> (res: Result<ri64, Error>)
    requires i64::MIN <= lo, hi <= i64::MAX,
    ensures res.is_ok() <==> lo <= v <= hi, res.is_ok() ==> res.unwrap().val == v
{ unimplemented!() }
impl RInto<ri64> for ri64 {
    open spec fn rinto_spec(self) -> ri64 { self }
    open spec fn rinto_req(self) -> bool { true }
    fn rinto(self) -> (r: ri64) { self }
}
impl RFrom<ri64> for ri64 {
    open spec fn rfrom_spec(t: ri64) -> ri64 { t }
    open spec fn rfrom_req(t: ri64) -> bool { true }
    fn rfrom(t: ri64) -> (r: ri64) { t }
}
impl RInto<ri64> for Constant {
    open spec fn rinto_spec(self) -> ri64 { ri64 { val: self.0 as i64 } }
    open spec fn rinto_req(self) -> bool { i64::MIN <= self.0 <= i64::MAX }
    #[verifier::external_body]
    fn rinto(self) -> (r: ri64) { unimplemented!() }
}
impl RFrom<Constant> for ri64 {
    open spec fn rfrom_spec(t: Constant) -> ri64 { ri64 { val: t.0 as i64 } }
    open spec fn rfrom_req(t: Constant) -> bool { i64::MIN <= t.0 <= i64::MAX }
    #[verifier::external_body]
    fn rfrom(t: Constant) -> (r: ri64) { unimplemented!() }
}
impl RInto<i64> for ri64 {
    open spec fn rinto_spec(self) -> i64 { self.val }
    open spec fn rinto_req(self) -> bool { true }
    fn rinto(self) -> (r: i64) { self.val }
}

impl PartialEqSpecImpl<ri64> for ri64 {
    open spec fn obeys_eq_spec() -> bool { true }
    open spec fn eq_spec(&self, other: &ri64) -> bool { self.val == other.val }
}
impl PartialEq<ri64> for ri64 {
    #[verifier::external_body]
    fn eq(&self, other: &ri64) -> bool { unimplemented!() }
}
impl PartialOrdSpecImpl<ri64> for ri64 {
    open spec fn obeys_partial_cmp_spec() -> bool { true }
    open spec fn partial_cmp_spec(&self, other: &ri64) -> Option<Ordering> { Some(int_cmp(self.val as int, other.val as int)) }
}
impl PartialOrd<ri64> for ri64 {
    #[verifier::external_body]
    fn partial_cmp(&self, other: &ri64) -> Option<Ordering> { unimplemented!() }
}

impl PartialEqSpecImpl<Constant> for ri64 {
    open spec fn obeys_eq_spec() -> bool { true }
    open spec fn eq_spec(&self, other: &Constant) -> bool { self.val == other.0 }
}
impl PartialEq<Constant> for ri64 {
    #[verifier::external_body]
    fn eq(&self, other: &Constant) -> bool { unimplemented!() }
}
impl PartialOrdSpecImpl<Constant> for ri64 {
    open spec fn obeys_partial_cmp_spec() -> bool { true }
    open spec fn partial_cmp_spec(&self, other: &Constant) -> Option<Ordering> { Some(int_cmp(self.val as int, other.0 as int)) }
}
impl PartialOrd<Constant> for ri64 {
    #[verifier::external_body]
    fn partial_cmp(&self, other: &Constant) -> Option<Ordering> { unimplemented!() }
}

impl PartialEqSpecImpl<ri8> for ri64 {
    open spec fn obeys_eq_spec() -> bool { true }
    open spec fn eq_spec(&self, other: &ri8) -> bool { self.val == other.val }
}
impl PartialEq<ri8> for ri64 {
    #[verifier::external_body]
    fn eq(&self, other: &ri8) -> bool { unimplemented!() }
}
impl PartialOrdSpecImpl<ri8> for ri64 {
    open spec fn obeys_partial_cmp_spec() -> bool { true }
    open spec fn partial_cmp_spec(&self, other: &ri8) -> Option<Ordering> { Some(int_cmp(self.val as int, other.val as int)) }
}
impl PartialOrd<ri8> for ri64 {
    #[verifier::external_body]
    fn partial_cmp(&self, other: &ri8) -> Option<Ordering> { unimplemented!() }
}

impl PartialEqSpecImpl<ri16> for ri64 {
    open spec fn obeys_eq_spec() -> bool { true }
    open spec fn eq_spec(&self, other: &ri16) -> bool { self.val == other.val }
}
impl PartialEq<ri16> for ri64 {
    #[verifier::external_body]
    fn eq(&self, other: &ri16) -> bool { unimplemented!() }
}
impl PartialOrdSpecImpl<ri16> for ri64 {
    open spec fn obeys_partial_cmp_spec() -> bool { true }
    open spec fn partial_cmp_spec(&self, other: &ri16) -> Option<Ordering> { Some(int_cmp(self.val as int, other.val as int)) }
}
impl PartialOrd<ri16> for ri64 {
    #[verifier::external_body]
    fn partial_cmp(&self, other: &ri16) -> Option<Ordering> { unimplemented!() }
}

impl PartialEqSpecImpl<ri32> for ri64 {
    open spec fn obeys_eq_spec() -> bool { true }
    open spec fn eq_spec(&self, other: &ri32) -> bool { self.val == other.val }
}
impl PartialEq<ri32> for ri64 {
    #[verifier::external_body]
    fn eq(&self, other: &ri32) -> bool { unimplemented!() }
}
impl PartialOrdSpecImpl<ri32> for ri64 {
    open spec fn obeys_partial_cmp_spec() -> bool { true }
    open spec fn partial_cmp_spec(&self, other: &ri32) -> Option<Ordering> { Some(int_cmp(self.val as int, other.val as int)) }
}
impl PartialOrd<ri32> for ri64 {
    #[verifier::external_body]
    fn partial_cmp(&self, other: &ri32) -> Option<Ordering> { unimplemented!() }
}

impl PartialEqSpecImpl<ri128> for ri64 {
    open spec fn obeys_eq_spec() -> bool { true }
    open spec fn eq_spec(&self, other: &ri128) -> bool { self.val == other.val }
}
impl PartialEq<ri128> for ri64 {
    #[verifier::external_body]
    fn eq(&self, other: &ri128) -> bool { unimplemented!() }
}
impl PartialOrdSpecImpl<ri128> for ri64 {
    open spec fn obeys_partial_cmp_spec() -> bool { true }
    open spec fn partial_cmp_spec(&self, other: &ri128) -> Option<Ordering> { Some(int_cmp(self.val as int, other.val as int)) }
}
impl PartialOrd<ri128> for ri64 {
    #[verifier::external_body]
    fn partial_cmp(&self, other: &ri128) -> Option<Ordering> { unimplemented!() }
}

impl AddSpecImpl<ri64> for ri64 {
    open spec fn obeys_add_spec() -> bool { true }
    open spec fn add_req(self, rhs: ri64) -> bool { i64::MIN <= self.val + rhs.val <= i64::MAX }
    open spec fn add_spec(self, rhs: ri64) -> ri64 { ri64 { val: (self.val + rhs.val) as i64 } }
}
impl core::ops::Add<ri64> for ri64 {
    type Output = ri64;
    #[verifier::external_body]
    fn add(self, rhs: ri64) -> ri64 { unimplemented!() }
}
impl AddAssignSpecImpl<ri64> for ri64 {
    open spec fn obeys_add_assign_spec() -> bool { true }
    open spec fn add_assign_req(&self, rhs: ri64) -> bool { i64::MIN <= self.val + rhs.val <= i64::MAX }
    open spec fn add_assign_spec(&self, rhs: ri64) -> &ri64 { &ri64 { val: (self.val + rhs.val) as i64 } }
}
impl core::ops::AddAssign<ri64> for ri64 {
    #[verifier::external_body]
    fn add_assign(&mut self, rhs: ri64) { unimplemented!() }
}

impl SubSpecImpl<ri64> for ri64 {
    open spec fn obeys_sub_spec() -> bool { true }
    open spec fn sub_req(self, rhs: ri64) -> bool { i64::MIN <= self.val - rhs.val <= i64::MAX }
    open spec fn sub_spec(self, rhs: ri64) -> ri64 { ri64 { val: (self.val - rhs.val) as i64 } }
}
impl core::ops::Sub<ri64> for ri64 {
    type Output = ri64;
    #[verifier::external_body]
    fn sub(self, rhs: ri64) -> ri64 { unimplemented!() }
}
impl SubAssignSpecImpl<ri64> for ri64 {
    open spec fn obeys_sub_assign_spec() -> bool { true }
    open spec fn sub_assign_req(&self, rhs: ri64) -> bool { i64::MIN <= self.val - rhs.val <= i64::MAX }
    open spec fn sub_assign_spec(&self, rhs: ri64) -> &ri64 { &ri64 { val: (self.val - rhs.val) as i64 } }
}
impl core::ops::SubAssign<ri64> for ri64 {
    #[verifier::external_body]
    fn sub_assign(&mut self, rhs: ri64) { unimplemented!() }
}

impl MulSpecImpl<ri64> for ri64 {
    open spec fn obeys_mul_spec() -> bool { true }
    open spec fn mul_req(self, rhs: ri64) -> bool { i64::MIN <= self.val * rhs.val <= i64::MAX }
    open spec fn mul_spec(self, rhs: ri64) -> ri64 { ri64 { val: (self.val * rhs.val) as i64 } }
}
impl core::ops::Mul<ri64> for ri64 {
    type Output = ri64;
    #[verifier::external_body]
    fn mul(self, rhs: ri64) -> ri64 { unimplemented!() }
}
impl MulAssignSpecImpl<ri64> for ri64 {
    open spec fn obeys_mul_assign_spec() -> bool { true }
    open spec fn mul_assign_req(&self, rhs: ri64) -> bool { i64::MIN <= self.val * rhs.val <= i64::MAX }
    open spec fn mul_assign_spec(&self, rhs: ri64) -> &ri64 { &ri64 { val: (self.val * rhs.val) as i64 } }
}
impl core::ops::MulAssign<ri64> for ri64 {
    #[verifier::external_body]
    fn mul_assign(&mut self, rhs: ri64) { unimplemented!() }
}

impl DivSpecImpl<ri64> for ri64 {
    open spec fn obeys_div_spec() -> bool { true }
    open spec fn div_req(self, rhs: ri64) -> bool { rhs.val > 0 }
    open spec fn div_spec(self, rhs: ri64) -> ri64 { ri64 { val: (self.val as int / rhs.val as int) as i64 } }
}
impl core::ops::Div<ri64> for ri64 {
    type Output = ri64;
    #[verifier::external_body]
    fn div(self, rhs: ri64) -> ri64 { unimplemented!() }
}
impl RemSpecImpl<ri64> for ri64 {
    open spec fn obeys_rem_spec() -> bool { true }
    open spec fn rem_req(self, rhs: ri64) -> bool { rhs.val > 0 }
    open spec fn rem_spec(self, rhs: ri64) -> ri64 { ri64 { val: (self.val as int % rhs.val as int) as i64 } }
}
impl core::ops::Rem<ri64> for ri64 {
    type Output = ri64;
    #[verifier::external_body]
    fn rem(self, rhs: ri64) -> ri64 { unimplemented!() }
}

impl AddSpecImpl<Constant> for ri64 {
    open spec fn obeys_add_spec() -> bool { true }
    open spec fn add_req(self, rhs: Constant) -> bool { i64::MIN <= self.val + rhs.0 <= i64::MAX }
    open spec fn add_spec(self, rhs: Constant) -> ri64 { ri64 { val: (self.val + rhs.0) as i64 } }
}
impl core::ops::Add<Constant> for ri64 {
    type Output = ri64;
    #[verifier::external_body]
    fn add(self, rhs: Constant) -> ri64 { unimplemented!() }
}
impl AddAssignSpecImpl<Constant> for ri64 {
    open spec fn obeys_add_assign_spec() -> bool { true }
    open spec fn add_assign_req(&self, rhs: Constant) -> bool { i64::MIN <= self.val + rhs.0 <= i64::MAX }
    open spec fn add_assign_spec(&self, rhs: Constant) -> &ri64 { &ri64 { val: (self.val + rhs.0) as i64 } }
}
impl core::ops::AddAssign<Constant> for ri64 {
    #[verifier::external_body]
    fn add_assign(&mut self, rhs: Constant) { unimplemented!() }
}

impl SubSpecImpl<Constant> for ri64 {
    open spec fn obeys_sub_spec() -> bool { true }
    open spec fn sub_req(self, rhs: Constant) -> bool { i64::MIN <= self.val - rhs.0 <= i64::MAX }
    open spec fn sub_spec(self, rhs: Constant) -> ri64 { ri64 { val: (self.val - rhs.0) as i64 } }
}
impl core::ops::Sub<Constant> for ri64 {
    type Output = ri64;
    #[verifier::external_body]
    fn sub(self, rhs: Constant) -> ri64 { unimplemented!() }
}
impl SubAssignSpecImpl<Constant> for ri64 {
    open spec fn obeys_sub_assign_spec() -> bool { true }
    open spec fn sub_assign_req(&self, rhs: Constant) -> bool { i64::MIN <= self.val - rhs.0 <= i64::MAX }
    open spec fn sub_assign_spec(&self, rhs: Constant) -> &ri64 { &ri64 { val: (self.val - rhs.0) as i64 } }
}
impl core::ops::SubAssign<Constant> for ri64 {
    #[verifier::external_body]
    fn sub_assign(&mut self, rhs: Constant) { unimplemented!() }
}

impl MulSpecImpl<Constant> for ri64 {
    open spec fn obeys_mul_spec() -> bool { true }
    open spec fn mul_req(self, rhs: Constant) -> bool { i64::MIN <= self.val * rhs.0 <= i64::MAX }
    open spec fn mul_spec(self, rhs: Constant) -> ri64 { ri64 { val: (self.val * rhs.0) as i64 } }
}
impl core::ops::Mul<Constant> for ri64 {
    type Output = ri64;
    #[verifier::external_body]
    fn mul(self, rhs: Constant) -> ri64 { unimplemented!() }
}
impl MulAssignSpecImpl<Constant> for ri64 {
    open spec fn obeys_mul_assign_spec() -> bool { true }
    open spec fn mul_assign_req(&self, rhs: Constant) -> bool { i64::MIN <= self.val * rhs.0 <= i64::MAX }
    open spec fn mul_assign_spec(&self, rhs: Constant) -> &ri64 { &ri64 { val: (self.val * rhs.0) as i64 } }
}
impl core::ops::MulAssign<Constant> for ri64 {
    #[verifier::external_body]
    fn mul_assign(&mut self, rhs: Constant) { unimplemented!() }
}

impl DivSpecImpl<Constant> for ri64 {
    open spec fn obeys_div_spec() -> bool { true }
    open spec fn div_req(self, rhs: Constant) -> bool { rhs.0 > 0 }
    open spec fn div_spec(self, rhs: Constant) -> ri64 { ri64 { val: (self.val as int / rhs.0 as int) as i64 } }
}
impl core::ops::Div<Constant> for ri64 {
    type Output = ri64;
    #[verifier::external_body]
    fn div(self, rhs: Constant) -> ri64 { unimplemented!() }
}
impl RemSpecImpl<Constant> for ri64 {
    open spec fn obeys_rem_spec() -> bool { true }
    open spec fn rem_req(self, rhs: Constant) -> bool { rhs.0 > 0 }
    open spec fn rem_spec(self, rhs: Constant) -> ri64 { ri64 { val: (self.val as int % rhs.0 as int) as i64 } }
}
impl core::ops::Rem<Constant> for ri64 {
    type Output = ri64;
    #[verifier::external_body]
    fn rem(self, rhs: Constant) -> ri64 { unimplemented!() }
}

impl AddSpecImpl<ri8> for ri64 {
    open spec fn obeys_add_spec() -> bool { true }
    open spec fn add_req(self, rhs: ri8) -> bool { i64::MIN <= self.val + rhs.val <= i64::MAX }
    open spec fn add_spec(self, rhs: ri8) -> ri64 { ri64 { val: (self.val + rhs.val) as i64 } }
}
impl core::ops::Add<ri8> for ri64 {
    type Output = ri64;
    #[verifier::external_body]
    fn add(self, rhs: ri8) -> ri64 { unimplemented!() }
}
impl AddAssignSpecImpl<ri8> for ri64 {
    open spec fn obeys_add_assign_spec() -> bool { true }
    open spec fn add_assign_req(&self, rhs: ri8) -> bool { i64::MIN <= self.val + rhs.val <= i64::MAX }
    open spec fn add_assign_spec(&self, rhs: ri8) -> &ri64 { &ri64 { val: (self.val + rhs.val) as i64 } }
}
impl core::ops::AddAssign<ri8> for ri64 {
    #[verifier::external_body]
    fn add_assign(&mut self, rhs: ri8) { unimplemented!() }
}

impl SubSpecImpl<ri8> for ri64 {
    open spec fn obeys_sub_spec() -> bool { true }
    open spec fn sub_req(self, rhs: ri8) -> bool { i64::MIN <= self.val - rhs.val <= i64::MAX }
    open spec fn sub_spec(self, rhs: ri8) -> ri64 { ri64 { val: (self.val - rhs.val) as i64 } }
}
impl core::ops::Sub<ri8> for ri64 {
    type Output = ri64;
    #[verifier::external_body]
    fn sub(self, rhs: ri8) -> ri64 { unimplemented!() }
}
impl SubAssignSpecImpl<ri8> for ri64 {
    open spec fn obeys_sub_assign_spec() -> bool { true }
    open spec fn sub_assign_req(&self, rhs: ri8) -> bool { i64::MIN <= self.val - rhs.val <= i64::MAX }
    open spec fn sub_assign_spec(&self, rhs: ri8) -> &ri64 { &ri64 { val: (self.val - rhs.val) as i64 } }
}
impl core::ops::SubAssign<ri8> for ri64 {
    #[verifier::external_body]
    fn sub_assign(&mut self, rhs: ri8) { unimplemented!() }
}

impl MulSpecImpl<ri8> for ri64 {
    open spec fn obeys_mul_spec() -> bool { true }
    open spec fn mul_req(self, rhs: ri8) -> bool { i64::MIN <= self.val * rhs.val <= i64::MAX }
    open spec fn mul_spec(self, rhs: ri8) -> ri64 { ri64 { val: (self.val * rhs.val) as i64 } }
}
impl core::ops::Mul<ri8> for ri64 {
    type Output = ri64;
    #[verifier::external_body]
    fn mul(self, rhs: ri8) -> ri64 { unimplemented!() }
}
impl MulAssignSpecImpl<ri8> for ri64 {
    open spec fn obeys_mul_assign_spec() -> bool { true }
    open spec fn mul_assign_req(&self, rhs: ri8) -> bool { i64::MIN <= self.val * rhs.val <= i64::MAX }
    open spec fn mul_assign_spec(&self, rhs: ri8) -> &ri64 { &ri64 { val: (self.val * rhs.val) as i64 } }
}
impl core::ops::MulAssign<ri8> for ri64 {
    #[verifier::external_body]
    fn mul_assign(&mut self, rhs: ri8) { unimplemented!() }
}

impl DivSpecImpl<ri8> for ri64 {
    open spec fn obeys_div_spec() -> bool { true }
    open spec fn div_req(self, rhs: ri8) -> bool { rhs.val > 0 }
    open spec fn div_spec(self, rhs: ri8) -> ri64 { ri64 { val: (self.val as int / rhs.val as int) as i64 } }
}
impl core::ops::Div<ri8> for ri64 {
    type Output = ri64;
    #[verifier::external_body]
    fn div(self, rhs: ri8) -> ri64 { unimplemented!() }
}
impl RemSpecImpl<ri8> for ri64 {
    open spec fn obeys_rem_spec() -> bool { true }
    open spec fn rem_req(self, rhs: ri8) -> bool { rhs.val > 0 }
    open spec fn rem_spec(self, rhs: ri8) -> ri64 { ri64 { val: (self.val as int % rhs.val as int) as i64 } }
}
impl core::ops::Rem<ri8> for ri64 {
    type Output = ri64;
    #[verifier::external_body]
    fn rem(self, rhs: ri8) -> ri64 { unimplemented!() }
}

impl AddSpecImpl<ri16> for ri64 {
    open spec fn obeys_add_spec() -> bool { true }
    open spec fn add_req(self, rhs: ri16) -> bool { i64::MIN <= self.val + rhs.val <= i64::MAX }
    open spec fn add_spec(self, rhs: ri16) -> ri64 { ri64 { val: (self.val + rhs.val) as i64 } }
}
impl core::ops::Add<ri16> for ri64 {
    type Output = ri64;
    #[verifier::external_body]
    fn add(self, rhs: ri16) -> ri64 { unimplemented!() }
}
impl AddAssignSpecImpl<ri16> for ri64 {
    open spec fn obeys_add_assign_spec() -> bool { true }
    open spec fn add_assign_req(&self, rhs: ri16) -> bool { i64::MIN <= self.val + rhs.val <= i64::MAX }
    open spec fn add_assign_spec(&self, rhs: ri16) -> &ri64 { &ri64 { val: (self.val + rhs.val) as i64 } }
}
impl core::ops::AddAssign<ri16> for ri64 {
    #[verifier::external_body]
    fn add_assign(&mut self, rhs: ri16) { unimplemented!() }
}

impl SubSpecImpl<ri16> for ri64 {
    open spec fn obeys_sub_spec() -> bool { true }
    open spec fn sub_req(self, rhs: ri16) -> bool { i64::MIN <= self.val - rhs.val <= i64::MAX }
    open spec fn sub_spec(self, rhs: ri16) -> ri64 { ri64 { val: (self.val - rhs.val) as i64 } }
}
impl core::ops::Sub<ri16> for ri64 {
    type Output = ri64;
    #[verifier::external_body]
    fn sub(self, rhs: ri16) -> ri64 { unimplemented!() }
}
impl SubAssignSpecImpl<ri16> for ri64 {
    open spec fn obeys_sub_assign_spec() -> bool { true }
    open spec fn sub_assign_req(&self, rhs: ri16) -> bool { i64::MIN <= self.val - rhs.val <= i64::MAX }
    open spec fn sub_assign_spec(&self, rhs: ri16) -> &ri64 { &ri64 { val: (self.val - rhs.val) as i64 } }
}
impl core::ops::SubAssign<ri16> for ri64 {
    #[verifier::external_body]
    fn sub_assign(&mut self, rhs: ri16) { unimplemented!() }
}

impl MulSpecImpl<ri16> for ri64 {
    open spec fn obeys_mul_spec() -> bool { true }
    open spec fn mul_req(self, rhs: ri16) -> bool { i64::MIN <= self.val * rhs.val <= i64::MAX }
    open spec fn mul_spec(self, rhs: ri16) -> ri64 { ri64 { val: (self.val * rhs.val) as i64 } }
}
impl core::ops::Mul<ri16> for ri64 {
    type Output = ri64;
    #[verifier::external_body]
    fn mul(self, rhs: ri16) -> ri64 { unimplemented!() }
}
impl MulAssignSpecImpl<ri16> for ri64 {
    open spec fn obeys_mul_assign_spec() -> bool { true }
    open spec fn mul_assign_req(&self, rhs: ri16) -> bool { i64::MIN <= self.val * rhs.val <= i64::MAX }
    open spec fn mul_assign_spec(&self, rhs: ri16) -> &ri64 { &ri64 { val: (self.val * rhs.val) as i64 } }
}
impl core::ops::MulAssign<ri16> for ri64 {
    #[verifier::external_body]
    fn mul_assign(&mut self, rhs: ri16) { unimplemented!() }
}

impl DivSpecImpl<ri16> for ri64 {
    open spec fn obeys_div_spec() -> bool { true }
    open spec fn div_req(self, rhs: ri16) -> bool { rhs.val > 0 }
    open spec fn div_spec(self, rhs: ri16) -> ri64 { ri64 { val: (self.val as int / rhs.val as int) as i64 } }
}
impl core::ops::Div<ri16> for ri64 {
    type Output = ri64;
    #[verifier::external_body]
    fn div(self, rhs: ri16) -> ri64 { unimplemented!() }
}
impl RemSpecImpl<ri16> for ri64 {
    open spec fn obeys_rem_spec() -> bool { true }
    open spec fn rem_req(self, rhs: ri16) -> bool { rhs.val > 0 }
    open spec fn rem_spec(self, rhs: ri16) -> ri64 { ri64 { val: (self.val as int % rhs.val as int) as i64 } }
}
impl core::ops::Rem<ri16> for ri64 {
    type Output = ri64;
    #[verifier::external_body]
    fn rem(self, rhs: ri16) -> ri64 { unimplemented!() }
}

impl AddSpecImpl<ri32> for ri64 {
    open spec fn obeys_add_spec() -> bool { true }
    open spec fn add_req(self, rhs: ri32) -> bool { i64::MIN <= self.val + rhs.val <= i64::MAX }
    open spec fn add_spec(self, rhs: ri32) -> ri64 { ri64 { val: (self.val + rhs.val) as i64 } }
}
impl core::ops::Add<ri32> for ri64 {
    type Output = ri64;
    #[verifier::external_body]
    fn add(self, rhs: ri32) -> ri64 { unimplemented!() }
}
impl AddAssignSpecImpl<ri32> for ri64 {
    open spec fn obeys_add_assign_spec() -> bool { true }
    open spec fn add_assign_req(&self, rhs: ri32) -> bool { i64::MIN <= self.val + rhs.val <= i64::MAX }
    open spec fn add_assign_spec(&self, rhs: ri32) -> &ri64 { &ri64 { val: (self.val + rhs.val) as i64 } }
}
impl core::ops::AddAssign<ri32> for ri64 {
    #[verifier::external_body]
    fn add_assign(&mut self, rhs: ri32) { unimplemented!() }
}

impl SubSpecImpl<ri32> for ri64 {
    open spec fn obeys_sub_spec() -> bool { true }
    open spec fn sub_req(self, rhs: ri32) -> bool { i64::MIN <= self.val - rhs.val <= i64::MAX }
    open spec fn sub_spec(self, rhs: ri32) -> ri64 { ri64 { val: (self.val - rhs.val) as i64 } }
}
impl core::ops::Sub<ri32> for ri64 {
    type Output = ri64;
    #[verifier::external_body]
    fn sub(self, rhs: ri32) -> ri64 { unimplemented!() }
}
impl SubAssignSpecImpl<ri32> for ri64 {
    open spec fn obeys_sub_assign_spec() -> bool { true }
    open spec fn sub_assign_req(&self, rhs: ri32) -> bool { i64::MIN <= self.val - rhs.val <= i64::MAX }
    open spec fn sub_assign_spec(&self, rhs: ri32) -> &ri64 { &ri64 { val: (self.val - rhs.val) as i64 } }
}
impl core::ops::SubAssign<ri32> for ri64 {
    #[verifier::external_body]
    fn sub_assign(&mut self, rhs: ri32) { unimplemented!() }
}

impl MulSpecImpl<ri32> for ri64 {
    open spec fn obeys_mul_spec() -> bool { true }
    open spec fn mul_req(self, rhs: ri32) -> bool { i64::MIN <= self.val * rhs.val <= i64::MAX }
    open spec fn mul_spec(self, rhs: ri32) -> ri64 { ri64 { val: (self.val * rhs.val) as i64 } }
}
impl core::ops::Mul<ri32> for ri64 {
    type Output = ri64;
    #[verifier::external_body]
    fn mul(self, rhs: ri32) -> ri64 { unimplemented!() }
}
impl MulAssignSpecImpl<ri32> for ri64 {
    open spec fn obeys_mul_assign_spec() -> bool { true }
    open spec fn mul_assign_req(&self, rhs: ri32) -> bool { i64::MIN <= self.val * rhs.val <= i64::MAX }
    open spec fn mul_assign_spec(&self, rhs: ri32) -> &ri64 { &ri64 { val: (self.val * rhs.val) as i64 } }
}
impl core::ops::MulAssign<ri32> for ri64 {
    #[verifier::external_body]
    fn mul_assign(&mut self, rhs: ri32) { unimplemented!() }
}

impl DivSpecImpl<ri32> for ri64 {
    open spec fn obeys_div_spec() -> bool { true }
    open spec fn div_req(self, rhs: ri32) -> bool { rhs.val > 0 }
    open spec fn div_spec(self, rhs: ri32) -> ri64 { ri64 { val: (self.val as int / rhs.val as int) as i64 } }
}
impl core::ops::Div<ri32> for ri64 {
    type Output = ri64;
    #[verifier::external_body]
    fn div(self, rhs: ri32) -> ri64 { unimplemented!() }
}
impl RemSpecImpl<ri32> for ri64 {
    open spec fn obeys_rem_spec() -> bool { true }
    open spec fn rem_req(self, rhs: ri32) -> bool { rhs.val > 0 }
    open spec fn rem_spec(self, rhs: ri32) -> ri64 { ri64 { val: (self.val as int % rhs.val as int) as i64 } }
}
impl core::ops::Rem<ri32> for ri64 {
    type Output = ri64;
    #[verifier::external_body]
    fn rem(self, rhs: ri32) -> ri64 { unimplemented!() }
}

impl AddSpecImpl<ri128> for ri64 {
    open spec fn obeys_add_spec() -> bool { true }
    open spec fn add_req(self, rhs: ri128) -> bool { i64::MIN <= self.val + rhs.val <= i64::MAX }
    open spec fn add_spec(self, rhs: ri128) -> ri64 { ri64 { val: (self.val + rhs.val) as i64 } }
}
impl core::ops::Add<ri128> for ri64 {
    type Output = ri64;
    #[verifier::external_body]
    fn add(self, rhs: ri128) -> ri64 { unimplemented!() }
}
impl AddAssignSpecImpl<ri128> for ri64 {
    open spec fn obeys_add_assign_spec() -> bool { true }
    open spec fn add_assign_req(&self, rhs: ri128) -> bool { i64::MIN <= self.val + rhs.val <= i64::MAX }
    open spec fn add_assign_spec(&self, rhs: ri128) -> &ri64 { &ri64 { val: (self.val + rhs.val) as i64 } }
}
impl core::ops::AddAssign<ri128> for ri64 {
    #[verifier::external_body]
    fn add_assign(&mut self, rhs: ri128) { unimplemented!() }
}

impl SubSpecImpl<ri128> for ri64 {
    open spec fn obeys_sub_spec() -> bool { true }
    open spec fn sub_req(self, rhs: ri128) -> bool { i64::MIN <= self.val - rhs.val <= i64::MAX }
    open spec fn sub_spec(self, rhs: ri128) -> ri64 { ri64 { val: (self.val - rhs.val) as i64 } }
}
impl core::ops::Sub<ri128> for ri64 {
    type Output = ri64;
    #[verifier::external_body]
    fn sub(self, rhs: ri128) -> ri64 { unimplemented!() }
}
impl SubAssignSpecImpl<ri128> for ri64 {
    open spec fn obeys_sub_assign_spec() -> bool { true }
    open spec fn sub_assign_req(&self, rhs: ri128) -> bool { i64::MIN <= self.val - rhs.val <= i64::MAX }
    open spec fn sub_assign_spec(&self, rhs: ri128) -> &ri64 { &ri64 { val: (self.val - rhs.val) as i64 } }
}
impl core::ops::SubAssign<ri128> for ri64 {
    #[verifier::external_body]
    fn sub_assign(&mut self, rhs: ri128) { unimplemented!() }
}

impl MulSpecImpl<ri128> for ri64 {
    open spec fn obeys_mul_spec() -> bool { true }
    open spec fn mul_req(self, rhs: ri128) -> bool { i64::MIN <= self.val * rhs.val <= i64::MAX }
    open spec fn mul_spec(self, rhs: ri128) -> ri64 { ri64 { val: (self.val * rhs.val) as i64 } }
}
impl core::ops::Mul<ri128> for ri64 {
    type Output = ri64;
    #[verifier::external_body]
    fn mul(self, rhs: ri128) -> ri64 { unimplemented!() }
}
impl MulAssignSpecImpl<ri128> for ri64 {
    open spec fn obeys_mul_assign_spec() -> bool { true }
    open spec fn mul_assign_req(&self, rhs: ri128) -> bool { i64::MIN <= self.val * rhs.val <= i64::MAX }
    open spec fn mul_assign_spec(&self, rhs: ri128) -> &ri64 { &ri64 { val: (self.val * rhs.val) as i64 } }
}
impl core::ops::MulAssign<ri128> for ri64 {
    #[verifier::external_body]
    fn mul_assign(&mut self, rhs: ri128) { unimplemented!() }
}

impl DivSpecImpl<ri128> for ri64 {
    open spec fn obeys_div_spec() -> bool { true }
    open spec fn div_req(self, rhs: ri128) -> bool { rhs.val > 0 }
    open spec fn div_spec(self, rhs: ri128) -> ri64 { ri64 { val: (self.val as int / rhs.val as int) as i64 } }
}
impl core::ops::Div<ri128> for ri64 {
    type Output = ri64;
    #[verifier::external_body]
    fn div(self, rhs: ri128) -> ri64 { unimplemented!() }
}
impl RemSpecImpl<ri128> for ri64 {
    open spec fn obeys_rem_spec() -> bool { true }
    open spec fn rem_req(self, rhs: ri128) -> bool { rhs.val > 0 }
    open spec fn rem_spec(self, rhs: ri128) -> ri64 { ri64 { val: (self.val as int % rhs.val as int) as i64 } }
}
impl core::ops::Rem<ri128> for ri64 {
    type Output = ri64;
    #[verifier::external_body]
    fn rem(self, rhs: ri128) -> ri64 { unimplemented!() }
}

impl NegSpecImpl for ri64 {
    open spec fn obeys_neg_spec() -> bool { true }
    open spec fn neg_req(self) -> bool { self.val > i64::MIN }
    open spec fn neg_spec(self) -> ri64 { ri64 { val: (-self.val) as i64 } }
}
impl core::ops::Neg for ri64 {
    type Output = ri64;
    #[verifier::external_body]
    fn neg(self) -> ri64 { unimplemented!() }
}


// ------------------------------------------------------------------ ri128
#[derive(Clone, Copy)]
pub struct ri128 { pub val: i128 }
impl ri128 {
    pub fn new_unchecked(val: i128) -> (r: Self) ensures r.val == val { ri128 { val } }
    pub fn get(self) -> (r: i128) ensures r == self.val { self.val }
    pub fn get_unchecked(self) -> (r: i128) ensures r == self.val { self.val }
    pub fn without_bounds(self) -> (r: Self) ensures r == self { self }
    // `T::N::<VAL>()` is rewritten to `T::verif_N(VAL)`: the constant VAL (release: `Self { val: VAL }`, no bound is consulted).
    // (Not modelled with a const generic: Verus 0.2026.09.13 derives `false` from a negative const generic argument.)
    pub const fn verif_N(v: i128) -> (r: Self) ensures r.val == v { ri128 { val: v } }
    #[verifier::external_body]
    pub fn abs(self) -> (r: Self)
        requires self.val > i128::MIN,
        ensures r.val == (if self.val < 0 { -self.val } else { self.val as int })
    { unimplemented!() }
    // real: returns `riN<-1, 1>` of the SAME width
    pub fn signum(self) -> (r: Self) ensures r.val == (if self.val < 0 { -1int } else if self.val > 0 { 1int } else { 0int })
    { if self.val < 0 { ri128 { val: -1 } } else if self.val > 0 { ri128 { val: 1 } } else { ri128 { val: 0 } } }
    pub fn min<R: RInto<Self>>(self, other: R) -> (r: Self)
        requires other.rinto_req(),
        ensures r.val == (if other.rinto_spec().val < self.val { other.rinto_spec().val } else { self.val })
    { let o = other.rinto(); if o.val < self.val { o } else { self } }
    pub fn max<R: RInto<Self>>(self, other: R) -> (r: Self)
        requires other.rinto_req(),
        ensures r.val == (if other.rinto_spec().val > self.val { other.rinto_spec().val } else { self.val })
    { let o = other.rinto(); if o.val > self.val { o } else { self } }
    // truncating
    #[verifier::external_body]
    pub fn div_ceil<R: RInto<Self>>(self, rhs: R) -> (r: Self)
        requires rhs.rinto_req(), rhs.rinto_spec().val != 0, !(self.val == i128::MIN && rhs.rinto_spec().val == -1),
        ensures r.val == tdiv(self.val as int, rhs.rinto_spec().val as int)
    { unimplemented!() }
    #[verifier::external_body]
    pub fn rem_ceil<R: RInto<Self>>(self, rhs: R) -> (r: Self)
        requires rhs.rinto_req(), rhs.rinto_spec().val != 0, !(self.val == i128::MIN && rhs.rinto_spec().val == -1),
        ensures r.val == trem(self.val as int, rhs.rinto_spec().val as int)
    { unimplemented!() }
    // Euclidean (divisor > 0 required here; every use in jiff divides by a positive quantity)
    #[verifier::external_body]
    pub fn div_floor<R: RInto<Self>>(self, rhs: R) -> (r: Self)
        requires rhs.rinto_req(), rhs.rinto_spec().val > 0,
        ensures r.val == (self.val as int) / (rhs.rinto_spec().val as int)
    { unimplemented!() }
    #[verifier::external_body]
    pub fn rem_floor<R: RInto<Self>>(self, rhs: R) -> (r: Self)
        requires rhs.rinto_req(), rhs.rinto_spec().val > 0,
        ensures r.val == (self.val as int) % (rhs.rinto_spec().val as int)
    { unimplemented!() }
    #[verifier::external_body]
    pub fn saturating_mul<R: RInto<Self>>(self, rhs: R) -> (r: Self)
        requires rhs.rinto_req(),
        ensures i128::MIN <= self.val * rhs.rinto_spec().val <= i128::MAX ==> r.val == self.val * rhs.rinto_spec().val,
                self.val * rhs.rinto_spec().val > i128::MAX ==> r.val == i128::MAX,
                self.val * rhs.rinto_spec().val < i128::MIN ==> r.val == i128::MIN,
    { unimplemented!() }
    #[verifier::external_body]
    pub fn saturating_add<R: RInto<Self>>(self, rhs: R) -> (r: Self)
        requires rhs.rinto_req(),
        ensures i128::MIN <= self.val + rhs.rinto_spec().val <= i128::MAX ==> r.val == self.val + rhs.rinto_spec().val,
                self.val + rhs.rinto_spec().val > i128::MAX ==> r.val == i128::MAX,
                self.val + rhs.rinto_spec().val < i128::MIN ==> r.val == i128::MIN,
    { unimplemented!() }
}
// `type Range = ri128<{ LO }, { HI }>; Range::try_new("what", v)`: the bounds of an anonymous range are passed explicitly
#[verifier::external_body]
pub fn verif_try_new_range_128(lo: i128, hi: i128, v: i64) -> (res: Result<ri128, Error>)
    requires i128::MIN <= lo, hi <= i128::MAX,
    ensures res.is_ok() <==> lo <= v <= hi, res.is_ok() ==> res.unwrap().val == v
{ unimplemented!() }
impl RInto<ri128> for ri128 {
    open spec fn rinto_spec(self) -> ri128 { self }
    open spec fn rinto_req(self) -> bool { true }
    fn rinto(self) -> (r: ri128) { self }
}
impl RFrom<ri128> for ri128 {
    open spec fn rfrom_spec(t: ri128) -> ri128 { t }
    open spec fn rfrom_req(t: ri128) -> bool { true }
    fn rfrom(t: ri128) -> (r: ri128) { t }
}
impl RInto<ri128> for Constant {
    open spec fn rinto_spec(self) -> ri128 { ri128 { val: self.0 as i128 } }
    open spec fn rinto_req(self) -> bool { i128::MIN <= self.0 <= i128::MAX }
    #[verifier::external_body]
    fn rinto(self) -> (r: ri128) { unimplemented!() }
}
impl RFrom<Constant> for ri128 {
    open spec fn rfrom_spec(t: Constant) -> ri128 { ri128 { val: t.0 as i128 } }
    open spec fn rfrom_req(t: Constant) -> bool { i128::MIN <= t.0 <= i128::MAX }
    #[verifier::external_body]
    fn rfrom(t: Constant) -> (r: ri128) { unimplemented!() }
}
impl RInto<i128> for ri128 {
    open spec fn rinto_spec(self) -> i128 { self.val }
    open spec fn rinto_req(self) -> bool { true }
    fn rinto(self) -> (r: i128) { self.val }
}

impl PartialEqSpecImpl<ri128> for ri128 {
    open spec fn obeys_eq_spec() -> bool { true }
    open spec fn eq_spec(&self, other: &ri128) -> bool { self.val == other.val }
}
impl PartialEq<ri128> for ri128 {
    #[verifier::external_body]
    fn eq(&self, other: &ri128) -> bool { unimplemented!() }
}
impl PartialOrdSpecImpl<ri128> for ri128 {
    open spec fn obeys_partial_cmp_spec() -> bool { true }
    open spec fn partial_cmp_spec(&self, other: &ri128) -> Option<Ordering> { Some(int_cmp(self.val as int, other.val as int)) }
}
impl PartialOrd<ri128> for ri128 {
    #[verifier::external_body]
    fn partial_cmp(&self, other: &ri128) -> Option<Ordering> { unimplemented!() }
}

impl PartialEqSpecImpl<Constant> for ri128 {
    open spec fn obeys_eq_spec() -> bool { true }
    open spec fn eq_spec(&self, other: &Constant) -> bool { self.val == other.0 }
}
impl PartialEq<Constant> for ri128 {
    #[verifier::external_body]
    fn eq(&self, other: &Constant) -> bool { unimplemented!() }
}
impl PartialOrdSpecImpl<Constant> for ri128 {
    open spec fn obeys_partial_cmp_spec() -> bool { true }
    open spec fn partial_cmp_spec(&self, other: &Constant) -> Option<Ordering> { Some(int_cmp(self.val as int, other.0 as int)) }
}
impl PartialOrd<Constant> for ri128 {
    #[verifier::external_body]
    fn partial_cmp(&self, other: &Constant) -> Option<Ordering> { unimplemented!() }
}

impl PartialEqSpecImpl<ri8> for ri128 {
    open spec fn obeys_eq_spec() -> bool { true }
    open spec fn eq_spec(&self, other: &ri8) -> bool { self.val == other.val }
}
impl PartialEq<ri8> for ri128 {
    #[verifier::external_body]
    fn eq(&self, other: &ri8) -> bool { unimplemented!() }
}
impl PartialOrdSpecImpl<ri8> for ri128 {
    open spec fn obeys_partial_cmp_spec() -> bool { true }
    open spec fn partial_cmp_spec(&self, other: &ri8) -> Option<Ordering> { Some(int_cmp(self.val as int, other.val as int)) }
}
impl PartialOrd<ri8> for ri128 {
    #[verifier::external_body]
    fn partial_cmp(&self, other: &ri8) -> Option<Ordering> { unimplemented!() }
}

impl PartialEqSpecImpl<ri16> for ri128 {
    open spec fn obeys_eq_spec() -> bool { true }
    open spec fn eq_spec(&self, other: &ri16) -> bool { self.val == other.val }
}
impl PartialEq<ri16> for ri128 {
    #[verifier::external_body]
    fn eq(&self, other: &ri16) -> bool { unimplemented!() }
}
impl PartialOrdSpecImpl<ri16> for ri128 {
    open spec fn obeys_partial_cmp_spec() -> bool { true }
    open spec fn partial_cmp_spec(&self, other: &ri16) -> Option<Ordering> { Some(int_cmp(self.val as int, other.val as int)) }
}
impl PartialOrd<ri16> for ri128 {
    #[verifier::external_body]
    fn partial_cmp(&self, other: &ri16) -> Option<Ordering> { unimplemented!() }
}

impl PartialEqSpecImpl<ri32> for ri128 {
    open spec fn obeys_eq_spec() -> bool { true }
    open spec fn eq_spec(&self, other: &ri32) -> bool { self.val == other.val }
}
impl PartialEq<ri32> for ri128 {
    #[verifier::external_body]
    fn eq(&self, other: &ri32) -> bool { unimplemented!() }
}
impl PartialOrdSpecImpl<ri32> for ri128 {
    open spec fn obeys_partial_cmp_spec() -> bool { true }
    open spec fn partial_cmp_spec(&self, other: &ri32) -> Option<Ordering> { Some(int_cmp(self.val as int, other.val as int)) }
}
impl PartialOrd<ri32> for ri128 {
    #[verifier::external_body]
    fn partial_cmp(&self, other: &ri32) -> Option<Ordering> { unimplemented!() }
}

impl PartialEqSpecImpl<ri64> for ri128 {
    open spec fn obeys_eq_spec() -> bool { true }
    open spec fn eq_spec(&self, other: &ri64) -> bool { self.val == other.val }
}
impl PartialEq<ri64> for ri128 {
    #[verifier::external_body]
    fn eq(&self, other: &ri64) -> bool { unimplemented!() }
}
impl PartialOrdSpecImpl<ri64> for ri128 {
    open spec fn obeys_partial_cmp_spec() -> bool { true }
    open spec fn partial_cmp_spec(&self, other: &ri64) -> Option<Ordering> { Some(int_cmp(self.val as int, other.val as int)) }
}
impl PartialOrd<ri64> for ri128 {
    #[verifier::external_body]
    fn partial_cmp(&self, other: &ri64) -> Option<Ordering> { unimplemented!() }
}

impl AddSpecImpl<ri128> for ri128 {
    open spec fn obeys_add_spec() -> bool { true }
    open spec fn add_req(self, rhs: ri128) -> bool { i128::MIN <= self.val + rhs.val <= i128::MAX }
    open spec fn add_spec(self, rhs: ri128) -> ri128 { ri128 { val: (self.val + rhs.val) as i128 } }
}
impl core::ops::Add<ri128> for ri128 {
    type Output = ri128;
    #[verifier::external_body]
    fn add(self, rhs: ri128) -> ri128 { unimplemented!() }
}
impl AddAssignSpecImpl<ri128> for ri128 {
    open spec fn obeys_add_assign_spec() -> bool { true }
    open spec fn add_assign_req(&self, rhs: ri128) -> bool { i128::MIN <= self.val + rhs.val <= i128::MAX }
    open spec fn add_assign_spec(&self, rhs: ri128) -> &ri128 { &ri128 { val: (self.val + rhs.val) as i128 } }
}
impl core::ops::AddAssign<ri128> for ri128 {
    #[verifier::external_body]
    fn add_assign(&mut self, rhs: ri128) { unimplemented!() }
}

impl SubSpecImpl<ri128> for ri128 {
    open spec fn obeys_sub_spec() -> bool { true }
    open spec fn sub_req(self, rhs: ri128) -> bool { i128::MIN <= self.val - rhs.val <= i128::MAX }
    open spec fn sub_spec(self, rhs: ri128) -> ri128 { ri128 { val: (self.val - rhs.val) as i128 } }
}
impl core::ops::Sub<ri128> for ri128 {
    type Output = ri128;
    #[verifier::external_body]
    fn sub(self, rhs: ri128) -> ri128 { unimplemented!() }
}
impl SubAssignSpecImpl<ri128> for ri128 {
    open spec fn obeys_sub_assign_spec() -> bool { true }
    open spec fn sub_assign_req(&self, rhs: ri128) -> bool { i128::MIN <= self.val - rhs.val <= i128::MAX }
    open spec fn sub_assign_spec(&self, rhs: ri128) -> &ri128 { &ri128 { val: (self.val - rhs.val) as i128 } }
}
impl core::ops::SubAssign<ri128> for ri128 {
    #[verifier::external_body]
    fn sub_assign(&mut self, rhs: ri128) { unimplemented!() }
}

impl MulSpecImpl<ri128> for ri128 {
    open spec fn obeys_mul_spec() -> bool { true }
    open spec fn mul_req(self, rhs: ri128) -> bool { i128::MIN <= self.val * rhs.val <= i128::MAX }
    open spec fn mul_spec(self, rhs: ri128) -> ri128 { ri128 { val: (self.val * rhs.val) as i128 } }
}
impl core::ops::Mul<ri128> for ri128 {
    type Output = ri128;
    #[verifier::external_body]
    fn mul(self, rhs: ri128) -> ri128 { unimplemented!() }
}
impl MulAssignSpecImpl<ri128> for ri128 {
    open spec fn obeys_mul_assign_spec() -> bool { true }
    open spec fn mul_assign_req(&self, rhs: ri128) -> bool { i128::MIN <= self.val * rhs.val <= i128::MAX }
    open spec fn mul_assign_spec(&self, rhs: ri128) -> &ri128 { &ri128 { val: (self.val * rhs.val) as i128 } }
}
impl core::ops::MulAssign<ri128> for ri128 {
    #[verifier::external_body]
    fn mul_assign(&mut self, rhs: ri128) { unimplemented!() }
}

impl DivSpecImpl<ri128> for ri128 {
    open spec fn obeys_div_spec() -> bool { true }
    open spec fn div_req(self, rhs: ri128) -> bool { rhs.val > 0 }
    open spec fn div_spec(self, rhs: ri128) -> ri128 { ri128 { val: (self.val as int / rhs.val as int) as i128 } }
}
impl core::ops::Div<ri128> for ri128 {
    type Output = ri128;
    #[verifier::external_body]
    fn div(self, rhs: ri128) -> ri128 { unimplemented!() }
}
impl RemSpecImpl<ri128> for ri128 {
    open spec fn obeys_rem_spec() -> bool { true }
    open spec fn rem_req(self, rhs: ri128) -> bool { rhs.val > 0 }
    open spec fn rem_spec(self, rhs: ri128) -> ri128 { ri128 { val: (self.val as int % rhs.val as int) as i128 } }
}
impl core::ops::Rem<ri128> for ri128 {
    type Output = ri128;
    #[verifier::external_body]
    fn rem(self, rhs: ri128) -> ri128 { unimplemented!() }
}

impl AddSpecImpl<Constant> for ri128 {
    open spec fn obeys_add_spec() -> bool { true }
    open spec fn add_req(self, rhs: Constant) -> bool { i128::MIN <= self.val + rhs.0 <= i128::MAX }
    open spec fn add_spec(self, rhs: Constant) -> ri128 { ri128 { val: (self.val + rhs.0) as i128 } }
}
impl core::ops::Add<Constant> for ri128 {
    type Output = ri128;
    #[verifier::external_body]
    fn add(self, rhs: Constant) -> ri128 { unimplemented!() }
}
impl AddAssignSpecImpl<Constant> for ri128 {
    open spec fn obeys_add_assign_spec() -> bool { true }
    open spec fn add_assign_req(&self, rhs: Constant) -> bool { i128::MIN <= self.val + rhs.0 <= i128::MAX }
    open spec fn add_assign_spec(&self, rhs: Constant) -> &ri128 { &ri128 { val: (self.val + rhs.0) as i128 } }
}
impl core::ops::AddAssign<Constant> for ri128 {
    #[verifier::external_body]
    fn add_assign(&mut self, rhs: Constant) { unimplemented!() }
}

impl SubSpecImpl<Constant> for ri128 {
    open spec fn obeys_sub_spec() -> bool { true }
    open spec fn sub_req(self, rhs: Constant) -> bool { i128::MIN <= self.val - rhs.0 <= i128::MAX }
    open spec fn sub_spec(self, rhs: Constant) -> ri128 { ri128 { val: (self.val - rhs.0) as i128 } }
}
impl core::ops::Sub<Constant> for ri128 {
    type Output = ri128;
    #[verifier::external_body]
    fn sub(self, rhs: Constant) -> ri128 { unimplemented!() }
}
impl SubAssignSpecImpl<Constant> for ri128 {
    open spec fn obeys_sub_assign_spec() -> bool { true }
    open spec fn sub_assign_req(&self, rhs: Constant) -> bool { i128::MIN <= self.val - rhs.0 <= i128::MAX }
    open spec fn sub_assign_spec(&self, rhs: Constant) -> &ri128 { &ri128 { val: (self.val - rhs.0) as i128 } }
}
impl core::ops::SubAssign<Constant> for ri128 {
    #[verifier::external_body]
    fn sub_assign(&mut self, rhs: Constant) { unimplemented!() }
}

impl MulSpecImpl<Constant> for ri128 {
    open spec fn obeys_mul_spec() -> bool { true }
    open spec fn mul_req(self, rhs: Constant) -> bool { i128::MIN <= self.val * rhs.0 <= i128::MAX }
    open spec fn mul_spec(self, rhs: Constant) -> ri128 { ri128 { val: (self.val * rhs.0) as i128 } }
}
impl core::ops::Mul<Constant> for ri128 {
    type Output = ri128;
    #[verifier::external_body]
    fn mul(self, rhs: Constant) -> ri128 { unimplemented!() }
}
impl MulAssignSpecImpl<Constant> for ri128 {
    open spec fn obeys_mul_assign_spec() -> bool { true }
    open spec fn mul_assign_req(&self, rhs: Constant) -> bool { i128::MIN <= self.val * rhs.0 <= i128::MAX }
    open spec fn mul_assign_spec(&self, rhs: Constant) -> &ri128 { &ri128 { val: (self.val * rhs.0) as i128 } }
}
impl core::ops::MulAssign<Constant> for ri128 {
    #[verifier::external_body]
    fn mul_assign(&mut self, rhs: Constant) { unimplemented!() }
}

impl DivSpecImpl<Constant> for ri128 {
    open spec fn obeys_div_spec() -> bool { true }
    open spec fn div_req(self, rhs: Constant) -> bool { rhs.0 > 0 }
    open spec fn div_spec(self, rhs: Constant) -> ri128 { ri128 { val: (self.val as int / rhs.0 as int) as i128 } }
}
impl core::ops::Div<Constant> for ri128 {
    type Output = ri128;
    #[verifier::external_body]
    fn div(self, rhs: Constant) -> ri128 { unimplemented!() }
}
impl RemSpecImpl<Constant> for ri128 {
    open spec fn obeys_rem_spec() -> bool { true }
    open spec fn rem_req(self, rhs: Constant) -> bool { rhs.0 > 0 }
    open spec fn rem_spec(self, rhs: Constant) -> ri128 { ri128 { val: (self.val as int % rhs.0 as int) as i128 } }
}
impl core::ops::Rem<Constant> for ri128 {
    type Output = ri128;
    #[verifier::external_body]
    fn rem(self, rhs: Constant) -> ri128 { unimplemented!() }
}

impl AddSpecImpl<ri8> for ri128 {
    open spec fn obeys_add_spec() -> bool { true }
    open spec fn add_req(self, rhs: ri8) -> bool { i128::MIN <= self.val + rhs.val <= i128::MAX }
    open spec fn add_spec(self, rhs: ri8) -> ri128 { ri128 { val: (self.val + rhs.val) as i128 } }
}
impl core::ops::Add<ri8> for ri128 {
    type Output = ri128;
    #[verifier::external_body]
    fn add(self, rhs: ri8) -> ri128 { unimplemented!() }
}
impl AddAssignSpecImpl<ri8> for ri128 {
    open spec fn obeys_add_assign_spec() -> bool { true }
    open spec fn add_assign_req(&self, rhs: ri8) -> bool { i128::MIN <= self.val + rhs.val <= i128::MAX }
    open spec fn add_assign_spec(&self, rhs: ri8) -> &ri128 { &ri128 { val: (self.val + rhs.val) as i128 } }
}
impl core::ops::AddAssign<ri8> for ri128 {
    #[verifier::external_body]
    fn add_assign(&mut self, rhs: ri8) { unimplemented!() }
}

impl SubSpecImpl<ri8> for ri128 {
    open spec fn obeys_sub_spec() -> bool { true }
    open spec fn sub_req(self, rhs: ri8) -> bool { i128::MIN <= self.val - rhs.val <= i128::MAX }
    open spec fn sub_spec(self, rhs: ri8) -> ri128 { ri128 { val: (self.val - rhs.val) as i128 } }
}
impl core::ops::Sub<ri8> for ri128 {
    type Output = ri128;
    #[verifier::external_body]
    fn sub(self, rhs: ri8) -> ri128 { unimplemented!() }
}
impl SubAssignSpecImpl<ri8> for ri128 {
    open spec fn obeys_sub_assign_spec() -> bool { true }
    open spec fn sub_assign_req(&self, rhs: ri8) -> bool { i128::MIN <= self.val - rhs.val <= i128::MAX }
    open spec fn sub_assign_spec(&self, rhs: ri8) -> &ri128 { &ri128 { val: (self.val - rhs.val) as i128 } }
}
impl core::ops::SubAssign<ri8> for ri128 {
    #[verifier::external_body]
    fn sub_assign(&mut self, rhs: ri8) { unimplemented!() }
}

impl MulSpecImpl<ri8> for ri128 {
    open spec fn obeys_mul_spec() -> bool { true }
    open spec fn mul_req(self, rhs: ri8) -> bool { i128::MIN <= self.val * rhs.val <= i128::MAX }
    open spec fn mul_spec(self, rhs: ri8) -> ri128 { ri128 { val: (self.val * rhs.val) as i128 } }
}
impl core::ops::Mul<ri8> for ri128 {
    type Output = ri128;
    #[verifier::external_body]
    fn mul(self, rhs: ri8) -> ri128 { unimplemented!() }
}
impl MulAssignSpecImpl<ri8> for ri128 {
    open spec fn obeys_mul_assign_spec() -> bool { true }
    open spec fn mul_assign_req(&self, rhs: ri8) -> bool { i128::MIN <= self.val * rhs.val <= i128::MAX }
    open spec fn mul_assign_spec(&self, rhs: ri8) -> &ri128 { &ri128 { val: (self.val * rhs.val) as i128 } }
}
impl core::ops::MulAssign<ri8> for ri128 {
    #[verifier::external_body]
    fn mul_assign(&mut self, rhs: ri8) { unimplemented!() }
}

impl DivSpecImpl<ri8> for ri128 {
    open spec fn obeys_div_spec() -> bool { true }
    open spec fn div_req(self, rhs: ri8) -> bool { rhs.val > 0 }
    open spec fn div_spec(self, rhs: ri8) -> ri128 { ri128 { val: (self.val as int / rhs.val as int) as i128 } }
}
impl core::ops::Div<ri8> for ri128 {
    type Output = ri128;
    #[verifier::external_body]
    fn div(self, rhs: ri8) -> ri128 { unimplemented!() }
}
impl RemSpecImpl<ri8> for ri128 {
    open spec fn obeys_rem_spec() -> bool { true }
    open spec fn rem_req(self, rhs: ri8) -> bool { rhs.val > 0 }
    open spec fn rem_spec(self, rhs: ri8) -> ri128 { ri128 { val: (self.val as int % rhs.val as int) as i128 } }
}
impl core::ops::Rem<ri8> for ri128 {
    type Output = ri128;
    #[verifier::external_body]
    fn rem(self, rhs: ri8) -> ri128 { unimplemented!() }
}

impl AddSpecImpl<ri16> for ri128 {
    open spec fn obeys_add_spec() -> bool { true }
    open spec fn add_req(self, rhs: ri16) -> bool { i128::MIN <= self.val + rhs.val <= i128::MAX }
    open spec fn add_spec(self, rhs: ri16) -> ri128 { ri128 { val: (self.val + rhs.val) as i128 } }
}
impl core::ops::Add<ri16> for ri128 {
    type Output = ri128;
    #[verifier::external_body]
    fn add(self, rhs: ri16) -> ri128 { unimplemented!() }
}
impl AddAssignSpecImpl<ri16> for ri128 {
    open spec fn obeys_add_assign_spec() -> bool { true }
    open spec fn add_assign_req(&self, rhs: ri16) -> bool { i128::MIN <= self.val + rhs.val <= i128::MAX }
    open spec fn add_assign_spec(&self, rhs: ri16) -> &ri128 { &ri128 { val: (self.val + rhs.val) as i128 } }
}
impl core::ops::AddAssign<ri16> for ri128 {
    #[verifier::external_body]
    fn add_assign(&mut self, rhs: ri16) { unimplemented!() }
}

impl SubSpecImpl<ri16> for ri128 {
    open spec fn obeys_sub_spec() -> bool { true }
    open spec fn sub_req(self, rhs: ri16) -> bool { i128::MIN <= self.val - rhs.val <= i128::MAX }
    open spec fn sub_spec(self, rhs: ri16) -> ri128 { ri128 { val: (self.val - rhs.val) as i128 } }
}
impl core::ops::Sub<ri16> for ri128 {
    type Output = ri128;
    #[verifier::external_body]
    fn sub(self, rhs: ri16) -> ri128 { unimplemented!() }
}
impl SubAssignSpecImpl<ri16> for ri128 {
    open spec fn obeys_sub_assign_spec() -> bool { true }
    open spec fn sub_assign_req(&self, rhs: ri16) -> bool { i128::MIN <= self.val - rhs.val <= i128::MAX }
    open spec fn sub_assign_spec(&self, rhs: ri16) -> &ri128 { &ri128 { val: (self.val - rhs.val) as i128 } }
}
impl core::ops::SubAssign<ri16> for ri128 {
    #[verifier::external_body]
    fn sub_assign(&mut self, rhs: ri16) { unimplemented!() }
}

impl MulSpecImpl<ri16> for ri128 {
    open spec fn obeys_mul_spec() -> bool { true }
    open spec fn mul_req(self, rhs: ri16) -> bool { i128::MIN <= self.val * rhs.val <= i128::MAX }
    open spec fn mul_spec(self, rhs: ri16) -> ri128 { ri128 { val: (self.val * rhs.val) as i128 } }
}
impl core::ops::Mul<ri16> for ri128 {
    type Output = ri128;
    #[verifier::external_body]
    fn mul(self, rhs: ri16) -> ri128 { unimplemented!() }
}
impl MulAssignSpecImpl<ri16> for ri128 {
    open spec fn obeys_mul_assign_spec() -> bool { true }
    open spec fn mul_assign_req(&self, rhs: ri16) -> bool { i128::MIN <= self.val * rhs.val <= i128::MAX }
    open spec fn mul_assign_spec(&self, rhs: ri16) -> &ri128 { &ri128 { val: (self.val * rhs.val) as i128 } }
}
impl core::ops::MulAssign<ri16> for ri128 {
    #[verifier::external_body]
    fn mul_assign(&mut self, rhs: ri16) { unimplemented!() }
}

impl DivSpecImpl<ri16> for ri128 {
    open spec fn obeys_div_spec() -> bool { true }
    open spec fn div_req(self, rhs: ri16) -> bool { rhs.val > 0 }
    open spec fn div_spec(self, rhs: ri16) -> ri128 { ri128 { val: (self.val as int / rhs.val as int) as i128 } }
}
impl core::ops::Div<ri16> for ri128 {
    type Output = ri128;
    #[verifier::external_body]
    fn div(self, rhs: ri16) -> ri128 { unimplemented!() }
}
impl RemSpecImpl<ri16> for ri128 {
    open spec fn obeys_rem_spec() -> bool { true }
    open spec fn rem_req(self, rhs: ri16) -> bool { rhs.val > 0 }
    open spec fn rem_spec(self, rhs: ri16) -> ri128 { ri128 { val: (self.val as int % rhs.val as int) as i128 } }
}
impl core::ops::Rem<ri16> for ri128 {
    type Output = ri128;
    #[verifier::external_body]
    fn rem(self, rhs: ri16) -> ri128 { unimplemented!() }
}

impl AddSpecImpl<ri32> for ri128 {
    open spec fn obeys_add_spec() -> bool { true }
    open spec fn add_req(self, rhs: ri32) -> bool { i128::MIN <= self.val + rhs.val <= i128::MAX }
    open spec fn add_spec(self, rhs: ri32) -> ri128 { ri128 { val: (self.val + rhs.val) as i128 } }
}
impl core::ops::Add<ri32> for ri128 {
    type Output = ri128;
    #[verifier::external_body]
    fn add(self, rhs: ri32) -> ri128 { unimplemented!() }
}
impl AddAssignSpecImpl<ri32> for ri128 {
    open spec fn obeys_add_assign_spec() -> bool { true }
    open spec fn add_assign_req(&self, rhs: ri32) -> bool { i128::MIN <= self.val + rhs.val <= i128::MAX }
    open spec fn add_assign_spec(&self, rhs: ri32) -> &ri128 { &ri128 { val: (self.val + rhs.val) as i128 } }
}
impl core::ops::AddAssign<ri32> for ri128 {
    #[verifier::external_body]
    fn add_assign(&mut self, rhs: ri32) { unimplemented!() }
}

impl SubSpecImpl<ri32> for ri128 {
    open spec fn obeys_sub_spec() -> bool { true }
    open spec fn sub_req(self, rhs: ri32) -> bool { i128::MIN <= self.val - rhs.val <= i128::MAX }
    open spec fn sub_spec(self, rhs: ri32) -> ri128 { ri128 { val: (self.val - rhs.val) as i128 } }
}
impl core::ops::Sub<ri32> for ri128 {
    type Output = ri128;
    #[verifier::external_body]
    fn sub(self, rhs: ri32) -> ri128 { unimplemented!() }
}
impl SubAssignSpecImpl<ri32> for ri128 {
    open spec fn obeys_sub_assign_spec() -> bool { true }
    open spec fn sub_assign_req(&self, rhs: ri32) -> bool { i128::MIN <= self.val - rhs.val <= i128::MAX }
    open spec fn sub_assign_spec(&self, rhs: ri32) -> &ri128 { &ri128 { val: (self.val - rhs.val) as i128 } }
}
impl core::ops::SubAssign<ri32> for ri128 {
    #[verifier::external_body]
    fn sub_assign(&mut self, rhs: ri32) { unimplemented!() }
}

impl MulSpecImpl<ri32> for ri128 {
    open spec fn obeys_mul_spec() -> bool { true }
    open spec fn mul_req(self, rhs: ri32) -> bool { i128::MIN <= self.val * rhs.val <= i128::MAX }
    open spec fn mul_spec(self, rhs: ri32) -> ri128 { ri128 { val: (self.val * rhs.val) as i128 } }
}
impl core::ops::Mul<ri32> for ri128 {
    type Output = ri128;
    #[verifier::external_body]
    fn mul(self, rhs: ri32) -> ri128 { unimplemented!() }
}
impl MulAssignSpecImpl<ri32> for ri128 {
    open spec fn obeys_mul_assign_spec() -> bool { true }
    open spec fn mul_assign_req(&self, rhs: ri32) -> bool { i128::MIN <= self.val * rhs.val <= i128::MAX }
    open spec fn mul_assign_spec(&self, rhs: ri32) -> &ri128 { &ri128 { val: (self.val * rhs.val) as i128 } }
}
impl core::ops::MulAssign<ri32> for ri128 {
    #[verifier::external_body]
    fn mul_assign(&mut self, rhs: ri32) { unimplemented!() }
}

impl DivSpecImpl<ri32> for ri128 {
    open spec fn obeys_div_spec() -> bool { true }
    open spec fn div_req(self, rhs: ri32) -> bool { rhs.val > 0 }
    open spec fn div_spec(self, rhs: ri32) -> ri128 { ri128 { val: (self.val as int / rhs.val as int) as i128 } }
}
impl core::ops::Div<ri32> for ri128 {
    type Output = ri128;
    #[verifier::external_body]
    fn div(self, rhs: ri32) -> ri128 { unimplemented!() }
}
impl RemSpecImpl<ri32> for ri128 {
    open spec fn obeys_rem_spec() -> bool { true }
    open spec fn rem_req(self, rhs: ri32) -> bool { rhs.val > 0 }
    open spec fn rem_spec(self, rhs: ri32) -> ri128 { ri128 { val: (self.val as int % rhs.val as int) as i128 } }
}
impl core::ops::Rem<ri32> for ri128 {
    type Output = ri128;
    #[verifier::external_body]
    fn rem(self, rhs: ri32) -> ri128 { unimplemented!() }
}

impl AddSpecImpl<ri64> for ri128 {
    open spec fn obeys_add_spec() -> bool { true }
    open spec fn add_req(self, rhs: ri64) -> bool { i128::MIN <= self.val + rhs.val <= i128::MAX }
    open spec fn add_spec(self, rhs: ri64) -> ri128 { ri128 { val: (self.val + rhs.val) as i128 } }
}
impl core::ops::Add<ri64> for ri128 {
    type Output = ri128;
    #[verifier::external_body]
    fn add(self, rhs: ri64) -> ri128 { unimplemented!() }
}
impl AddAssignSpecImpl<ri64> for ri128 {
    open spec fn obeys_add_assign_spec() -> bool { true }
    open spec fn add_assign_req(&self, rhs: ri64) -> bool { i128::MIN <= self.val + rhs.val <= i128::MAX }
    open spec fn add_assign_spec(&self, rhs: ri64) -> &ri128 { &ri128 { val: (self.val + rhs.val) as i128 } }
}
impl core::ops::AddAssign<ri64> for ri128 {
    #[verifier::external_body]
    fn add_assign(&mut self, rhs: ri64) { unimplemented!() }
}

impl SubSpecImpl<ri64> for ri128 {
    open spec fn obeys_sub_spec() -> bool { true }
    open spec fn sub_req(self, rhs: ri64) -> bool { i128::MIN <= self.val - rhs.val <= i128::MAX }
    open spec fn sub_spec(self, rhs: ri64) -> ri128 { ri128 { val: (self.val - rhs.val) as i128 } }
}
impl core::ops::Sub<ri64> for ri128 {
    type Output = ri128;
    #[verifier::external_body]
    fn sub(self, rhs: ri64) -> ri128 { unimplemented!() }
}
impl SubAssignSpecImpl<ri64> for ri128 {
    open spec fn obeys_sub_assign_spec() -> bool { true }
    open spec fn sub_assign_req(&self, rhs: ri64) -> bool { i128::MIN <= self.val - rhs.val <= i128::MAX }
    open spec fn sub_assign_spec(&self, rhs: ri64) -> &ri128 { &ri128 { val: (self.val - rhs.val) as i128 } }
}
impl core::ops::SubAssign<ri64> for ri128 {
    #[verifier::external_body]
    fn sub_assign(&mut self, rhs: ri64) { unimplemented!() }
}

impl MulSpecImpl<ri64> for ri128 {
    open spec fn obeys_mul_spec() -> bool { true }
    open spec fn mul_req(self, rhs: ri64) -> bool { i128::MIN <= self.val * rhs.val <= i128::MAX }
    open spec fn mul_spec(self, rhs: ri64) -> ri128 { ri128 { val: (self.val * rhs.val) as i128 } }
}
impl core::ops::Mul<ri64> for ri128 {
    type Output = ri128;
    #[verifier::external_body]
    fn mul(self, rhs: ri64) -> ri128 { unimplemented!() }
}
impl MulAssignSpecImpl<ri64> for ri128 {
    open spec fn obeys_mul_assign_spec() -> bool { true }
    open spec fn mul_assign_req(&self, rhs: ri64) -> bool { i128::MIN <= self.val * rhs.val <= i128::MAX }
    open spec fn mul_assign_spec(&self, rhs: ri64) -> &ri128 { &ri128 { val: (self.val * rhs.val) as i128 } }
}
impl core::ops::MulAssign<ri64> for ri128 {
    #[verifier::external_body]
    fn mul_assign(&mut self, rhs: ri64) { unimplemented!() }
}

impl DivSpecImpl<ri64> for ri128 {
    open spec fn obeys_div_spec() -> bool { true }
    open spec fn div_req(self, rhs: ri64) -> bool { rhs.val > 0 }
    open spec fn div_spec(self, rhs: ri64) -> ri128 { ri128 { val: (self.val as int / rhs.val as int) as i128 } }
}
impl core::ops::Div<ri64> for ri128 {
    type Output = ri128;
    #[verifier::external_body]
    fn div(self, rhs: ri64) -> ri128 { unimplemented!() }
}
impl RemSpecImpl<ri64> for ri128 {
    open spec fn obeys_rem_spec() -> bool { true }
    open spec fn rem_req(self, rhs: ri64) -> bool { rhs.val > 0 }
    open spec fn rem_spec(self, rhs: ri64) -> ri128 { ri128 { val: (self.val as int % rhs.val as int) as i128 } }
}
impl core::ops::Rem<ri64> for ri128 {
    type Output = ri128;
    #[verifier::external_body]
    fn rem(self, rhs: ri64) -> ri128 { unimplemented!() }
}

impl NegSpecImpl for ri128 {
    open spec fn obeys_neg_spec() -> bool { true }
    open spec fn neg_req(self) -> bool { self.val > i128::MIN }
    open spec fn neg_spec(self) -> ri128 { ri128 { val: (-self.val) as i128 } }
}
impl core::ops::Neg for ri128 {
    type Output = ri128;
    #[verifier::external_body]
    fn neg(self) -> ri128 { unimplemented!() }
}

impl RInto<ri16> for ri8 {
    open spec fn rinto_spec(self) -> ri16 { ri16 { val: self.val as i16 } }
    open spec fn rinto_req(self) -> bool { true }
    #[verifier::external_body]
    fn rinto(self) -> (r: ri16) { unimplemented!() }
}
impl RFrom<ri8> for ri16 {
    open spec fn rfrom_spec(t: ri8) -> ri16 { ri16 { val: t.val as i16 } }
    open spec fn rfrom_req(t: ri8) -> bool { true }
    #[verifier::external_body]
    fn rfrom(t: ri8) -> (r: ri16) { unimplemented!() }
}

impl RInto<ri32> for ri8 {
    open spec fn rinto_spec(self) -> ri32 { ri32 { val: self.val as i32 } }
    open spec fn rinto_req(self) -> bool { true }
    #[verifier::external_body]
    fn rinto(self) -> (r: ri32) { unimplemented!() }
}
impl RFrom<ri8> for ri32 {
    open spec fn rfrom_spec(t: ri8) -> ri32 { ri32 { val: t.val as i32 } }
    open spec fn rfrom_req(t: ri8) -> bool { true }
    #[verifier::external_body]
    fn rfrom(t: ri8) -> (r: ri32) { unimplemented!() }
}

impl RInto<ri64> for ri8 {
    open spec fn rinto_spec(self) -> ri64 { ri64 { val: self.val as i64 } }
    open spec fn rinto_req(self) -> bool { true }
    #[verifier::external_body]
    fn rinto(self) -> (r: ri64) { unimplemented!() }
}
impl RFrom<ri8> for ri64 {
    open spec fn rfrom_spec(t: ri8) -> ri64 { ri64 { val: t.val as i64 } }
    open spec fn rfrom_req(t: ri8) -> bool { true }
    #[verifier::external_body]
    fn rfrom(t: ri8) -> (r: ri64) { unimplemented!() }
}

impl RInto<ri128> for ri8 {
    open spec fn rinto_spec(self) -> ri128 { ri128 { val: self.val as i128 } }
    open spec fn rinto_req(self) -> bool { true }
    #[verifier::external_body]
    fn rinto(self) -> (r: ri128) { unimplemented!() }
}
impl RFrom<ri8> for ri128 {
    open spec fn rfrom_spec(t: ri8) -> ri128 { ri128 { val: t.val as i128 } }
    open spec fn rfrom_req(t: ri8) -> bool { true }
    #[verifier::external_body]
    fn rfrom(t: ri8) -> (r: ri128) { unimplemented!() }
}

impl RInto<ri8> for ri16 {
    open spec fn rinto_spec(self) -> ri8 { ri8 { val: self.val as i8 } }
    open spec fn rinto_req(self) -> bool { i8::MIN <= self.val <= i8::MAX }
    #[verifier::external_body]
    fn rinto(self) -> (r: ri8) { unimplemented!() }
}
impl RFrom<ri16> for ri8 {
    open spec fn rfrom_spec(t: ri16) -> ri8 { ri8 { val: t.val as i8 } }
    open spec fn rfrom_req(t: ri16) -> bool { i8::MIN <= t.val <= i8::MAX }
    #[verifier::external_body]
    fn rfrom(t: ri16) -> (r: ri8) { unimplemented!() }
}

impl RInto<ri32> for ri16 {
    open spec fn rinto_spec(self) -> ri32 { ri32 { val: self.val as i32 } }
    open spec fn rinto_req(self) -> bool { true }
    #[verifier::external_body]
    fn rinto(self) -> (r: ri32) { unimplemented!() }
}
impl RFrom<ri16> for ri32 {
    open spec fn rfrom_spec(t: ri16) -> ri32 { ri32 { val: t.val as i32 } }
    open spec fn rfrom_req(t: ri16) -> bool { true }
    #[verifier::external_body]
    fn rfrom(t: ri16) -> (r: ri32) { unimplemented!() }
}

impl RInto<ri64> for ri16 {
    open spec fn rinto_spec(self) -> ri64 { ri64 { val: self.val as i64 } }
    open spec fn rinto_req(self) -> bool { true }
    #[verifier::external_body]
    fn rinto(self) -> (r: ri64) { unimplemented!() }
}
impl RFrom<ri16> for ri64 {
    open spec fn rfrom_spec(t: ri16) -> ri64 { ri64 { val: t.val as i64 } }
    open spec fn rfrom_req(t: ri16) -> bool { true }
    #[verifier::external_body]
    fn rfrom(t: ri16) -> (r: ri64) { unimplemented!() }
}

impl RInto<ri128> for ri16 {
    open spec fn rinto_spec(self) -> ri128 { ri128 { val: self.val as i128 } }
    open spec fn rinto_req(self) -> bool { true }
    #[verifier::external_body]
    fn rinto(self) -> (r: ri128) { unimplemented!() }
}
impl RFrom<ri16> for ri128 {
    open spec fn rfrom_spec(t: ri16) -> ri128 { ri128 { val: t.val as i128 } }
    open spec fn rfrom_req(t: ri16) -> bool { true }
    #[verifier::external_body]
    fn rfrom(t: ri16) -> (r: ri128) { unimplemented!() }
}

impl RInto<ri8> for ri32 {
    open spec fn rinto_spec(self) -> ri8 { ri8 { val: self.val as i8 } }
    open spec fn rinto_req(self) -> bool { i8::MIN <= self.val <= i8::MAX }
    #[verifier::external_body]
    fn rinto(self) -> (r: ri8) { unimplemented!() }
}
impl RFrom<ri32> for ri8 {
    open spec fn rfrom_spec(t: ri32) -> ri8 { ri8 { val: t.val as i8 } }
    open spec fn rfrom_req(t: ri32) -> bool { i8::MIN <= t.val <= i8::MAX }
    #[verifier::external_body]
    fn rfrom(t: ri32) -> (r: ri8) { unimplemented!() }
}

impl RInto<ri16> for ri32 {
    open spec fn rinto_spec(self) -> ri16 { ri16 { val: self.val as i16 } }
    open spec fn rinto_req(self) -> bool { i16::MIN <= self.val <= i16::MAX }
    #[verifier::external_body]
    fn rinto(self) -> (r: ri16) { unimplemented!() }
}
impl RFrom<ri32> for ri16 {
    open spec fn rfrom_spec(t: ri32) -> ri16 { ri16 { val: t.val as i16 } }
    open spec fn rfrom_req(t: ri32) -> bool { i16::MIN <= t.val <= i16::MAX }
    #[verifier::external_body]
    fn rfrom(t: ri32) -> (r: ri16) { unimplemented!() }
}

impl RInto<ri64> for ri32 {
    open spec fn rinto_spec(self) -> ri64 { ri64 { val: self.val as i64 } }
    open spec fn rinto_req(self) -> bool { true }
    #[verifier::external_body]
    fn rinto(self) -> (r: ri64) { unimplemented!() }
}
impl RFrom<ri32> for ri64 {
    open spec fn rfrom_spec(t: ri32) -> ri64 { ri64 { val: t.val as i64 } }
    open spec fn rfrom_req(t: ri32) -> bool { true }
    #[verifier::external_body]
    fn rfrom(t: ri32) -> (r: ri64) { unimplemented!() }
}

impl RInto<ri128> for ri32 {
    open spec fn rinto_spec(self) -> ri128 { ri128 { val: self.val as i128 } }
    open spec fn rinto_req(self) -> bool { true }
    #[verifier::external_body]
    fn rinto(self) -> (r: ri128) { unimplemented!() }
}
impl RFrom<ri32> for ri128 {
    open spec fn rfrom_spec(t: ri32) -> ri128 { ri128 { val: t.val as i128 } }
    open spec fn rfrom_req(t: ri32) -> bool { true }
    #[verifier::external_body]
    fn rfrom(t: ri32) -> (r: ri128) { unimplemented!() }
}

impl RInto<ri8> for ri64 {
    open spec fn rinto_spec(self) -> ri8 { ri8 { val: self.val as i8 } }
    open spec fn rinto_req(self) -> bool { i8::MIN <= self.val <= i8::MAX }
    #[verifier::external_body]
    fn rinto(self) -> (r: ri8) { unimplemented!() }
}
impl RFrom<ri64> for ri8 {
    open spec fn rfrom_spec(t: ri64) -> ri8 { ri8 { val: t.val as i8 } }
    open spec fn rfrom_req(t: ri64) -> bool { i8::MIN <= t.val <= i8::MAX }
    #[verifier::external_body]
    fn rfrom(t: ri64) -> (r: ri8) { unimplemented!() }
}

impl RInto<ri16> for ri64 {
    open spec fn rinto_spec(self) -> ri16 { ri16 { val: self.val as i16 } }
    open spec fn rinto_req(self) -> bool { i16::MIN <= self.val <= i16::MAX }
    #[verifier::external_body]
    fn rinto(self) -> (r: ri16) { unimplemented!() }
}
impl RFrom<ri64> for ri16 {
    open spec fn rfrom_spec(t: ri64) -> ri16 { ri16 { val: t.val as i16 } }
    open spec fn rfrom_req(t: ri64) -> bool { i16::MIN <= t.val <= i16::MAX }
    #[verifier::external_body]
    fn rfrom(t: ri64) -> (r: ri16) { unimplemented!() }
}

impl RInto<ri32> for ri64 {
    open spec fn rinto_spec(self) -> ri32 { ri32 { val: self.val as i32 } }
    open spec fn rinto_req(self) -> bool { i32::MIN <= self.val <= i32::MAX }
    #[verifier::external_body]
    fn rinto(self) -> (r: ri32) { unimplemented!() }
}
impl RFrom<ri64> for ri32 {
    open spec fn rfrom_spec(t: ri64) -> ri32 { ri32 { val: t.val as i32 } }
    open spec fn rfrom_req(t: ri64) -> bool { i32::MIN <= t.val <= i32::MAX }
    #[verifier::external_body]
    fn rfrom(t: ri64) -> (r: ri32) { unimplemented!() }
}

impl RInto<ri128> for ri64 {
    open spec fn rinto_spec(self) -> ri128 { ri128 { val: self.val as i128 } }
    open spec fn rinto_req(self) -> bool { true }
    #[verifier::external_body]
    fn rinto(self) -> (r: ri128) { unimplemented!() }
}
impl RFrom<ri64> for ri128 {
    open spec fn rfrom_spec(t: ri64) -> ri128 { ri128 { val: t.val as i128 } }
    open spec fn rfrom_req(t: ri64) -> bool { true }
    #[verifier::external_body]
    fn rfrom(t: ri64) -> (r: ri128) { unimplemented!() }
}

impl RInto<ri8> for ri128 {
    open spec fn rinto_spec(self) -> ri8 { ri8 { val: self.val as i8 } }
    open spec fn rinto_req(self) -> bool { i8::MIN <= self.val <= i8::MAX }
    #[verifier::external_body]
    fn rinto(self) -> (r: ri8) { unimplemented!() }
}
impl RFrom<ri128> for ri8 {
    open spec fn rfrom_spec(t: ri128) -> ri8 { ri8 { val: t.val as i8 } }
    open spec fn rfrom_req(t: ri128) -> bool { i8::MIN <= t.val <= i8::MAX }
    #[verifier::external_body]
    fn rfrom(t: ri128) -> (r: ri8) { unimplemented!() }
}

impl RInto<ri16> for ri128 {
    open spec fn rinto_spec(self) -> ri16 { ri16 { val: self.val as i16 } }
    open spec fn rinto_req(self) -> bool { i16::MIN <= self.val <= i16::MAX }
    #[verifier::external_body]
    fn rinto(self) -> (r: ri16) { unimplemented!() }
}
impl RFrom<ri128> for ri16 {
    open spec fn rfrom_spec(t: ri128) -> ri16 { ri16 { val: t.val as i16 } }
    open spec fn rfrom_req(t: ri128) -> bool { i16::MIN <= t.val <= i16::MAX }
    #[verifier::external_body]
    fn rfrom(t: ri128) -> (r: ri16) { unimplemented!() }
}

impl RInto<ri32> for ri128 {
    open spec fn rinto_spec(self) -> ri32 { ri32 { val: self.val as i32 } }
    open spec fn rinto_req(self) -> bool { i32::MIN <= self.val <= i32::MAX }
    #[verifier::external_body]
    fn rinto(self) -> (r: ri32) { unimplemented!() }
}
impl RFrom<ri128> for ri32 {
    open spec fn rfrom_spec(t: ri128) -> ri32 { ri32 { val: t.val as i32 } }
    open spec fn rfrom_req(t: ri128) -> bool { i32::MIN <= t.val <= i32::MAX }
    #[verifier::external_body]
    fn rfrom(t: ri128) -> (r: ri32) { unimplemented!() }
}

impl RInto<ri64> for ri128 {
    open spec fn rinto_spec(self) -> ri64 { ri64 { val: self.val as i64 } }
    open spec fn rinto_req(self) -> bool { i64::MIN <= self.val <= i64::MAX }
    #[verifier::external_body]
    fn rinto(self) -> (r: ri64) { unimplemented!() }
}
impl RFrom<ri128> for ri64 {
    open spec fn rfrom_spec(t: ri128) -> ri64 { ri64 { val: t.val as i64 } }
    open spec fn rfrom_req(t: ri128) -> bool { i64::MIN <= t.val <= i64::MAX }
    #[verifier::external_body]
    fn rfrom(t: ri128) -> (r: ri64) { unimplemented!() }
}


// ------------------------------------------------------------------ aliases (bounds re-introduced here only)
#[verifier::external_body]
#[derive(Debug)]
pub struct Error { _p: () }
#[verifier::external_body]
pub fn verif_err() -> Error { unimplemented!() }
pub type NoUnits = ri64;
pub open spec fn NoUnits_MIN() -> int { -9223372036854775808 }
pub open spec fn NoUnits_MAX() -> int { 9223372036854775807 }
pub open spec fn in_NoUnits(v: int) -> bool { -9223372036854775808 <= v <= 9223372036854775807 }
#[verifier::external_body]
pub fn verif_try_rfrom_NoUnits_8(r: ri8) -> (res: Result<ri64, Error>)
    ensures res.is_ok() <==> in_NoUnits(r.val as int), res.is_ok() ==> res.unwrap().val == r.val
{ unimplemented!() }
#[verifier::external_body]
pub fn verif_try_rfrom_NoUnits_16(r: ri16) -> (res: Result<ri64, Error>)
    ensures res.is_ok() <==> in_NoUnits(r.val as int), res.is_ok() ==> res.unwrap().val == r.val
{ unimplemented!() }
#[verifier::external_body]
pub fn verif_try_rfrom_NoUnits_32(r: ri32) -> (res: Result<ri64, Error>)
    ensures res.is_ok() <==> in_NoUnits(r.val as int), res.is_ok() ==> res.unwrap().val == r.val
{ unimplemented!() }
#[verifier::external_body]
pub fn verif_try_rfrom_NoUnits_64(r: ri64) -> (res: Result<ri64, Error>)
    ensures res.is_ok() <==> in_NoUnits(r.val as int), res.is_ok() ==> res.unwrap().val == r.val
{ unimplemented!() }
#[verifier::external_body]
pub fn verif_try_rfrom_NoUnits_128(r: ri128) -> (res: Result<ri64, Error>)
    ensures res.is_ok() <==> in_NoUnits(r.val as int), res.is_ok() ==> res.unwrap().val == r.val
{ unimplemented!() }
#[verifier::external_body]
pub fn verif_try_new_NoUnits(v: i64) -> (res: Result<ri64, Error>)
    ensures res.is_ok() <==> in_NoUnits(v as int), res.is_ok() ==> res.unwrap().val == v
{ unimplemented!() }
#[verifier::external_body]
pub fn verif_try_new128_NoUnits(v: i128) -> (res: Result<ri64, Error>)
    ensures res.is_ok() <==> in_NoUnits(v as int), res.is_ok() ==> res.unwrap().val == v
{ unimplemented!() }
// `NoUnits::MIN` / `NoUnits::MAX` (associated consts of type i128)
pub fn verif_MIN_NoUnits() -> (r: i128) ensures r == NoUnits_MIN() { -9223372036854775808 }
pub fn verif_MAX_NoUnits() -> (r: i128) ensures r == NoUnits_MAX() { 9223372036854775807 }
// `x.try_checked_mul("what", rhs)` with x: NoUnits -- Ok iff the exact product lies within NoUnits::MIN..=MAX
#[verifier::external_body]
pub fn verif_try_checked_mul_NoUnits<R: RInto<ri64>>(x: ri64, rhs: R) -> (res: Result<ri64, Error>)
    requires rhs.rinto_req(),
    ensures res.is_ok() <==> in_NoUnits(x.val * rhs.rinto_spec().val), res.is_ok() ==> res.unwrap().val == x.val * rhs.rinto_spec().val
{ unimplemented!() }
// `x.try_checked_add/sub("what", rhs)` and `x.checked_add/sub/mul(rhs)` with x: NoUnits -- fail iff the exact result leaves NoUnits::MIN..=MAX
#[verifier::external_body]
pub fn verif_try_checked_add_NoUnits<R: RInto<ri64>>(x: ri64, rhs: R) -> (res: Result<ri64, Error>)
    requires rhs.rinto_req(),
    ensures res.is_ok() <==> in_NoUnits(x.val + rhs.rinto_spec().val), res.is_ok() ==> res.unwrap().val == x.val + rhs.rinto_spec().val
{ unimplemented!() }
#[verifier::external_body]
pub fn verif_try_checked_sub_NoUnits<R: RInto<ri64>>(x: ri64, rhs: R) -> (res: Result<ri64, Error>)
    requires rhs.rinto_req(),
    ensures res.is_ok() <==> in_NoUnits(x.val - rhs.rinto_spec().val), res.is_ok() ==> res.unwrap().val == x.val - rhs.rinto_spec().val
{ unimplemented!() }
#[verifier::external_body]
pub fn verif_checked_add_NoUnits<R: RInto<ri64>>(x: ri64, rhs: R) -> (res: Option<ri64>)
    requires rhs.rinto_req(),
    ensures res.is_some() <==> in_NoUnits(x.val + rhs.rinto_spec().val), res.is_some() ==> res.unwrap().val == x.val + rhs.rinto_spec().val
{ unimplemented!() }
#[verifier::external_body]
pub fn verif_checked_sub_NoUnits<R: RInto<ri64>>(x: ri64, rhs: R) -> (res: Option<ri64>)
    requires rhs.rinto_req(),
    ensures res.is_some() <==> in_NoUnits(x.val - rhs.rinto_spec().val), res.is_some() ==> res.unwrap().val == x.val - rhs.rinto_spec().val
{ unimplemented!() }
#[verifier::external_body]
pub fn verif_checked_mul_NoUnits<R: RInto<ri64>>(x: ri64, rhs: R) -> (res: Option<ri64>)
    requires rhs.rinto_req(),
    ensures res.is_some() <==> in_NoUnits(x.val * rhs.rinto_spec().val), res.is_some() ==> res.unwrap().val == x.val * rhs.rinto_spec().val
{ unimplemented!() }
pub type NoUnits128 = ri128;
pub open spec fn NoUnits128_MIN() -> int { -170141183460469231731687303715884105728 }
pub open spec fn NoUnits128_MAX() -> int { 170141183460469231731687303715884105727 }
pub open spec fn in_NoUnits128(v: int) -> bool { -170141183460469231731687303715884105728 <= v <= 170141183460469231731687303715884105727 }
#[verifier::external_body]
pub fn verif_try_rfrom_NoUnits128_8(r: ri8) -> (res: Result<ri128, Error>)
    ensures res.is_ok() <==> in_NoUnits128(r.val as int), res.is_ok() ==> res.unwrap().val == r.val
{ unimplemented!() }
#[verifier::external_body]
pub fn verif_try_rfrom_NoUnits128_16(r: ri16) -> (res: Result<ri128, Error>)
    ensures res.is_ok() <==> in_NoUnits128(r.val as int), res.is_ok() ==> res.unwrap().val == r.val
{ unimplemented!() }
#[verifier::external_body]
pub fn verif_try_rfrom_NoUnits128_32(r: ri32) -> (res: Result<ri128, Error>)
    ensures res.is_ok() <==> in_NoUnits128(r.val as int), res.is_ok() ==> res.unwrap().val == r.val
{ unimplemented!() }
#[verifier::external_body]
pub fn verif_try_rfrom_NoUnits128_64(r: ri64) -> (res: Result<ri128, Error>)
    ensures res.is_ok() <==> in_NoUnits128(r.val as int), res.is_ok() ==> res.unwrap().val == r.val
{ unimplemented!() }
#[verifier::external_body]
pub fn verif_try_rfrom_NoUnits128_128(r: ri128) -> (res: Result<ri128, Error>)
    ensures res.is_ok() <==> in_NoUnits128(r.val as int), res.is_ok() ==> res.unwrap().val == r.val
{ unimplemented!() }
#[verifier::external_body]
pub fn verif_try_new_NoUnits128(v: i64) -> (res: Result<ri128, Error>)
    ensures res.is_ok() <==> in_NoUnits128(v as int), res.is_ok() ==> res.unwrap().val == v
{ unimplemented!() }
#[verifier::external_body]
pub fn verif_try_new128_NoUnits128(v: i128) -> (res: Result<ri128, Error>)
    ensures res.is_ok() <==> in_NoUnits128(v as int), res.is_ok() ==> res.unwrap().val == v
{ unimplemented!() }
// `NoUnits128::MIN` / `NoUnits128::MAX` (associated consts of type i128)
pub fn verif_MIN_NoUnits128() -> (r: i128) ensures r == NoUnits128_MIN() { -170141183460469231731687303715884105728 }
pub fn verif_MAX_NoUnits128() -> (r: i128) ensures r == NoUnits128_MAX() { 170141183460469231731687303715884105727 }
// `x.try_checked_mul("what", rhs)` with x: NoUnits128 -- Ok iff the exact product lies within NoUnits128::MIN..=MAX
#[verifier::external_body]
pub fn verif_try_checked_mul_NoUnits128<R: RInto<ri128>>(x: ri128, rhs: R) -> (res: Result<ri128, Error>)
    requires rhs.rinto_req(),
    ensures res.is_ok() <==> in_NoUnits128(x.val * rhs.rinto_spec().val), res.is_ok() ==> res.unwrap().val == x.val * rhs.rinto_spec().val
{ unimplemented!() }
// `x.try_checked_add/sub("what", rhs)` and `x.checked_add/sub/mul(rhs)` with x: NoUnits128 -- fail iff the exact result leaves NoUnits128::MIN..=MAX
#[verifier::external_body]
pub fn verif_try_checked_add_NoUnits128<R: RInto<ri128>>(x: ri128, rhs: R) -> (res: Result<ri128, Error>)
    requires rhs.rinto_req(),
    ensures res.is_ok() <==> in_NoUnits128(x.val + rhs.rinto_spec().val), res.is_ok() ==> res.unwrap().val == x.val + rhs.rinto_spec().val
{ unimplemented!() }
#[verifier::external_body]
pub fn verif_try_checked_sub_NoUnits128<R: RInto<ri128>>(x: ri128, rhs: R) -> (res: Result<ri128, Error>)
    requires rhs.rinto_req(),
    ensures res.is_ok() <==> in_NoUnits128(x.val - rhs.rinto_spec().val), res.is_ok() ==> res.unwrap().val == x.val - rhs.rinto_spec().val
{ unimplemented!() }
#[verifier::external_body]
pub fn verif_checked_add_NoUnits128<R: RInto<ri128>>(x: ri128, rhs: R) -> (res: Option<ri128>)
    requires rhs.rinto_req(),
    ensures res.is_some() <==> in_NoUnits128(x.val + rhs.rinto_spec().val), res.is_some() ==> res.unwrap().val == x.val + rhs.rinto_spec().val
{ unimplemented!() }
#[verifier::external_body]
pub fn verif_checked_sub_NoUnits128<R: RInto<ri128>>(x: ri128, rhs: R) -> (res: Option<ri128>)
    requires rhs.rinto_req(),
    ensures res.is_some() <==> in_NoUnits128(x.val - rhs.rinto_spec().val), res.is_some() ==> res.unwrap().val == x.val - rhs.rinto_spec().val
{ unimplemented!() }
#[verifier::external_body]
pub fn verif_checked_mul_NoUnits128<R: RInto<ri128>>(x: ri128, rhs: R) -> (res: Option<ri128>)
    requires rhs.rinto_req(),
    ensures res.is_some() <==> in_NoUnits128(x.val * rhs.rinto_spec().val), res.is_some() ==> res.unwrap().val == x.val * rhs.rinto_spec().val
{ unimplemented!() }
pub type NoUnits96 = ri128;
pub open spec fn NoUnits96_MIN() -> int { -39614081257132168796771975168 }
pub open spec fn NoUnits96_MAX() -> int { 39614081257132168796771975167 }
pub open spec fn in_NoUnits96(v: int) -> bool { -39614081257132168796771975168 <= v <= 39614081257132168796771975167 }
#[verifier::external_body]
pub fn verif_try_rfrom_NoUnits96_8(r: ri8) -> (res: Result<ri128, Error>)
    ensures res.is_ok() <==> in_NoUnits96(r.val as int), res.is_ok() ==> res.unwrap().val == r.val
{ unimplemented!() }
#[verifier::external_body]
pub fn verif_try_rfrom_NoUnits96_16(r: ri16) -> (res: Result<ri128, Error>)
    ensures res.is_ok() <==> in_NoUnits96(r.val as int), res.is_ok() ==> res.unwrap().val == r.val
{ unimplemented!() }
#[verifier::external_body]
pub fn verif_try_rfrom_NoUnits96_32(r: ri32) -> (res: Result<ri128, Error>)
    ensures res.is_ok() <==> in_NoUnits96(r.val as int), res.is_ok() ==> res.unwrap().val == r.val
{ unimplemented!() }
#[verifier::external_body]
pub fn verif_try_rfrom_NoUnits96_64(r: ri64) -> (res: Result<ri128, Error>)
    ensures res.is_ok() <==> in_NoUnits96(r.val as int), res.is_ok() ==> res.unwrap().val == r.val
{ unimplemented!() }
#[verifier::external_body]
pub fn verif_try_rfrom_NoUnits96_128(r: ri128) -> (res: Result<ri128, Error>)
    ensures res.is_ok() <==> in_NoUnits96(r.val as int), res.is_ok() ==> res.unwrap().val == r.val
{ unimplemented!() }
#[verifier::external_body]
pub fn verif_try_new_NoUnits96(v: i64) -> (res: Result<ri128, Error>)
    ensures res.is_ok() <==> in_NoUnits96(v as int), res.is_ok() ==> res.unwrap().val == v
{ unimplemented!() }
#[verifier::external_body]
pub fn verif_try_new128_NoUnits96(v: i128) -> (res: Result<ri128, Error>)
    ensures res.is_ok() <==> in_NoUnits96(v as int), res.is_ok() ==> res.unwrap().val == v
{ unimplemented!() }
// `NoUnits96::MIN` / `NoUnits96::MAX` (associated consts of type i128)
pub fn verif_MIN_NoUnits96() -> (r: i128) ensures r == NoUnits96_MIN() { -39614081257132168796771975168 }
pub fn verif_MAX_NoUnits96() -> (r: i128) ensures r == NoUnits96_MAX() { 39614081257132168796771975167 }
// `x.try_checked_mul("what", rhs)` with x: NoUnits96 -- Ok iff the exact product lies within NoUnits96::MIN..=MAX
#[verifier::external_body]
pub fn verif_try_checked_mul_NoUnits96<R: RInto<ri128>>(x: ri128, rhs: R) -> (res: Result<ri128, Error>)
    requires rhs.rinto_req(),
    ensures res.is_ok() <==> in_NoUnits96(x.val * rhs.rinto_spec().val), res.is_ok() ==> res.unwrap().val == x.val * rhs.rinto_spec().val
{ unimplemented!() }
// `x.try_checked_add/sub("what", rhs)` and `x.checked_add/sub/mul(rhs)` with x: NoUnits96 -- fail iff the exact result leaves NoUnits96::MIN..=MAX
#[verifier::external_body]
pub fn verif_try_checked_add_NoUnits96<R: RInto<ri128>>(x: ri128, rhs: R) -> (res: Result<ri128, Error>)
    requires rhs.rinto_req(),
    ensures res.is_ok() <==> in_NoUnits96(x.val + rhs.rinto_spec().val), res.is_ok() ==> res.unwrap().val == x.val + rhs.rinto_spec().val
{ unimplemented!() }
#[verifier::external_body]
pub fn verif_try_checked_sub_NoUnits96<R: RInto<ri128>>(x: ri128, rhs: R) -> (res: Result<ri128, Error>)
    requires rhs.rinto_req(),
    ensures res.is_ok() <==> in_NoUnits96(x.val - rhs.rinto_spec().val), res.is_ok() ==> res.unwrap().val == x.val - rhs.rinto_spec().val
{ unimplemented!() }
#[verifier::external_body]
pub fn verif_checked_add_NoUnits96<R: RInto<ri128>>(x: ri128, rhs: R) -> (res: Option<ri128>)
    requires rhs.rinto_req(),
    ensures res.is_some() <==> in_NoUnits96(x.val + rhs.rinto_spec().val), res.is_some() ==> res.unwrap().val == x.val + rhs.rinto_spec().val
{ unimplemented!() }
#[verifier::external_body]
pub fn verif_checked_sub_NoUnits96<R: RInto<ri128>>(x: ri128, rhs: R) -> (res: Option<ri128>)
    requires rhs.rinto_req(),
    ensures res.is_some() <==> in_NoUnits96(x.val - rhs.rinto_spec().val), res.is_some() ==> res.unwrap().val == x.val - rhs.rinto_spec().val
{ unimplemented!() }
#[verifier::external_body]
pub fn verif_checked_mul_NoUnits96<R: RInto<ri128>>(x: ri128, rhs: R) -> (res: Option<ri128>)
    requires rhs.rinto_req(),
    ensures res.is_some() <==> in_NoUnits96(x.val * rhs.rinto_spec().val), res.is_some() ==> res.unwrap().val == x.val * rhs.rinto_spec().val
{ unimplemented!() }
pub type NoUnits32 = ri32;
pub open spec fn NoUnits32_MIN() -> int { -2147483648 }
pub open spec fn NoUnits32_MAX() -> int { 2147483647 }
pub open spec fn in_NoUnits32(v: int) -> bool { -2147483648 <= v <= 2147483647 }
#[verifier::external_body]
pub fn verif_try_rfrom_NoUnits32_8(r: ri8) -> (res: Result<ri32, Error>)
    ensures res.is_ok() <==> in_NoUnits32(r.val as int), res.is_ok() ==> res.unwrap().val == r.val
{ unimplemented!() }
#[verifier::external_body]
pub fn verif_try_rfrom_NoUnits32_16(r: ri16) -> (res: Result<ri32, Error>)
    ensures res.is_ok() <==> in_NoUnits32(r.val as int), res.is_ok() ==> res.unwrap().val == r.val
{ unimplemented!() }
#[verifier::external_body]
pub fn verif_try_rfrom_NoUnits32_32(r: ri32) -> (res: Result<ri32, Error>)
    ensures res.is_ok() <==> in_NoUnits32(r.val as int), res.is_ok() ==> res.unwrap().val == r.val
{ unimplemented!() }
#[verifier::external_body]
pub fn verif_try_rfrom_NoUnits32_64(r: ri64) -> (res: Result<ri32, Error>)
    ensures res.is_ok() <==> in_NoUnits32(r.val as int), res.is_ok() ==> res.unwrap().val == r.val
{ unimplemented!() }
#[verifier::external_body]
pub fn verif_try_rfrom_NoUnits32_128(r: ri128) -> (res: Result<ri32, Error>)
    ensures res.is_ok() <==> in_NoUnits32(r.val as int), res.is_ok() ==> res.unwrap().val == r.val
{ unimplemented!() }
#[verifier::external_body]
pub fn verif_try_new_NoUnits32(v: i64) -> (res: Result<ri32, Error>)
    ensures res.is_ok() <==> in_NoUnits32(v as int), res.is_ok() ==> res.unwrap().val == v
{ unimplemented!() }
#[verifier::external_body]
pub fn verif_try_new128_NoUnits32(v: i128) -> (res: Result<ri32, Error>)
    ensures res.is_ok() <==> in_NoUnits32(v as int), res.is_ok() ==> res.unwrap().val == v
{ unimplemented!() }
// `NoUnits32::MIN` / `NoUnits32::MAX` (associated consts of type i128)
pub fn verif_MIN_NoUnits32() -> (r: i128) ensures r == NoUnits32_MIN() { -2147483648 }
pub fn verif_MAX_NoUnits32() -> (r: i128) ensures r == NoUnits32_MAX() { 2147483647 }
// `x.try_checked_mul("what", rhs)` with x: NoUnits32 -- Ok iff the exact product lies within NoUnits32::MIN..=MAX
#[verifier::external_body]
pub fn verif_try_checked_mul_NoUnits32<R: RInto<ri32>>(x: ri32, rhs: R) -> (res: Result<ri32, Error>)
    requires rhs.rinto_req(),
    ensures res.is_ok() <==> in_NoUnits32(x.val * rhs.rinto_spec().val), res.is_ok() ==> res.unwrap().val == x.val * rhs.rinto_spec().val
{ unimplemented!() }
// `x.try_checked_add/sub("what", rhs)` and `x.checked_add/sub/mul(rhs)` with x: NoUnits32 -- fail iff the exact result leaves NoUnits32::MIN..=MAX
#[verifier::external_body]
pub fn verif_try_checked_add_NoUnits32<R: RInto<ri32>>(x: ri32, rhs: R) -> (res: Result<ri32, Error>)
    requires rhs.rinto_req(),
    ensures res.is_ok() <==> in_NoUnits32(x.val + rhs.rinto_spec().val), res.is_ok() ==> res.unwrap().val == x.val + rhs.rinto_spec().val
{ unimplemented!() }
#[verifier::external_body]
pub fn verif_try_checked_sub_NoUnits32<R: RInto<ri32>>(x: ri32, rhs: R) -> (res: Result<ri32, Error>)
    requires rhs.rinto_req(),
    ensures res.is_ok() <==> in_NoUnits32(x.val - rhs.rinto_spec().val), res.is_ok() ==> res.unwrap().val == x.val - rhs.rinto_spec().val
{ unimplemented!() }
#[verifier::external_body]
pub fn verif_checked_add_NoUnits32<R: RInto<ri32>>(x: ri32, rhs: R) -> (res: Option<ri32>)
    requires rhs.rinto_req(),
    ensures res.is_some() <==> in_NoUnits32(x.val + rhs.rinto_spec().val), res.is_some() ==> res.unwrap().val == x.val + rhs.rinto_spec().val
{ unimplemented!() }
#[verifier::external_body]
pub fn verif_checked_sub_NoUnits32<R: RInto<ri32>>(x: ri32, rhs: R) -> (res: Option<ri32>)
    requires rhs.rinto_req(),
    ensures res.is_some() <==> in_NoUnits32(x.val - rhs.rinto_spec().val), res.is_some() ==> res.unwrap().val == x.val - rhs.rinto_spec().val
{ unimplemented!() }
#[verifier::external_body]
pub fn verif_checked_mul_NoUnits32<R: RInto<ri32>>(x: ri32, rhs: R) -> (res: Option<ri32>)
    requires rhs.rinto_req(),
    ensures res.is_some() <==> in_NoUnits32(x.val * rhs.rinto_spec().val), res.is_some() ==> res.unwrap().val == x.val * rhs.rinto_spec().val
{ unimplemented!() }
pub type NoUnits16 = ri16;
pub open spec fn NoUnits16_MIN() -> int { -32768 }
pub open spec fn NoUnits16_MAX() -> int { 32767 }
pub open spec fn in_NoUnits16(v: int) -> bool { -32768 <= v <= 32767 }
#[verifier::external_body]
pub fn verif_try_rfrom_NoUnits16_8(r: ri8) -> (res: Result<ri16, Error>)
    ensures res.is_ok() <==> in_NoUnits16(r.val as int), res.is_ok() ==> res.unwrap().val == r.val
{ unimplemented!() }
#[verifier::external_body]
pub fn verif_try_rfrom_NoUnits16_16(r: ri16) -> (res: Result<ri16, Error>)
    ensures res.is_ok() <==> in_NoUnits16(r.val as int), res.is_ok() ==> res.unwrap().val == r.val
{ unimplemented!() }
#[verifier::external_body]
pub fn verif_try_rfrom_NoUnits16_32(r: ri32) -> (res: Result<ri16, Error>)
    ensures res.is_ok() <==> in_NoUnits16(r.val as int), res.is_ok() ==> res.unwrap().val == r.val
{ unimplemented!() }
#[verifier::external_body]
pub fn verif_try_rfrom_NoUnits16_64(r: ri64) -> (res: Result<ri16, Error>)
    ensures res.is_ok() <==> in_NoUnits16(r.val as int), res.is_ok() ==> res.unwrap().val == r.val
{ unimplemented!() }
#[verifier::external_body]
pub fn verif_try_rfrom_NoUnits16_128(r: ri128) -> (res: Result<ri16, Error>)
    ensures res.is_ok() <==> in_NoUnits16(r.val as int), res.is_ok() ==> res.unwrap().val == r.val
{ unimplemented!() }
#[verifier::external_body]
pub fn verif_try_new_NoUnits16(v: i64) -> (res: Result<ri16, Error>)
    ensures res.is_ok() <==> in_NoUnits16(v as int), res.is_ok() ==> res.unwrap().val == v
{ unimplemented!() }
#[verifier::external_body]
pub fn verif_try_new128_NoUnits16(v: i128) -> (res: Result<ri16, Error>)
    ensures res.is_ok() <==> in_NoUnits16(v as int), res.is_ok() ==> res.unwrap().val == v
{ unimplemented!() }
// `NoUnits16::MIN` / `NoUnits16::MAX` (associated consts of type i128)
pub fn verif_MIN_NoUnits16() -> (r: i128) ensures r == NoUnits16_MIN() { -32768 }
pub fn verif_MAX_NoUnits16() -> (r: i128) ensures r == NoUnits16_MAX() { 32767 }
// `x.try_checked_mul("what", rhs)` with x: NoUnits16 -- Ok iff the exact product lies within NoUnits16::MIN..=MAX
#[verifier::external_body]
pub fn verif_try_checked_mul_NoUnits16<R: RInto<ri16>>(x: ri16, rhs: R) -> (res: Result<ri16, Error>)
    requires rhs.rinto_req(),
    ensures res.is_ok() <==> in_NoUnits16(x.val * rhs.rinto_spec().val), res.is_ok() ==> res.unwrap().val == x.val * rhs.rinto_spec().val
{ unimplemented!() }
// `x.try_checked_add/sub("what", rhs)` and `x.checked_add/sub/mul(rhs)` with x: NoUnits16 -- fail iff the exact result leaves NoUnits16::MIN..=MAX
#[verifier::external_body]
pub fn verif_try_checked_add_NoUnits16<R: RInto<ri16>>(x: ri16, rhs: R) -> (res: Result<ri16, Error>)
    requires rhs.rinto_req(),
    ensures res.is_ok() <==> in_NoUnits16(x.val + rhs.rinto_spec().val), res.is_ok() ==> res.unwrap().val == x.val + rhs.rinto_spec().val
{ unimplemented!() }
#[verifier::external_body]
pub fn verif_try_checked_sub_NoUnits16<R: RInto<ri16>>(x: ri16, rhs: R) -> (res: Result<ri16, Error>)
    requires rhs.rinto_req(),
    ensures res.is_ok() <==> in_NoUnits16(x.val - rhs.rinto_spec().val), res.is_ok() ==> res.unwrap().val == x.val - rhs.rinto_spec().val
{ unimplemented!() }
#[verifier::external_body]
pub fn verif_checked_add_NoUnits16<R: RInto<ri16>>(x: ri16, rhs: R) -> (res: Option<ri16>)
    requires rhs.rinto_req(),
    ensures res.is_some() <==> in_NoUnits16(x.val + rhs.rinto_spec().val), res.is_some() ==> res.unwrap().val == x.val + rhs.rinto_spec().val
{ unimplemented!() }
#[verifier::external_body]
pub fn verif_checked_sub_NoUnits16<R: RInto<ri16>>(x: ri16, rhs: R) -> (res: Option<ri16>)
    requires rhs.rinto_req(),
    ensures res.is_some() <==> in_NoUnits16(x.val - rhs.rinto_spec().val), res.is_some() ==> res.unwrap().val == x.val - rhs.rinto_spec().val
{ unimplemented!() }
#[verifier::external_body]
pub fn verif_checked_mul_NoUnits16<R: RInto<ri16>>(x: ri16, rhs: R) -> (res: Option<ri16>)
    requires rhs.rinto_req(),
    ensures res.is_some() <==> in_NoUnits16(x.val * rhs.rinto_spec().val), res.is_some() ==> res.unwrap().val == x.val * rhs.rinto_spec().val
{ unimplemented!() }
pub type NoUnits8 = ri8;
pub open spec fn NoUnits8_MIN() -> int { -128 }
pub open spec fn NoUnits8_MAX() -> int { 127 }
pub open spec fn in_NoUnits8(v: int) -> bool { -128 <= v <= 127 }
#[verifier::external_body]
pub fn verif_try_rfrom_NoUnits8_8(r: ri8) -> (res: Result<ri8, Error>)
    ensures res.is_ok() <==> in_NoUnits8(r.val as int), res.is_ok() ==> res.unwrap().val == r.val
{ unimplemented!() }
#[verifier::external_body]
pub fn verif_try_rfrom_NoUnits8_16(r: ri16) -> (res: Result<ri8, Error>)
    ensures res.is_ok() <==> in_NoUnits8(r.val as int), res.is_ok() ==> res.unwrap().val == r.val
{ unimplemented!() }
#[verifier::external_body]
pub fn verif_try_rfrom_NoUnits8_32(r: ri32) -> (res: Result<ri8, Error>)
    ensures res.is_ok() <==> in_NoUnits8(r.val as int), res.is_ok() ==> res.unwrap().val == r.val
{ unimplemented!() }
#[verifier::external_body]
pub fn verif_try_rfrom_NoUnits8_64(r: ri64) -> (res: Result<ri8, Error>)
    ensures res.is_ok() <==> in_NoUnits8(r.val as int), res.is_ok() ==> res.unwrap().val == r.val
{ unimplemented!() }
#[verifier::external_body]
pub fn verif_try_rfrom_NoUnits8_128(r: ri128) -> (res: Result<ri8, Error>)
    ensures res.is_ok() <==> in_NoUnits8(r.val as int), res.is_ok() ==> res.unwrap().val == r.val
{ unimplemented!() }
#[verifier::external_body]
pub fn verif_try_new_NoUnits8(v: i64) -> (res: Result<ri8, Error>)
    ensures res.is_ok() <==> in_NoUnits8(v as int), res.is_ok() ==> res.unwrap().val == v
{ unimplemented!() }
#[verifier::external_body]
pub fn verif_try_new128_NoUnits8(v: i128) -> (res: Result<ri8, Error>)
    ensures res.is_ok() <==> in_NoUnits8(v as int), res.is_ok() ==> res.unwrap().val == v
{ unimplemented!() }
// `NoUnits8::MIN` / `NoUnits8::MAX` (associated consts of type i128)
pub fn verif_MIN_NoUnits8() -> (r: i128) ensures r == NoUnits8_MIN() { -128 }
pub fn verif_MAX_NoUnits8() -> (r: i128) ensures r == NoUnits8_MAX() { 127 }
// `x.try_checked_mul("what", rhs)` with x: NoUnits8 -- Ok iff the exact product lies within NoUnits8::MIN..=MAX
#[verifier::external_body]
pub fn verif_try_checked_mul_NoUnits8<R: RInto<ri8>>(x: ri8, rhs: R) -> (res: Result<ri8, Error>)
    requires rhs.rinto_req(),
    ensures res.is_ok() <==> in_NoUnits8(x.val * rhs.rinto_spec().val), res.is_ok() ==> res.unwrap().val == x.val * rhs.rinto_spec().val
{ unimplemented!() }
// `x.try_checked_add/sub("what", rhs)` and `x.checked_add/sub/mul(rhs)` with x: NoUnits8 -- fail iff the exact result leaves NoUnits8::MIN..=MAX
#[verifier::external_body]
pub fn verif_try_checked_add_NoUnits8<R: RInto<ri8>>(x: ri8, rhs: R) -> (res: Result<ri8, Error>)
    requires rhs.rinto_req(),
    ensures res.is_ok() <==> in_NoUnits8(x.val + rhs.rinto_spec().val), res.is_ok() ==> res.unwrap().val == x.val + rhs.rinto_spec().val
{ unimplemented!() }
#[verifier::external_body]
pub fn verif_try_checked_sub_NoUnits8<R: RInto<ri8>>(x: ri8, rhs: R) -> (res: Result<ri8, Error>)
    requires rhs.rinto_req(),
    ensures res.is_ok() <==> in_NoUnits8(x.val - rhs.rinto_spec().val), res.is_ok() ==> res.unwrap().val == x.val - rhs.rinto_spec().val
{ unimplemented!() }
#[verifier::external_body]
pub fn verif_checked_add_NoUnits8<R: RInto<ri8>>(x: ri8, rhs: R) -> (res: Option<ri8>)
    requires rhs.rinto_req(),
    ensures res.is_some() <==> in_NoUnits8(x.val + rhs.rinto_spec().val), res.is_some() ==> res.unwrap().val == x.val + rhs.rinto_spec().val
{ unimplemented!() }
#[verifier::external_body]
pub fn verif_checked_sub_NoUnits8<R: RInto<ri8>>(x: ri8, rhs: R) -> (res: Option<ri8>)
    requires rhs.rinto_req(),
    ensures res.is_some() <==> in_NoUnits8(x.val - rhs.rinto_spec().val), res.is_some() ==> res.unwrap().val == x.val - rhs.rinto_spec().val
{ unimplemented!() }
#[verifier::external_body]
pub fn verif_checked_mul_NoUnits8<R: RInto<ri8>>(x: ri8, rhs: R) -> (res: Option<ri8>)
    requires rhs.rinto_req(),
    ensures res.is_some() <==> in_NoUnits8(x.val * rhs.rinto_spec().val), res.is_some() ==> res.unwrap().val == x.val * rhs.rinto_spec().val
{ unimplemented!() }
pub type Sign = ri8;
pub open spec fn Sign_MIN() -> int { -1 }
pub open spec fn Sign_MAX() -> int { 1 }
pub open spec fn in_Sign(v: int) -> bool { -1 <= v <= 1 }
#[verifier::external_body]
pub fn verif_try_rfrom_Sign_8(r: ri8) -> (res: Result<ri8, Error>)
    ensures res.is_ok() <==> in_Sign(r.val as int), res.is_ok() ==> res.unwrap().val == r.val
{ unimplemented!() }
#[verifier::external_body]
pub fn verif_try_rfrom_Sign_16(r: ri16) -> (res: Result<ri8, Error>)
    ensures res.is_ok() <==> in_Sign(r.val as int), res.is_ok() ==> res.unwrap().val == r.val
{ unimplemented!() }
#[verifier::external_body]
pub fn verif_try_rfrom_Sign_32(r: ri32) -> (res: Result<ri8, Error>)
    ensures res.is_ok() <==> in_Sign(r.val as int), res.is_ok() ==> res.unwrap().val == r.val
{ unimplemented!() }
#[verifier::external_body]
pub fn verif_try_rfrom_Sign_64(r: ri64) -> (res: Result<ri8, Error>)
    ensures res.is_ok() <==> in_Sign(r.val as int), res.is_ok() ==> res.unwrap().val == r.val
{ unimplemented!() }
#[verifier::external_body]
pub fn verif_try_rfrom_Sign_128(r: ri128) -> (res: Result<ri8, Error>)
    ensures res.is_ok() <==> in_Sign(r.val as int), res.is_ok() ==> res.unwrap().val == r.val
{ unimplemented!() }
#[verifier::external_body]
pub fn verif_try_new_Sign(v: i64) -> (res: Result<ri8, Error>)
    ensures res.is_ok() <==> in_Sign(v as int), res.is_ok() ==> res.unwrap().val == v
{ unimplemented!() }
#[verifier::external_body]
pub fn verif_try_new128_Sign(v: i128) -> (res: Result<ri8, Error>)
    ensures res.is_ok() <==> in_Sign(v as int), res.is_ok() ==> res.unwrap().val == v
{ unimplemented!() }
// `Sign::MIN` / `Sign::MAX` (associated consts of type i128)
pub fn verif_MIN_Sign() -> (r: i128) ensures r == Sign_MIN() { -1 }
pub fn verif_MAX_Sign() -> (r: i128) ensures r == Sign_MAX() { 1 }
// `x.try_checked_mul("what", rhs)` with x: Sign -- Ok iff the exact product lies within Sign::MIN..=MAX
#[verifier::external_body]
pub fn verif_try_checked_mul_Sign<R: RInto<ri8>>(x: ri8, rhs: R) -> (res: Result<ri8, Error>)
    requires rhs.rinto_req(),
    ensures res.is_ok() <==> in_Sign(x.val * rhs.rinto_spec().val), res.is_ok() ==> res.unwrap().val == x.val * rhs.rinto_spec().val
{ unimplemented!() }
// `x.try_checked_add/sub("what", rhs)` and `x.checked_add/sub/mul(rhs)` with x: Sign -- fail iff the exact result leaves Sign::MIN..=MAX
#[verifier::external_body]
pub fn verif_try_checked_add_Sign<R: RInto<ri8>>(x: ri8, rhs: R) -> (res: Result<ri8, Error>)
    requires rhs.rinto_req(),
    ensures res.is_ok() <==> in_Sign(x.val + rhs.rinto_spec().val), res.is_ok() ==> res.unwrap().val == x.val + rhs.rinto_spec().val
{ unimplemented!() }
#[verifier::external_body]
pub fn verif_try_checked_sub_Sign<R: RInto<ri8>>(x: ri8, rhs: R) -> (res: Result<ri8, Error>)
    requires rhs.rinto_req(),
    ensures res.is_ok() <==> in_Sign(x.val - rhs.rinto_spec().val), res.is_ok() ==> res.unwrap().val == x.val - rhs.rinto_spec().val
{ unimplemented!() }
#[verifier::external_body]
pub fn verif_checked_add_Sign<R: RInto<ri8>>(x: ri8, rhs: R) -> (res: Option<ri8>)
    requires rhs.rinto_req(),
    ensures res.is_some() <==> in_Sign(x.val + rhs.rinto_spec().val), res.is_some() ==> res.unwrap().val == x.val + rhs.rinto_spec().val
{ unimplemented!() }
#[verifier::external_body]
pub fn verif_checked_sub_Sign<R: RInto<ri8>>(x: ri8, rhs: R) -> (res: Option<ri8>)
    requires rhs.rinto_req(),
    ensures res.is_some() <==> in_Sign(x.val - rhs.rinto_spec().val), res.is_some() ==> res.unwrap().val == x.val - rhs.rinto_spec().val
{ unimplemented!() }
#[verifier::external_body]
pub fn verif_checked_mul_Sign<R: RInto<ri8>>(x: ri8, rhs: R) -> (res: Option<ri8>)
    requires rhs.rinto_req(),
    ensures res.is_some() <==> in_Sign(x.val * rhs.rinto_spec().val), res.is_some() ==> res.unwrap().val == x.val * rhs.rinto_spec().val
{ unimplemented!() }
pub type Year = ri16;
pub open spec fn Year_MIN() -> int { -9999 }
pub open spec fn Year_MAX() -> int { 9999 }
pub open spec fn in_Year(v: int) -> bool { -9999 <= v <= 9999 }
#[verifier::external_body]
pub fn verif_try_rfrom_Year_8(r: ri8) -> (res: Result<ri16, Error>)
    ensures res.is_ok() <==> in_Year(r.val as int), res.is_ok() ==> res.unwrap().val == r.val
{ unimplemented!() }
#[verifier::external_body]
pub fn verif_try_rfrom_Year_16(r: ri16) -> (res: Result<ri16, Error>)
    ensures res.is_ok() <==> in_Year(r.val as int), res.is_ok() ==> res.unwrap().val == r.val
{ unimplemented!() }
#[verifier::external_body]
pub fn verif_try_rfrom_Year_32(r: ri32) -> (res: Result<ri16, Error>)
    ensures res.is_ok() <==> in_Year(r.val as int), res.is_ok() ==> res.unwrap().val == r.val
{ unimplemented!() }
#[verifier::external_body]
pub fn verif_try_rfrom_Year_64(r: ri64) -> (res: Result<ri16, Error>)
    ensures res.is_ok() <==> in_Year(r.val as int), res.is_ok() ==> res.unwrap().val == r.val
{ unimplemented!() }
#[verifier::external_body]
pub fn verif_try_rfrom_Year_128(r: ri128) -> (res: Result<ri16, Error>)
    ensures res.is_ok() <==> in_Year(r.val as int), res.is_ok() ==> res.unwrap().val == r.val
{ unimplemented!() }
#[verifier::external_body]
pub fn verif_try_new_Year(v: i64) -> (res: Result<ri16, Error>)
    ensures res.is_ok() <==> in_Year(v as int), res.is_ok() ==> res.unwrap().val == v
{ unimplemented!() }
#[verifier::external_body]
pub fn verif_try_new128_Year(v: i128) -> (res: Result<ri16, Error>)
    ensures res.is_ok() <==> in_Year(v as int), res.is_ok() ==> res.unwrap().val == v
{ unimplemented!() }
// `Year::MIN` / `Year::MAX` (associated consts of type i128)
pub fn verif_MIN_Year() -> (r: i128) ensures r == Year_MIN() { -9999 }
pub fn verif_MAX_Year() -> (r: i128) ensures r == Year_MAX() { 9999 }
// `x.try_checked_mul("what", rhs)` with x: Year -- Ok iff the exact product lies within Year::MIN..=MAX
#[verifier::external_body]
pub fn verif_try_checked_mul_Year<R: RInto<ri16>>(x: ri16, rhs: R) -> (res: Result<ri16, Error>)
    requires rhs.rinto_req(),
    ensures res.is_ok() <==> in_Year(x.val * rhs.rinto_spec().val), res.is_ok() ==> res.unwrap().val == x.val * rhs.rinto_spec().val
{ unimplemented!() }
// `x.try_checked_add/sub("what", rhs)` and `x.checked_add/sub/mul(rhs)` with x: Year -- fail iff the exact result leaves Year::MIN..=MAX
#[verifier::external_body]
pub fn verif_try_checked_add_Year<R: RInto<ri16>>(x: ri16, rhs: R) -> (res: Result<ri16, Error>)
    requires rhs.rinto_req(),
    ensures res.is_ok() <==> in_Year(x.val + rhs.rinto_spec().val), res.is_ok() ==> res.unwrap().val == x.val + rhs.rinto_spec().val
{ unimplemented!() }
#[verifier::external_body]
pub fn verif_try_checked_sub_Year<R: RInto<ri16>>(x: ri16, rhs: R) -> (res: Result<ri16, Error>)
    requires rhs.rinto_req(),
    ensures res.is_ok() <==> in_Year(x.val - rhs.rinto_spec().val), res.is_ok() ==> res.unwrap().val == x.val - rhs.rinto_spec().val
{ unimplemented!() }
#[verifier::external_body]
pub fn verif_checked_add_Year<R: RInto<ri16>>(x: ri16, rhs: R) -> (res: Option<ri16>)
    requires rhs.rinto_req(),
    ensures res.is_some() <==> in_Year(x.val + rhs.rinto_spec().val), res.is_some() ==> res.unwrap().val == x.val + rhs.rinto_spec().val
{ unimplemented!() }
#[verifier::external_body]
pub fn verif_checked_sub_Year<R: RInto<ri16>>(x: ri16, rhs: R) -> (res: Option<ri16>)
    requires rhs.rinto_req(),
    ensures res.is_some() <==> in_Year(x.val - rhs.rinto_spec().val), res.is_some() ==> res.unwrap().val == x.val - rhs.rinto_spec().val
{ unimplemented!() }
#[verifier::external_body]
pub fn verif_checked_mul_Year<R: RInto<ri16>>(x: ri16, rhs: R) -> (res: Option<ri16>)
    requires rhs.rinto_req(),
    ensures res.is_some() <==> in_Year(x.val * rhs.rinto_spec().val), res.is_some() ==> res.unwrap().val == x.val * rhs.rinto_spec().val
{ unimplemented!() }
pub type Month = ri8;
pub open spec fn Month_MIN() -> int { 1 }
pub open spec fn Month_MAX() -> int { 12 }
pub open spec fn in_Month(v: int) -> bool { 1 <= v <= 12 }
#[verifier::external_body]
pub fn verif_try_rfrom_Month_8(r: ri8) -> (res: Result<ri8, Error>)
    ensures res.is_ok() <==> in_Month(r.val as int), res.is_ok() ==> res.unwrap().val == r.val
{ unimplemented!() }
#[verifier::external_body]
pub fn verif_try_rfrom_Month_16(r: ri16) -> (res: Result<ri8, Error>)
    ensures res.is_ok() <==> in_Month(r.val as int), res.is_ok() ==> res.unwrap().val == r.val
{ unimplemented!() }
#[verifier::external_body]
pub fn verif_try_rfrom_Month_32(r: ri32) -> (res: Result<ri8, Error>)
    ensures res.is_ok() <==> in_Month(r.val as int), res.is_ok() ==> res.unwrap().val == r.val
{ unimplemented!() }
#[verifier::external_body]
pub fn verif_try_rfrom_Month_64(r: ri64) -> (res: Result<ri8, Error>)
    ensures res.is_ok() <==> in_Month(r.val as int), res.is_ok() ==> res.unwrap().val == r.val
{ unimplemented!() }
#[verifier::external_body]
pub fn verif_try_rfrom_Month_128(r: ri128) -> (res: Result<ri8, Error>)
    ensures res.is_ok() <==> in_Month(r.val as int), res.is_ok() ==> res.unwrap().val == r.val
{ unimplemented!() }
#[verifier::external_body]
pub fn verif_try_new_Month(v: i64) -> (res: Result<ri8, Error>)
    ensures res.is_ok() <==> in_Month(v as int), res.is_ok() ==> res.unwrap().val == v
{ unimplemented!() }
#[verifier::external_body]
pub fn verif_try_new128_Month(v: i128) -> (res: Result<ri8, Error>)
    ensures res.is_ok() <==> in_Month(v as int), res.is_ok() ==> res.unwrap().val == v
{ unimplemented!() }
// `Month::MIN` / `Month::MAX` (associated consts of type i128)
pub fn verif_MIN_Month() -> (r: i128) ensures r == Month_MIN() { 1 }
pub fn verif_MAX_Month() -> (r: i128) ensures r == Month_MAX() { 12 }
// `x.try_checked_mul("what", rhs)` with x: Month -- Ok iff the exact product lies within Month::MIN..=MAX
#[verifier::external_body]
pub fn verif_try_checked_mul_Month<R: RInto<ri8>>(x: ri8, rhs: R) -> (res: Result<ri8, Error>)
    requires rhs.rinto_req(),
    ensures res.is_ok() <==> in_Month(x.val * rhs.rinto_spec().val), res.is_ok() ==> res.unwrap().val == x.val * rhs.rinto_spec().val
{ unimplemented!() }
// `x.try_checked_add/sub("what", rhs)` and `x.checked_add/sub/mul(rhs)` with x: Month -- fail iff the exact result leaves Month::MIN..=MAX
#[verifier::external_body]
pub fn verif_try_checked_add_Month<R: RInto<ri8>>(x: ri8, rhs: R) -> (res: Result<ri8, Error>)
    requires rhs.rinto_req(),
    ensures res.is_ok() <==> in_Month(x.val + rhs.rinto_spec().val), res.is_ok() ==> res.unwrap().val == x.val + rhs.rinto_spec().val
{ unimplemented!() }
#[verifier::external_body]
pub fn verif_try_checked_sub_Month<R: RInto<ri8>>(x: ri8, rhs: R) -> (res: Result<ri8, Error>)
    requires rhs.rinto_req(),
    ensures res.is_ok() <==> in_Month(x.val - rhs.rinto_spec().val), res.is_ok() ==> res.unwrap().val == x.val - rhs.rinto_spec().val
{ unimplemented!() }
#[verifier::external_body]
pub fn verif_checked_add_Month<R: RInto<ri8>>(x: ri8, rhs: R) -> (res: Option<ri8>)
    requires rhs.rinto_req(),
    ensures res.is_some() <==> in_Month(x.val + rhs.rinto_spec().val), res.is_some() ==> res.unwrap().val == x.val + rhs.rinto_spec().val
{ unimplemented!() }
#[verifier::external_body]
pub fn verif_checked_sub_Month<R: RInto<ri8>>(x: ri8, rhs: R) -> (res: Option<ri8>)
    requires rhs.rinto_req(),
    ensures res.is_some() <==> in_Month(x.val - rhs.rinto_spec().val), res.is_some() ==> res.unwrap().val == x.val - rhs.rinto_spec().val
{ unimplemented!() }
#[verifier::external_body]
pub fn verif_checked_mul_Month<R: RInto<ri8>>(x: ri8, rhs: R) -> (res: Option<ri8>)
    requires rhs.rinto_req(),
    ensures res.is_some() <==> in_Month(x.val * rhs.rinto_spec().val), res.is_some() ==> res.unwrap().val == x.val * rhs.rinto_spec().val
{ unimplemented!() }
pub type Day = ri8;
pub open spec fn Day_MIN() -> int { 1 }
pub open spec fn Day_MAX() -> int { 31 }
pub open spec fn in_Day(v: int) -> bool { 1 <= v <= 31 }
#[verifier::external_body]
pub fn verif_try_rfrom_Day_8(r: ri8) -> (res: Result<ri8, Error>)
    ensures res.is_ok() <==> in_Day(r.val as int), res.is_ok() ==> res.unwrap().val == r.val
{ unimplemented!() }
#[verifier::external_body]
pub fn verif_try_rfrom_Day_16(r: ri16) -> (res: Result<ri8, Error>)
    ensures res.is_ok() <==> in_Day(r.val as int), res.is_ok() ==> res.unwrap().val == r.val
{ unimplemented!() }
#[verifier::external_body]
pub fn verif_try_rfrom_Day_32(r: ri32) -> (res: Result<ri8, Error>)
    ensures res.is_ok() <==> in_Day(r.val as int), res.is_ok() ==> res.unwrap().val == r.val
{ unimplemented!() }
#[verifier::external_body]
pub fn verif_try_rfrom_Day_64(r: ri64) -> (res: Result<ri8, Error>)
    ensures res.is_ok() <==> in_Day(r.val as int), res.is_ok() ==> res.unwrap().val == r.val
{ unimplemented!() }
#[verifier::external_body]
pub fn verif_try_rfrom_Day_128(r: ri128) -> (res: Result<ri8, Error>)
    ensures res.is_ok() <==> in_Day(r.val as int), res.is_ok() ==> res.unwrap().val == r.val
{ unimplemented!() }
#[verifier::external_body]
pub fn verif_try_new_Day(v: i64) -> (res: Result<ri8, Error>)
    ensures res.is_ok() <==> in_Day(v as int), res.is_ok() ==> res.unwrap().val == v
{ unimplemented!() }
#[verifier::external_body]
pub fn verif_try_new128_Day(v: i128) -> (res: Result<ri8, Error>)
    ensures res.is_ok() <==> in_Day(v as int), res.is_ok() ==> res.unwrap().val == v
{ unimplemented!() }
// `Day::MIN` / `Day::MAX` (associated consts of type i128)
pub fn verif_MIN_Day() -> (r: i128) ensures r == Day_MIN() { 1 }
pub fn verif_MAX_Day() -> (r: i128) ensures r == Day_MAX() { 31 }
// `x.try_checked_mul("what", rhs)` with x: Day -- Ok iff the exact product lies within Day::MIN..=MAX
#[verifier::external_body]
pub fn verif_try_checked_mul_Day<R: RInto<ri8>>(x: ri8, rhs: R) -> (res: Result<ri8, Error>)
    requires rhs.rinto_req(),
    ensures res.is_ok() <==> in_Day(x.val * rhs.rinto_spec().val), res.is_ok() ==> res.unwrap().val == x.val * rhs.rinto_spec().val
{ unimplemented!() }
// `x.try_checked_add/sub("what", rhs)` and `x.checked_add/sub/mul(rhs)` with x: Day -- fail iff the exact result leaves Day::MIN..=MAX
#[verifier::external_body]
pub fn verif_try_checked_add_Day<R: RInto<ri8>>(x: ri8, rhs: R) -> (res: Result<ri8, Error>)
    requires rhs.rinto_req(),
    ensures res.is_ok() <==> in_Day(x.val + rhs.rinto_spec().val), res.is_ok() ==> res.unwrap().val == x.val + rhs.rinto_spec().val
{ unimplemented!() }
#[verifier::external_body]
pub fn verif_try_checked_sub_Day<R: RInto<ri8>>(x: ri8, rhs: R) -> (res: Result<ri8, Error>)
    requires rhs.rinto_req(),
    ensures res.is_ok() <==> in_Day(x.val - rhs.rinto_spec().val), res.is_ok() ==> res.unwrap().val == x.val - rhs.rinto_spec().val
{ unimplemented!() }
#[verifier::external_body]
pub fn verif_checked_add_Day<R: RInto<ri8>>(x: ri8, rhs: R) -> (res: Option<ri8>)
    requires rhs.rinto_req(),
    ensures res.is_some() <==> in_Day(x.val + rhs.rinto_spec().val), res.is_some() ==> res.unwrap().val == x.val + rhs.rinto_spec().val
{ unimplemented!() }
#[verifier::external_body]
pub fn verif_checked_sub_Day<R: RInto<ri8>>(x: ri8, rhs: R) -> (res: Option<ri8>)
    requires rhs.rinto_req(),
    ensures res.is_some() <==> in_Day(x.val - rhs.rinto_spec().val), res.is_some() ==> res.unwrap().val == x.val - rhs.rinto_spec().val
{ unimplemented!() }
#[verifier::external_body]
pub fn verif_checked_mul_Day<R: RInto<ri8>>(x: ri8, rhs: R) -> (res: Option<ri8>)
    requires rhs.rinto_req(),
    ensures res.is_some() <==> in_Day(x.val * rhs.rinto_spec().val), res.is_some() ==> res.unwrap().val == x.val * rhs.rinto_spec().val
{ unimplemented!() }
pub type Hour = ri8;
pub open spec fn Hour_MIN() -> int { 0 }
pub open spec fn Hour_MAX() -> int { 23 }
pub open spec fn in_Hour(v: int) -> bool { 0 <= v <= 23 }
#[verifier::external_body]
pub fn verif_try_rfrom_Hour_8(r: ri8) -> (res: Result<ri8, Error>)
    ensures res.is_ok() <==> in_Hour(r.val as int), res.is_ok() ==> res.unwrap().val == r.val
{ unimplemented!() }
#[verifier::external_body]
pub fn verif_try_rfrom_Hour_16(r: ri16) -> (res: Result<ri8, Error>)
    ensures res.is_ok() <==> in_Hour(r.val as int), res.is_ok() ==> res.unwrap().val == r.val
{ unimplemented!() }
#[verifier::external_body]
pub fn verif_try_rfrom_Hour_32(r: ri32) -> (res: Result<ri8, Error>)
    ensures res.is_ok() <==> in_Hour(r.val as int), res.is_ok() ==> res.unwrap().val == r.val
{ unimplemented!() }
#[verifier::external_body]
pub fn verif_try_rfrom_Hour_64(r: ri64) -> (res: Result<ri8, Error>)
    ensures res.is_ok() <==> in_Hour(r.val as int), res.is_ok() ==> res.unwrap().val == r.val
{ unimplemented!() }
#[verifier::external_body]
pub fn verif_try_rfrom_Hour_128(r: ri128) -> (res: Result<ri8, Error>)
    ensures res.is_ok() <==> in_Hour(r.val as int), res.is_ok() ==> res.unwrap().val == r.val
{ unimplemented!() }
#[verifier::external_body]
pub fn verif_try_new_Hour(v: i64) -> (res: Result<ri8, Error>)
    ensures res.is_ok() <==> in_Hour(v as int), res.is_ok() ==> res.unwrap().val == v
{ unimplemented!() }
#[verifier::external_body]
pub fn verif_try_new128_Hour(v: i128) -> (res: Result<ri8, Error>)
    ensures res.is_ok() <==> in_Hour(v as int), res.is_ok() ==> res.unwrap().val == v
{ unimplemented!() }
// `Hour::MIN` / `Hour::MAX` (associated consts of type i128)
pub fn verif_MIN_Hour() -> (r: i128) ensures r == Hour_MIN() { 0 }
pub fn verif_MAX_Hour() -> (r: i128) ensures r == Hour_MAX() { 23 }
// `x.try_checked_mul("what", rhs)` with x: Hour -- Ok iff the exact product lies within Hour::MIN..=MAX
#[verifier::external_body]
pub fn verif_try_checked_mul_Hour<R: RInto<ri8>>(x: ri8, rhs: R) -> (res: Result<ri8, Error>)
    requires rhs.rinto_req(),
    ensures res.is_ok() <==> in_Hour(x.val * rhs.rinto_spec().val), res.is_ok() ==> res.unwrap().val == x.val * rhs.rinto_spec().val
{ unimplemented!() }
// `x.try_checked_add/sub("what", rhs)` and `x.checked_add/sub/mul(rhs)` with x: Hour -- fail iff the exact result leaves Hour::MIN..=MAX
#[verifier::external_body]
pub fn verif_try_checked_add_Hour<R: RInto<ri8>>(x: ri8, rhs: R) -> (res: Result<ri8, Error>)
    requires rhs.rinto_req(),
    ensures res.is_ok() <==> in_Hour(x.val + rhs.rinto_spec().val), res.is_ok() ==> res.unwrap().val == x.val + rhs.rinto_spec().val
{ unimplemented!() }
#[verifier::external_body]
pub fn verif_try_checked_sub_Hour<R: RInto<ri8>>(x: ri8, rhs: R) -> (res: Result<ri8, Error>)
    requires rhs.rinto_req(),
    ensures res.is_ok() <==> in_Hour(x.val - rhs.rinto_spec().val), res.is_ok() ==> res.unwrap().val == x.val - rhs.rinto_spec().val
{ unimplemented!() }
#[verifier::external_body]
pub fn verif_checked_add_Hour<R: RInto<ri8>>(x: ri8, rhs: R) -> (res: Option<ri8>)
    requires rhs.rinto_req(),
    ensures res.is_some() <==> in_Hour(x.val + rhs.rinto_spec().val), res.is_some() ==> res.unwrap().val == x.val + rhs.rinto_spec().val
{ unimplemented!() }
#[verifier::external_body]
pub fn verif_checked_sub_Hour<R: RInto<ri8>>(x: ri8, rhs: R) -> (res: Option<ri8>)
    requires rhs.rinto_req(),
    ensures res.is_some() <==> in_Hour(x.val - rhs.rinto_spec().val), res.is_some() ==> res.unwrap().val == x.val - rhs.rinto_spec().val
{ unimplemented!() }
#[verifier::external_body]
pub fn verif_checked_mul_Hour<R: RInto<ri8>>(x: ri8, rhs: R) -> (res: Option<ri8>)
    requires rhs.rinto_req(),
    ensures res.is_some() <==> in_Hour(x.val * rhs.rinto_spec().val), res.is_some() ==> res.unwrap().val == x.val * rhs.rinto_spec().val
{ unimplemented!() }
pub type Minute = ri8;
pub open spec fn Minute_MIN() -> int { 0 }
pub open spec fn Minute_MAX() -> int { 59 }
pub open spec fn in_Minute(v: int) -> bool { 0 <= v <= 59 }
#[verifier::external_body]
pub fn verif_try_rfrom_Minute_8(r: ri8) -> (res: Result<ri8, Error>)
    ensures res.is_ok() <==> in_Minute(r.val as int), res.is_ok() ==> res.unwrap().val == r.val
{ unimplemented!() }
#[verifier::external_body]
pub fn verif_try_rfrom_Minute_16(r: ri16) -> (res: Result<ri8, Error>)
    ensures res.is_ok() <==> in_Minute(r.val as int), res.is_ok() ==> res.unwrap().val == r.val
{ unimplemented!() }
#[verifier::external_body]
pub fn verif_try_rfrom_Minute_32(r: ri32) -> (res: Result<ri8, Error>)
    ensures res.is_ok() <==> in_Minute(r.val as int), res.is_ok() ==> res.unwrap().val == r.val
{ unimplemented!() }
#[verifier::external_body]
pub fn verif_try_rfrom_Minute_64(r: ri64) -> (res: Result<ri8, Error>)
    ensures res.is_ok() <==> in_Minute(r.val as int), res.is_ok() ==> res.unwrap().val == r.val
{ unimplemented!() }
#[verifier::external_body]
pub fn verif_try_rfrom_Minute_128(r: ri128) -> (res: Result<ri8, Error>)
    ensures res.is_ok() <==> in_Minute(r.val as int), res.is_ok() ==> res.unwrap().val == r.val
{ unimplemented!() }
#[verifier::external_body]
pub fn verif_try_new_Minute(v: i64) -> (res: Result<ri8, Error>)
    ensures res.is_ok() <==> in_Minute(v as int), res.is_ok() ==> res.unwrap().val == v
{ unimplemented!() }
#[verifier::external_body]
pub fn verif_try_new128_Minute(v: i128) -> (res: Result<ri8, Error>)
    ensures res.is_ok() <==> in_Minute(v as int), res.is_ok() ==> res.unwrap().val == v
{ unimplemented!() }
// `Minute::MIN` / `Minute::MAX` (associated consts of type i128)
pub fn verif_MIN_Minute() -> (r: i128) ensures r == Minute_MIN() { 0 }
pub fn verif_MAX_Minute() -> (r: i128) ensures r == Minute_MAX() { 59 }
// `x.try_checked_mul("what", rhs)` with x: Minute -- Ok iff the exact product lies within Minute::MIN..=MAX
#[verifier::external_body]
pub fn verif_try_checked_mul_Minute<R: RInto<ri8>>(x: ri8, rhs: R) -> (res: Result<ri8, Error>)
    requires rhs.rinto_req(),
    ensures res.is_ok() <==> in_Minute(x.val * rhs.rinto_spec().val), res.is_ok() ==> res.unwrap().val == x.val * rhs.rinto_spec().val
{ unimplemented!() }
// `x.try_checked_add/sub("what", rhs)` and `x.checked_add/sub/mul(rhs)` with x: Minute -- fail iff the exact result leaves Minute::MIN..=MAX
#[verifier::external_body]
pub fn verif_try_checked_add_Minute<R: RInto<ri8>>(x: ri8, rhs: R) -> (res: Result<ri8, Error>)
    requires rhs.rinto_req(),
    ensures res.is_ok() <==> in_Minute(x.val + rhs.rinto_spec().val), res.is_ok() ==> res.unwrap().val == x.val + rhs.rinto_spec().val
{ unimplemented!() }
#[verifier::external_body]
pub fn verif_try_checked_sub_Minute<R: RInto<ri8>>(x: ri8, rhs: R) -> (res: Result<ri8, Error>)
    requires rhs.rinto_req(),
    ensures res.is_ok() <==> in_Minute(x.val - rhs.rinto_spec().val), res.is_ok() ==> res.unwrap().val == x.val - rhs.rinto_spec().val
{ unimplemented!() }
#[verifier::external_body]
pub fn verif_checked_add_Minute<R: RInto<ri8>>(x: ri8, rhs: R) -> (res: Option<ri8>)
    requires rhs.rinto_req(),
    ensures res.is_some() <==> in_Minute(x.val + rhs.rinto_spec().val), res.is_some() ==> res.unwrap().val == x.val + rhs.rinto_spec().val
{ unimplemented!() }
#[verifier::external_body]
pub fn verif_checked_sub_Minute<R: RInto<ri8>>(x: ri8, rhs: R) -> (res: Option<ri8>)
    requires rhs.rinto_req(),
    ensures res.is_some() <==> in_Minute(x.val - rhs.rinto_spec().val), res.is_some() ==> res.unwrap().val == x.val - rhs.rinto_spec().val
{ unimplemented!() }
#[verifier::external_body]
pub fn verif_checked_mul_Minute<R: RInto<ri8>>(x: ri8, rhs: R) -> (res: Option<ri8>)
    requires rhs.rinto_req(),
    ensures res.is_some() <==> in_Minute(x.val * rhs.rinto_spec().val), res.is_some() ==> res.unwrap().val == x.val * rhs.rinto_spec().val
{ unimplemented!() }
pub type Second = ri8;
pub open spec fn Second_MIN() -> int { 0 }
pub open spec fn Second_MAX() -> int { 59 }
pub open spec fn in_Second(v: int) -> bool { 0 <= v <= 59 }
#[verifier::external_body]
pub fn verif_try_rfrom_Second_8(r: ri8) -> (res: Result<ri8, Error>)
    ensures res.is_ok() <==> in_Second(r.val as int), res.is_ok() ==> res.unwrap().val == r.val
{ unimplemented!() }
#[verifier::external_body]
pub fn verif_try_rfrom_Second_16(r: ri16) -> (res: Result<ri8, Error>)
    ensures res.is_ok() <==> in_Second(r.val as int), res.is_ok() ==> res.unwrap().val == r.val
{ unimplemented!() }
#[verifier::external_body]
pub fn verif_try_rfrom_Second_32(r: ri32) -> (res: Result<ri8, Error>)
    ensures res.is_ok() <==> in_Second(r.val as int), res.is_ok() ==> res.unwrap().val == r.val
{ unimplemented!() }
#[verifier::external_body]
pub fn verif_try_rfrom_Second_64(r: ri64) -> (res: Result<ri8, Error>)
    ensures res.is_ok() <==> in_Second(r.val as int), res.is_ok() ==> res.unwrap().val == r.val
{ unimplemented!() }
#[verifier::external_body]
pub fn verif_try_rfrom_Second_128(r: ri128) -> (res: Result<ri8, Error>)
    ensures res.is_ok() <==> in_Second(r.val as int), res.is_ok() ==> res.unwrap().val == r.val
{ unimplemented!() }
#[verifier::external_body]
pub fn verif_try_new_Second(v: i64) -> (res: Result<ri8, Error>)
    ensures res.is_ok() <==> in_Second(v as int), res.is_ok() ==> res.unwrap().val == v
{ unimplemented!() }
#[verifier::external_body]
pub fn verif_try_new128_Second(v: i128) -> (res: Result<ri8, Error>)
    ensures res.is_ok() <==> in_Second(v as int), res.is_ok() ==> res.unwrap().val == v
{ unimplemented!() }
// `Second::MIN` / `Second::MAX` (associated consts of type i128)
pub fn verif_MIN_Second() -> (r: i128) ensures r == Second_MIN() { 0 }
pub fn verif_MAX_Second() -> (r: i128) ensures r == Second_MAX() { 59 }
// `x.try_checked_mul("what", rhs)` with x: Second -- Ok iff the exact product lies within Second::MIN..=MAX
#[verifier::external_body]
pub fn verif_try_checked_mul_Second<R: RInto<ri8>>(x: ri8, rhs: R) -> (res: Result<ri8, Error>)
    requires rhs.rinto_req(),
    ensures res.is_ok() <==> in_Second(x.val * rhs.rinto_spec().val), res.is_ok() ==> res.unwrap().val == x.val * rhs.rinto_spec().val
{ unimplemented!() }
// `x.try_checked_add/sub("what", rhs)` and `x.checked_add/sub/mul(rhs)` with x: Second -- fail iff the exact result leaves Second::MIN..=MAX
#[verifier::external_body]
pub fn verif_try_checked_add_Second<R: RInto<ri8>>(x: ri8, rhs: R) -> (res: Result<ri8, Error>)
    requires rhs.rinto_req(),
    ensures res.is_ok() <==> in_Second(x.val + rhs.rinto_spec().val), res.is_ok() ==> res.unwrap().val == x.val + rhs.rinto_spec().val
{ unimplemented!() }
#[verifier::external_body]
pub fn verif_try_checked_sub_Second<R: RInto<ri8>>(x: ri8, rhs: R) -> (res: Result<ri8, Error>)
    requires rhs.rinto_req(),
    ensures res.is_ok() <==> in_Second(x.val - rhs.rinto_spec().val), res.is_ok() ==> res.unwrap().val == x.val - rhs.rinto_spec().val
{ unimplemented!() }
#[verifier::external_body]
pub fn verif_checked_add_Second<R: RInto<ri8>>(x: ri8, rhs: R) -> (res: Option<ri8>)
    requires rhs.rinto_req(),
    ensures res.is_some() <==> in_Second(x.val + rhs.rinto_spec().val), res.is_some() ==> res.unwrap().val == x.val + rhs.rinto_spec().val
{ unimplemented!() }
#[verifier::external_body]
pub fn verif_checked_sub_Second<R: RInto<ri8>>(x: ri8, rhs: R) -> (res: Option<ri8>)
    requires rhs.rinto_req(),
    ensures res.is_some() <==> in_Second(x.val - rhs.rinto_spec().val), res.is_some() ==> res.unwrap().val == x.val - rhs.rinto_spec().val
{ unimplemented!() }
#[verifier::external_body]
pub fn verif_checked_mul_Second<R: RInto<ri8>>(x: ri8, rhs: R) -> (res: Option<ri8>)
    requires rhs.rinto_req(),
    ensures res.is_some() <==> in_Second(x.val * rhs.rinto_spec().val), res.is_some() ==> res.unwrap().val == x.val * rhs.rinto_spec().val
{ unimplemented!() }
pub type SubsecNanosecond = ri32;
pub open spec fn SubsecNanosecond_MIN() -> int { 0 }
pub open spec fn SubsecNanosecond_MAX() -> int { 999999999 }
pub open spec fn in_SubsecNanosecond(v: int) -> bool { 0 <= v <= 999999999 }
#[verifier::external_body]
pub fn verif_try_rfrom_SubsecNanosecond_8(r: ri8) -> (res: Result<ri32, Error>)
    ensures res.is_ok() <==> in_SubsecNanosecond(r.val as int), res.is_ok() ==> res.unwrap().val == r.val
{ unimplemented!() }
#[verifier::external_body]
pub fn verif_try_rfrom_SubsecNanosecond_16(r: ri16) -> (res: Result<ri32, Error>)
    ensures res.is_ok() <==> in_SubsecNanosecond(r.val as int), res.is_ok() ==> res.unwrap().val == r.val
{ unimplemented!() }
#[verifier::external_body]
pub fn verif_try_rfrom_SubsecNanosecond_32(r: ri32) -> (res: Result<ri32, Error>)
    ensures res.is_ok() <==> in_SubsecNanosecond(r.val as int), res.is_ok() ==> res.unwrap().val == r.val
{ unimplemented!() }
#[verifier::external_body]
pub fn verif_try_rfrom_SubsecNanosecond_64(r: ri64) -> (res: Result<ri32, Error>)
    ensures res.is_ok() <==> in_SubsecNanosecond(r.val as int), res.is_ok() ==> res.unwrap().val == r.val
{ unimplemented!() }
#[verifier::external_body]
pub fn verif_try_rfrom_SubsecNanosecond_128(r: ri128) -> (res: Result<ri32, Error>)
    ensures res.is_ok() <==> in_SubsecNanosecond(r.val as int), res.is_ok() ==> res.unwrap().val == r.val
{ unimplemented!() }
#[verifier::external_body]
pub fn verif_try_new_SubsecNanosecond(v: i64) -> (res: Result<ri32, Error>)
    ensures res.is_ok() <==> in_SubsecNanosecond(v as int), res.is_ok() ==> res.unwrap().val == v
{ unimplemented!() }
#[verifier::external_body]
pub fn verif_try_new128_SubsecNanosecond(v: i128) -> (res: Result<ri32, Error>)
    ensures res.is_ok() <==> in_SubsecNanosecond(v as int), res.is_ok() ==> res.unwrap().val == v
{ unimplemented!() }
// `SubsecNanosecond::MIN` / `SubsecNanosecond::MAX` (associated consts of type i128)
pub fn verif_MIN_SubsecNanosecond() -> (r: i128) ensures r == SubsecNanosecond_MIN() { 0 }
pub fn verif_MAX_SubsecNanosecond() -> (r: i128) ensures r == SubsecNanosecond_MAX() { 999999999 }
// `x.try_checked_mul("what", rhs)` with x: SubsecNanosecond -- Ok iff the exact product lies within SubsecNanosecond::MIN..=MAX
#[verifier::external_body]
pub fn verif_try_checked_mul_SubsecNanosecond<R: RInto<ri32>>(x: ri32, rhs: R) -> (res: Result<ri32, Error>)
    requires rhs.rinto_req(),
    ensures res.is_ok() <==> in_SubsecNanosecond(x.val * rhs.rinto_spec().val), res.is_ok() ==> res.unwrap().val == x.val * rhs.rinto_spec().val
{ unimplemented!() }
// `x.try_checked_add/sub("what", rhs)` and `x.checked_add/sub/mul(rhs)` with x: SubsecNanosecond -- fail iff the exact result leaves SubsecNanosecond::MIN..=MAX
#[verifier::external_body]
pub fn verif_try_checked_add_SubsecNanosecond<R: RInto<ri32>>(x: ri32, rhs: R) -> (res: Result<ri32, Error>)
    requires rhs.rinto_req(),
    ensures res.is_ok() <==> in_SubsecNanosecond(x.val + rhs.rinto_spec().val), res.is_ok() ==> res.unwrap().val == x.val + rhs.rinto_spec().val
{ unimplemented!() }
#[verifier::external_body]
pub fn verif_try_checked_sub_SubsecNanosecond<R: RInto<ri32>>(x: ri32, rhs: R) -> (res: Result<ri32, Error>)
    requires rhs.rinto_req(),
    ensures res.is_ok() <==> in_SubsecNanosecond(x.val - rhs.rinto_spec().val), res.is_ok() ==> res.unwrap().val == x.val - rhs.rinto_spec().val
{ unimplemented!() }
#[verifier::external_body]
pub fn verif_checked_add_SubsecNanosecond<R: RInto<ri32>>(x: ri32, rhs: R) -> (res: Option<ri32>)
    requires rhs.rinto_req(),
    ensures res.is_some() <==> in_SubsecNanosecond(x.val + rhs.rinto_spec().val), res.is_some() ==> res.unwrap().val == x.val + rhs.rinto_spec().val
{ unimplemented!() }
#[verifier::external_body]
pub fn verif_checked_sub_SubsecNanosecond<R: RInto<ri32>>(x: ri32, rhs: R) -> (res: Option<ri32>)
    requires rhs.rinto_req(),
    ensures res.is_some() <==> in_SubsecNanosecond(x.val - rhs.rinto_spec().val), res.is_some() ==> res.unwrap().val == x.val - rhs.rinto_spec().val
{ unimplemented!() }
#[verifier::external_body]
pub fn verif_checked_mul_SubsecNanosecond<R: RInto<ri32>>(x: ri32, rhs: R) -> (res: Option<ri32>)
    requires rhs.rinto_req(),
    ensures res.is_some() <==> in_SubsecNanosecond(x.val * rhs.rinto_spec().val), res.is_some() ==> res.unwrap().val == x.val * rhs.rinto_spec().val
{ unimplemented!() }
pub type CivilDayNanosecond = ri64;
pub open spec fn CivilDayNanosecond_MIN() -> int { 0 }
pub open spec fn CivilDayNanosecond_MAX() -> int { 86399999999999 }
pub open spec fn in_CivilDayNanosecond(v: int) -> bool { 0 <= v <= 86399999999999 }
#[verifier::external_body]
pub fn verif_try_rfrom_CivilDayNanosecond_8(r: ri8) -> (res: Result<ri64, Error>)
    ensures res.is_ok() <==> in_CivilDayNanosecond(r.val as int), res.is_ok() ==> res.unwrap().val == r.val
{ unimplemented!() }
#[verifier::external_body]
pub fn verif_try_rfrom_CivilDayNanosecond_16(r: ri16) -> (res: Result<ri64, Error>)
    ensures res.is_ok() <==> in_CivilDayNanosecond(r.val as int), res.is_ok() ==> res.unwrap().val == r.val
{ unimplemented!() }
#[verifier::external_body]
pub fn verif_try_rfrom_CivilDayNanosecond_32(r: ri32) -> (res: Result<ri64, Error>)
    ensures res.is_ok() <==> in_CivilDayNanosecond(r.val as int), res.is_ok() ==> res.unwrap().val == r.val
{ unimplemented!() }
#[verifier::external_body]
pub fn verif_try_rfrom_CivilDayNanosecond_64(r: ri64) -> (res: Result<ri64, Error>)
    ensures res.is_ok() <==> in_CivilDayNanosecond(r.val as int), res.is_ok() ==> res.unwrap().val == r.val
{ unimplemented!() }
#[verifier::external_body]
pub fn verif_try_rfrom_CivilDayNanosecond_128(r: ri128) -> (res: Result<ri64, Error>)
    ensures res.is_ok() <==> in_CivilDayNanosecond(r.val as int), res.is_ok() ==> res.unwrap().val == r.val
{ unimplemented!() }
#[verifier::external_body]
pub fn verif_try_new_CivilDayNanosecond(v: i64) -> (res: Result<ri64, Error>)
    ensures res.is_ok() <==> in_CivilDayNanosecond(v as int), res.is_ok() ==> res.unwrap().val == v
{ unimplemented!() }
#[verifier::external_body]
pub fn verif_try_new128_CivilDayNanosecond(v: i128) -> (res: Result<ri64, Error>)
    ensures res.is_ok() <==> in_CivilDayNanosecond(v as int), res.is_ok() ==> res.unwrap().val == v
{ unimplemented!() }
// `CivilDayNanosecond::MIN` / `CivilDayNanosecond::MAX` (associated consts of type i128)
pub fn verif_MIN_CivilDayNanosecond() -> (r: i128) ensures r == CivilDayNanosecond_MIN() { 0 }
pub fn verif_MAX_CivilDayNanosecond() -> (r: i128) ensures r == CivilDayNanosecond_MAX() { 86399999999999 }
// `x.try_checked_mul("what", rhs)` with x: CivilDayNanosecond -- Ok iff the exact product lies within CivilDayNanosecond::MIN..=MAX
#[verifier::external_body]
pub fn verif_try_checked_mul_CivilDayNanosecond<R: RInto<ri64>>(x: ri64, rhs: R) -> (res: Result<ri64, Error>)
    requires rhs.rinto_req(),
    ensures res.is_ok() <==> in_CivilDayNanosecond(x.val * rhs.rinto_spec().val), res.is_ok() ==> res.unwrap().val == x.val * rhs.rinto_spec().val
{ unimplemented!() }
// `x.try_checked_add/sub("what", rhs)` and `x.checked_add/sub/mul(rhs)` with x: CivilDayNanosecond -- fail iff the exact result leaves CivilDayNanosecond::MIN..=MAX
#[verifier::external_body]
pub fn verif_try_checked_add_CivilDayNanosecond<R: RInto<ri64>>(x: ri64, rhs: R) -> (res: Result<ri64, Error>)
    requires rhs.rinto_req(),
    ensures res.is_ok() <==> in_CivilDayNanosecond(x.val + rhs.rinto_spec().val), res.is_ok() ==> res.unwrap().val == x.val + rhs.rinto_spec().val
{ unimplemented!() }
#[verifier::external_body]
pub fn verif_try_checked_sub_CivilDayNanosecond<R: RInto<ri64>>(x: ri64, rhs: R) -> (res: Result<ri64, Error>)
    requires rhs.rinto_req(),
    ensures res.is_ok() <==> in_CivilDayNanosecond(x.val - rhs.rinto_spec().val), res.is_ok() ==> res.unwrap().val == x.val - rhs.rinto_spec().val
{ unimplemented!() }
#[verifier::external_body]
pub fn verif_checked_add_CivilDayNanosecond<R: RInto<ri64>>(x: ri64, rhs: R) -> (res: Option<ri64>)
    requires rhs.rinto_req(),
    ensures res.is_some() <==> in_CivilDayNanosecond(x.val + rhs.rinto_spec().val), res.is_some() ==> res.unwrap().val == x.val + rhs.rinto_spec().val
{ unimplemented!() }
#[verifier::external_body]
pub fn verif_checked_sub_CivilDayNanosecond<R: RInto<ri64>>(x: ri64, rhs: R) -> (res: Option<ri64>)
    requires rhs.rinto_req(),
    ensures res.is_some() <==> in_CivilDayNanosecond(x.val - rhs.rinto_spec().val), res.is_some() ==> res.unwrap().val == x.val - rhs.rinto_spec().val
{ unimplemented!() }
#[verifier::external_body]
pub fn verif_checked_mul_CivilDayNanosecond<R: RInto<ri64>>(x: ri64, rhs: R) -> (res: Option<ri64>)
    requires rhs.rinto_req(),
    ensures res.is_some() <==> in_CivilDayNanosecond(x.val * rhs.rinto_spec().val), res.is_some() ==> res.unwrap().val == x.val * rhs.rinto_spec().val
{ unimplemented!() }
pub type CivilDaySecond = ri32;
pub open spec fn CivilDaySecond_MIN() -> int { 0 }
pub open spec fn CivilDaySecond_MAX() -> int { 86399 }
pub open spec fn in_CivilDaySecond(v: int) -> bool { 0 <= v <= 86399 }
#[verifier::external_body]
pub fn verif_try_rfrom_CivilDaySecond_8(r: ri8) -> (res: Result<ri32, Error>)
    ensures res.is_ok() <==> in_CivilDaySecond(r.val as int), res.is_ok() ==> res.unwrap().val == r.val
{ unimplemented!() }
#[verifier::external_body]
pub fn verif_try_rfrom_CivilDaySecond_16(r: ri16) -> (res: Result<ri32, Error>)
    ensures res.is_ok() <==> in_CivilDaySecond(r.val as int), res.is_ok() ==> res.unwrap().val == r.val
{ unimplemented!() }
#[verifier::external_body]
pub fn verif_try_rfrom_CivilDaySecond_32(r: ri32) -> (res: Result<ri32, Error>)
    ensures res.is_ok() <==> in_CivilDaySecond(r.val as int), res.is_ok() ==> res.unwrap().val == r.val
{ unimplemented!() }
#[verifier::external_body]
pub fn verif_try_rfrom_CivilDaySecond_64(r: ri64) -> (res: Result<ri32, Error>)
    ensures res.is_ok() <==> in_CivilDaySecond(r.val as int), res.is_ok() ==> res.unwrap().val == r.val
{ unimplemented!() }
#[verifier::external_body]
pub fn verif_try_rfrom_CivilDaySecond_128(r: ri128) -> (res: Result<ri32, Error>)
    ensures res.is_ok() <==> in_CivilDaySecond(r.val as int), res.is_ok() ==> res.unwrap().val == r.val
{ unimplemented!() }
#[verifier::external_body]
pub fn verif_try_new_CivilDaySecond(v: i64) -> (res: Result<ri32, Error>)
    ensures res.is_ok() <==> in_CivilDaySecond(v as int), res.is_ok() ==> res.unwrap().val == v
{ unimplemented!() }
#[verifier::external_body]
pub fn verif_try_new128_CivilDaySecond(v: i128) -> (res: Result<ri32, Error>)
    ensures res.is_ok() <==> in_CivilDaySecond(v as int), res.is_ok() ==> res.unwrap().val == v
{ unimplemented!() }
// `CivilDaySecond::MIN` / `CivilDaySecond::MAX` (associated consts of type i128)
pub fn verif_MIN_CivilDaySecond() -> (r: i128) ensures r == CivilDaySecond_MIN() { 0 }
pub fn verif_MAX_CivilDaySecond() -> (r: i128) ensures r == CivilDaySecond_MAX() { 86399 }
// `x.try_checked_mul("what", rhs)` with x: CivilDaySecond -- Ok iff the exact product lies within CivilDaySecond::MIN..=MAX
#[verifier::external_body]
pub fn verif_try_checked_mul_CivilDaySecond<R: RInto<ri32>>(x: ri32, rhs: R) -> (res: Result<ri32, Error>)
    requires rhs.rinto_req(),
    ensures res.is_ok() <==> in_CivilDaySecond(x.val * rhs.rinto_spec().val), res.is_ok() ==> res.unwrap().val == x.val * rhs.rinto_spec().val
{ unimplemented!() }
// `x.try_checked_add/sub("what", rhs)` and `x.checked_add/sub/mul(rhs)` with x: CivilDaySecond -- fail iff the exact result leaves CivilDaySecond::MIN..=MAX
#[verifier::external_body]
pub fn verif_try_checked_add_CivilDaySecond<R: RInto<ri32>>(x: ri32, rhs: R) -> (res: Result<ri32, Error>)
    requires rhs.rinto_req(),
    ensures res.is_ok() <==> in_CivilDaySecond(x.val + rhs.rinto_spec().val), res.is_ok() ==> res.unwrap().val == x.val + rhs.rinto_spec().val
{ unimplemented!() }
#[verifier::external_body]
pub fn verif_try_checked_sub_CivilDaySecond<R: RInto<ri32>>(x: ri32, rhs: R) -> (res: Result<ri32, Error>)
    requires rhs.rinto_req(),
    ensures res.is_ok() <==> in_CivilDaySecond(x.val - rhs.rinto_spec().val), res.is_ok() ==> res.unwrap().val == x.val - rhs.rinto_spec().val
{ unimplemented!() }
#[verifier::external_body]
pub fn verif_checked_add_CivilDaySecond<R: RInto<ri32>>(x: ri32, rhs: R) -> (res: Option<ri32>)
    requires rhs.rinto_req(),
    ensures res.is_some() <==> in_CivilDaySecond(x.val + rhs.rinto_spec().val), res.is_some() ==> res.unwrap().val == x.val + rhs.rinto_spec().val
{ unimplemented!() }
#[verifier::external_body]
pub fn verif_checked_sub_CivilDaySecond<R: RInto<ri32>>(x: ri32, rhs: R) -> (res: Option<ri32>)
    requires rhs.rinto_req(),
    ensures res.is_some() <==> in_CivilDaySecond(x.val - rhs.rinto_spec().val), res.is_some() ==> res.unwrap().val == x.val - rhs.rinto_spec().val
{ unimplemented!() }
#[verifier::external_body]
pub fn verif_checked_mul_CivilDaySecond<R: RInto<ri32>>(x: ri32, rhs: R) -> (res: Option<ri32>)
    requires rhs.rinto_req(),
    ensures res.is_some() <==> in_CivilDaySecond(x.val * rhs.rinto_spec().val), res.is_some() ==> res.unwrap().val == x.val * rhs.rinto_spec().val
{ unimplemented!() }
pub type UnixEpochDay = ri32;
pub open spec fn UnixEpochDay_MIN() -> int { -4371587 }
pub open spec fn UnixEpochDay_MAX() -> int { 2932896 }
pub open spec fn in_UnixEpochDay(v: int) -> bool { -4371587 <= v <= 2932896 }
#[verifier::external_body]
pub fn verif_try_rfrom_UnixEpochDay_8(r: ri8) -> (res: Result<ri32, Error>)
    ensures res.is_ok() <==> in_UnixEpochDay(r.val as int), res.is_ok() ==> res.unwrap().val == r.val
{ unimplemented!() }
#[verifier::external_body]
pub fn verif_try_rfrom_UnixEpochDay_16(r: ri16) -> (res: Result<ri32, Error>)
    ensures res.is_ok() <==> in_UnixEpochDay(r.val as int), res.is_ok() ==> res.unwrap().val == r.val
{ unimplemented!() }
#[verifier::external_body]
pub fn verif_try_rfrom_UnixEpochDay_32(r: ri32) -> (res: Result<ri32, Error>)
    ensures res.is_ok() <==> in_UnixEpochDay(r.val as int), res.is_ok() ==> res.unwrap().val == r.val
{ unimplemented!() }
#[verifier::external_body]
pub fn verif_try_rfrom_UnixEpochDay_64(r: ri64) -> (res: Result<ri32, Error>)
    ensures res.is_ok() <==> in_UnixEpochDay(r.val as int), res.is_ok() ==> res.unwrap().val == r.val
{ unimplemented!() }
#[verifier::external_body]
pub fn verif_try_rfrom_UnixEpochDay_128(r: ri128) -> (res: Result<ri32, Error>)
    ensures res.is_ok() <==> in_UnixEpochDay(r.val as int), res.is_ok() ==> res.unwrap().val == r.val
{ unimplemented!() }
#[verifier::external_body]
pub fn verif_try_new_UnixEpochDay(v: i64) -> (res: Result<ri32, Error>)
    ensures res.is_ok() <==> in_UnixEpochDay(v as int), res.is_ok() ==> res.unwrap().val == v
{ unimplemented!() }
#[verifier::external_body]
pub fn verif_try_new128_UnixEpochDay(v: i128) -> (res: Result<ri32, Error>)
    ensures res.is_ok() <==> in_UnixEpochDay(v as int), res.is_ok() ==> res.unwrap().val == v
{ unimplemented!() }
// `UnixEpochDay::MIN` / `UnixEpochDay::MAX` (associated consts of type i128)
pub fn verif_MIN_UnixEpochDay() -> (r: i128) ensures r == UnixEpochDay_MIN() { -4371587 }
pub fn verif_MAX_UnixEpochDay() -> (r: i128) ensures r == UnixEpochDay_MAX() { 2932896 }
// `x.try_checked_mul("what", rhs)` with x: UnixEpochDay -- Ok iff the exact product lies within UnixEpochDay::MIN..=MAX
#[verifier::external_body]
pub fn verif_try_checked_mul_UnixEpochDay<R: RInto<ri32>>(x: ri32, rhs: R) -> (res: Result<ri32, Error>)
    requires rhs.rinto_req(),
    ensures res.is_ok() <==> in_UnixEpochDay(x.val * rhs.rinto_spec().val), res.is_ok() ==> res.unwrap().val == x.val * rhs.rinto_spec().val
{ unimplemented!() }
// `x.try_checked_add/sub("what", rhs)` and `x.checked_add/sub/mul(rhs)` with x: UnixEpochDay -- fail iff the exact result leaves UnixEpochDay::MIN..=MAX
#[verifier::external_body]
pub fn verif_try_checked_add_UnixEpochDay<R: RInto<ri32>>(x: ri32, rhs: R) -> (res: Result<ri32, Error>)
    requires rhs.rinto_req(),
    ensures res.is_ok() <==> in_UnixEpochDay(x.val + rhs.rinto_spec().val), res.is_ok() ==> res.unwrap().val == x.val + rhs.rinto_spec().val
{ unimplemented!() }
#[verifier::external_body]
pub fn verif_try_checked_sub_UnixEpochDay<R: RInto<ri32>>(x: ri32, rhs: R) -> (res: Result<ri32, Error>)
    requires rhs.rinto_req(),
    ensures res.is_ok() <==> in_UnixEpochDay(x.val - rhs.rinto_spec().val), res.is_ok() ==> res.unwrap().val == x.val - rhs.rinto_spec().val
{ unimplemented!() }
#[verifier::external_body]
pub fn verif_checked_add_UnixEpochDay<R: RInto<ri32>>(x: ri32, rhs: R) -> (res: Option<ri32>)
    requires rhs.rinto_req(),
    ensures res.is_some() <==> in_UnixEpochDay(x.val + rhs.rinto_spec().val), res.is_some() ==> res.unwrap().val == x.val + rhs.rinto_spec().val
{ unimplemented!() }
#[verifier::external_body]
pub fn verif_checked_sub_UnixEpochDay<R: RInto<ri32>>(x: ri32, rhs: R) -> (res: Option<ri32>)
    requires rhs.rinto_req(),
    ensures res.is_some() <==> in_UnixEpochDay(x.val - rhs.rinto_spec().val), res.is_some() ==> res.unwrap().val == x.val - rhs.rinto_spec().val
{ unimplemented!() }
#[verifier::external_body]
pub fn verif_checked_mul_UnixEpochDay<R: RInto<ri32>>(x: ri32, rhs: R) -> (res: Option<ri32>)
    requires rhs.rinto_req(),
    ensures res.is_some() <==> in_UnixEpochDay(x.val * rhs.rinto_spec().val), res.is_some() ==> res.unwrap().val == x.val * rhs.rinto_spec().val
{ unimplemented!() }
pub type UnixSeconds = ri64;
pub open spec fn UnixSeconds_MIN() -> int { -377705023201 }
pub open spec fn UnixSeconds_MAX() -> int { 253402207200 }
pub open spec fn in_UnixSeconds(v: int) -> bool { -377705023201 <= v <= 253402207200 }
#[verifier::external_body]
pub fn verif_try_rfrom_UnixSeconds_8(r: ri8) -> (res: Result<ri64, Error>)
    ensures res.is_ok() <==> in_UnixSeconds(r.val as int), res.is_ok() ==> res.unwrap().val == r.val
{ unimplemented!() }
#[verifier::external_body]
pub fn verif_try_rfrom_UnixSeconds_16(r: ri16) -> (res: Result<ri64, Error>)
    ensures res.is_ok() <==> in_UnixSeconds(r.val as int), res.is_ok() ==> res.unwrap().val == r.val
{ unimplemented!() }
#[verifier::external_body]
pub fn verif_try_rfrom_UnixSeconds_32(r: ri32) -> (res: Result<ri64, Error>)
    ensures res.is_ok() <==> in_UnixSeconds(r.val as int), res.is_ok() ==> res.unwrap().val == r.val
{ unimplemented!() }
#[verifier::external_body]
pub fn verif_try_rfrom_UnixSeconds_64(r: ri64) -> (res: Result<ri64, Error>)
    ensures res.is_ok() <==> in_UnixSeconds(r.val as int), res.is_ok() ==> res.unwrap().val == r.val
{ unimplemented!() }
#[verifier::external_body]
pub fn verif_try_rfrom_UnixSeconds_128(r: ri128) -> (res: Result<ri64, Error>)
    ensures res.is_ok() <==> in_UnixSeconds(r.val as int), res.is_ok() ==> res.unwrap().val == r.val
{ unimplemented!() }
#[verifier::external_body]
pub fn verif_try_new_UnixSeconds(v: i64) -> (res: Result<ri64, Error>)
    ensures res.is_ok() <==> in_UnixSeconds(v as int), res.is_ok() ==> res.unwrap().val == v
{ unimplemented!() }
#[verifier::external_body]
pub fn verif_try_new128_UnixSeconds(v: i128) -> (res: Result<ri64, Error>)
    ensures res.is_ok() <==> in_UnixSeconds(v as int), res.is_ok() ==> res.unwrap().val == v
{ unimplemented!() }
// `UnixSeconds::MIN` / `UnixSeconds::MAX` (associated consts of type i128)
pub fn verif_MIN_UnixSeconds() -> (r: i128) ensures r == UnixSeconds_MIN() { -377705023201 }
pub fn verif_MAX_UnixSeconds() -> (r: i128) ensures r == UnixSeconds_MAX() { 253402207200 }
// `x.try_checked_mul("what", rhs)` with x: UnixSeconds -- Ok iff the exact product lies within UnixSeconds::MIN..=MAX
#[verifier::external_body]
pub fn verif_try_checked_mul_UnixSeconds<R: RInto<ri64>>(x: ri64, rhs: R) -> (res: Result<ri64, Error>)
    requires rhs.rinto_req(),
    ensures res.is_ok() <==> in_UnixSeconds(x.val * rhs.rinto_spec().val), res.is_ok() ==> res.unwrap().val == x.val * rhs.rinto_spec().val
{ unimplemented!() }
// `x.try_checked_add/sub("what", rhs)` and `x.checked_add/sub/mul(rhs)` with x: UnixSeconds -- fail iff the exact result leaves UnixSeconds::MIN..=MAX
#[verifier::external_body]
pub fn verif_try_checked_add_UnixSeconds<R: RInto<ri64>>(x: ri64, rhs: R) -> (res: Result<ri64, Error>)
    requires rhs.rinto_req(),
    ensures res.is_ok() <==> in_UnixSeconds(x.val + rhs.rinto_spec().val), res.is_ok() ==> res.unwrap().val == x.val + rhs.rinto_spec().val
{ unimplemented!() }
#[verifier::external_body]
pub fn verif_try_checked_sub_UnixSeconds<R: RInto<ri64>>(x: ri64, rhs: R) -> (res: Result<ri64, Error>)
    requires rhs.rinto_req(),
    ensures res.is_ok() <==> in_UnixSeconds(x.val - rhs.rinto_spec().val), res.is_ok() ==> res.unwrap().val == x.val - rhs.rinto_spec().val
{ unimplemented!() }
#[verifier::external_body]
pub fn verif_checked_add_UnixSeconds<R: RInto<ri64>>(x: ri64, rhs: R) -> (res: Option<ri64>)
    requires rhs.rinto_req(),
    ensures res.is_some() <==> in_UnixSeconds(x.val + rhs.rinto_spec().val), res.is_some() ==> res.unwrap().val == x.val + rhs.rinto_spec().val
{ unimplemented!() }
#[verifier::external_body]
pub fn verif_checked_sub_UnixSeconds<R: RInto<ri64>>(x: ri64, rhs: R) -> (res: Option<ri64>)
    requires rhs.rinto_req(),
    ensures res.is_some() <==> in_UnixSeconds(x.val - rhs.rinto_spec().val), res.is_some() ==> res.unwrap().val == x.val - rhs.rinto_spec().val
{ unimplemented!() }
#[verifier::external_body]
pub fn verif_checked_mul_UnixSeconds<R: RInto<ri64>>(x: ri64, rhs: R) -> (res: Option<ri64>)
    requires rhs.rinto_req(),
    ensures res.is_some() <==> in_UnixSeconds(x.val * rhs.rinto_spec().val), res.is_some() ==> res.unwrap().val == x.val * rhs.rinto_spec().val
{ unimplemented!() }
pub type UnixNanoseconds = ri128;
pub open spec fn UnixNanoseconds_MIN() -> int { -377705023201000000000 }
pub open spec fn UnixNanoseconds_MAX() -> int { 253402207200999999999 }
pub open spec fn in_UnixNanoseconds(v: int) -> bool { -377705023201000000000 <= v <= 253402207200999999999 }
#[verifier::external_body]
pub fn verif_try_rfrom_UnixNanoseconds_8(r: ri8) -> (res: Result<ri128, Error>)
    ensures res.is_ok() <==> in_UnixNanoseconds(r.val as int), res.is_ok() ==> res.unwrap().val == r.val
{ unimplemented!() }
#[verifier::external_body]
pub fn verif_try_rfrom_UnixNanoseconds_16(r: ri16) -> (res: Result<ri128, Error>)
    ensures res.is_ok() <==> in_UnixNanoseconds(r.val as int), res.is_ok() ==> res.unwrap().val == r.val
{ unimplemented!() }
#[verifier::external_body]
pub fn verif_try_rfrom_UnixNanoseconds_32(r: ri32) -> (res: Result<ri128, Error>)
    ensures res.is_ok() <==> in_UnixNanoseconds(r.val as int), res.is_ok() ==> res.unwrap().val == r.val
{ unimplemented!() }
#[verifier::external_body]
pub fn verif_try_rfrom_UnixNanoseconds_64(r: ri64) -> (res: Result<ri128, Error>)
    ensures res.is_ok() <==> in_UnixNanoseconds(r.val as int), res.is_ok() ==> res.unwrap().val == r.val
{ unimplemented!() }
#[verifier::external_body]
pub fn verif_try_rfrom_UnixNanoseconds_128(r: ri128) -> (res: Result<ri128, Error>)
    ensures res.is_ok() <==> in_UnixNanoseconds(r.val as int), res.is_ok() ==> res.unwrap().val == r.val
{ unimplemented!() }
#[verifier::external_body]
pub fn verif_try_new_UnixNanoseconds(v: i64) -> (res: Result<ri128, Error>)
    ensures res.is_ok() <==> in_UnixNanoseconds(v as int), res.is_ok() ==> res.unwrap().val == v
{ unimplemented!() }
#[verifier::external_body]
pub fn verif_try_new128_UnixNanoseconds(v: i128) -> (res: Result<ri128, Error>)
    ensures res.is_ok() <==> in_UnixNanoseconds(v as int), res.is_ok() ==> res.unwrap().val == v
{ unimplemented!() }
// `UnixNanoseconds::MIN` / `UnixNanoseconds::MAX` (associated consts of type i128)
pub fn verif_MIN_UnixNanoseconds() -> (r: i128) ensures r == UnixNanoseconds_MIN() { -377705023201000000000 }
pub fn verif_MAX_UnixNanoseconds() -> (r: i128) ensures r == UnixNanoseconds_MAX() { 253402207200999999999 }
// `x.try_checked_mul("what", rhs)` with x: UnixNanoseconds -- Ok iff the exact product lies within UnixNanoseconds::MIN..=MAX
#[verifier::external_body]
pub fn verif_try_checked_mul_UnixNanoseconds<R: RInto<ri128>>(x: ri128, rhs: R) -> (res: Result<ri128, Error>)
    requires rhs.rinto_req(),
    ensures res.is_ok() <==> in_UnixNanoseconds(x.val * rhs.rinto_spec().val), res.is_ok() ==> res.unwrap().val == x.val * rhs.rinto_spec().val
{ unimplemented!() }
// `x.try_checked_add/sub("what", rhs)` and `x.checked_add/sub/mul(rhs)` with x: UnixNanoseconds -- fail iff the exact result leaves UnixNanoseconds::MIN..=MAX
#[verifier::external_body]
pub fn verif_try_checked_add_UnixNanoseconds<R: RInto<ri128>>(x: ri128, rhs: R) -> (res: Result<ri128, Error>)
    requires rhs.rinto_req(),
    ensures res.is_ok() <==> in_UnixNanoseconds(x.val + rhs.rinto_spec().val), res.is_ok() ==> res.unwrap().val == x.val + rhs.rinto_spec().val
{ unimplemented!() }
#[verifier::external_body]
pub fn verif_try_checked_sub_UnixNanoseconds<R: RInto<ri128>>(x: ri128, rhs: R) -> (res: Result<ri128, Error>)
    requires rhs.rinto_req(),
    ensures res.is_ok() <==> in_UnixNanoseconds(x.val - rhs.rinto_spec().val), res.is_ok() ==> res.unwrap().val == x.val - rhs.rinto_spec().val
{ unimplemented!() }
#[verifier::external_body]
pub fn verif_checked_add_UnixNanoseconds<R: RInto<ri128>>(x: ri128, rhs: R) -> (res: Option<ri128>)
    requires rhs.rinto_req(),
    ensures res.is_some() <==> in_UnixNanoseconds(x.val + rhs.rinto_spec().val), res.is_some() ==> res.unwrap().val == x.val + rhs.rinto_spec().val
{ unimplemented!() }
#[verifier::external_body]
pub fn verif_checked_sub_UnixNanoseconds<R: RInto<ri128>>(x: ri128, rhs: R) -> (res: Option<ri128>)
    requires rhs.rinto_req(),
    ensures res.is_some() <==> in_UnixNanoseconds(x.val - rhs.rinto_spec().val), res.is_some() ==> res.unwrap().val == x.val - rhs.rinto_spec().val
{ unimplemented!() }
#[verifier::external_body]
pub fn verif_checked_mul_UnixNanoseconds<R: RInto<ri128>>(x: ri128, rhs: R) -> (res: Option<ri128>)
    requires rhs.rinto_req(),
    ensures res.is_some() <==> in_UnixNanoseconds(x.val * rhs.rinto_spec().val), res.is_some() ==> res.unwrap().val == x.val * rhs.rinto_spec().val
{ unimplemented!() }
pub type SpanYears = ri16;
pub open spec fn SpanYears_MIN() -> int { -19998 }
pub open spec fn SpanYears_MAX() -> int { 19998 }
pub open spec fn in_SpanYears(v: int) -> bool { -19998 <= v <= 19998 }
#[verifier::external_body]
pub fn verif_try_rfrom_SpanYears_8(r: ri8) -> (res: Result<ri16, Error>)
    ensures res.is_ok() <==> in_SpanYears(r.val as int), res.is_ok() ==> res.unwrap().val == r.val
{ unimplemented!() }
#[verifier::external_body]
pub fn verif_try_rfrom_SpanYears_16(r: ri16) -> (res: Result<ri16, Error>)
    ensures res.is_ok() <==> in_SpanYears(r.val as int), res.is_ok() ==> res.unwrap().val == r.val
{ unimplemented!() }
#[verifier::external_body]
pub fn verif_try_rfrom_SpanYears_32(r: ri32) -> (res: Result<ri16, Error>)
    ensures res.is_ok() <==> in_SpanYears(r.val as int), res.is_ok() ==> res.unwrap().val == r.val
{ unimplemented!() }
#[verifier::external_body]
pub fn verif_try_rfrom_SpanYears_64(r: ri64) -> (res: Result<ri16, Error>)
    ensures res.is_ok() <==> in_SpanYears(r.val as int), res.is_ok() ==> res.unwrap().val == r.val
{ unimplemented!() }
#[verifier::external_body]
pub fn verif_try_rfrom_SpanYears_128(r: ri128) -> (res: Result<ri16, Error>)
    ensures res.is_ok() <==> in_SpanYears(r.val as int), res.is_ok() ==> res.unwrap().val == r.val
{ unimplemented!() }
#[verifier::external_body]
pub fn verif_try_new_SpanYears(v: i64) -> (res: Result<ri16, Error>)
    ensures res.is_ok() <==> in_SpanYears(v as int), res.is_ok() ==> res.unwrap().val == v
{ unimplemented!() }
#[verifier::external_body]
pub fn verif_try_new128_SpanYears(v: i128) -> (res: Result<ri16, Error>)
    ensures res.is_ok() <==> in_SpanYears(v as int), res.is_ok() ==> res.unwrap().val == v
{ unimplemented!() }
// `SpanYears::MIN` / `SpanYears::MAX` (associated consts of type i128)
pub fn verif_MIN_SpanYears() -> (r: i128) ensures r == SpanYears_MIN() { -19998 }
pub fn verif_MAX_SpanYears() -> (r: i128) ensures r == SpanYears_MAX() { 19998 }
// `x.try_checked_mul("what", rhs)` with x: SpanYears -- Ok iff the exact product lies within SpanYears::MIN..=MAX
#[verifier::external_body]
pub fn verif_try_checked_mul_SpanYears<R: RInto<ri16>>(x: ri16, rhs: R) -> (res: Result<ri16, Error>)
    requires rhs.rinto_req(),
    ensures res.is_ok() <==> in_SpanYears(x.val * rhs.rinto_spec().val), res.is_ok() ==> res.unwrap().val == x.val * rhs.rinto_spec().val
{ unimplemented!() }
// `x.try_checked_add/sub("what", rhs)` and `x.checked_add/sub/mul(rhs)` with x: SpanYears -- fail iff the exact result leaves SpanYears::MIN..=MAX
#[verifier::external_body]
pub fn verif_try_checked_add_SpanYears<R: RInto<ri16>>(x: ri16, rhs: R) -> (res: Result<ri16, Error>)
    requires rhs.rinto_req(),
    ensures res.is_ok() <==> in_SpanYears(x.val + rhs.rinto_spec().val), res.is_ok() ==> res.unwrap().val == x.val + rhs.rinto_spec().val
{ unimplemented!() }
#[verifier::external_body]
pub fn verif_try_checked_sub_SpanYears<R: RInto<ri16>>(x: ri16, rhs: R) -> (res: Result<ri16, Error>)
    requires rhs.rinto_req(),
    ensures res.is_ok() <==> in_SpanYears(x.val - rhs.rinto_spec().val), res.is_ok() ==> res.unwrap().val == x.val - rhs.rinto_spec().val
{ unimplemented!() }
#[verifier::external_body]
pub fn verif_checked_add_SpanYears<R: RInto<ri16>>(x: ri16, rhs: R) -> (res: Option<ri16>)
    requires rhs.rinto_req(),
    ensures res.is_some() <==> in_SpanYears(x.val + rhs.rinto_spec().val), res.is_some() ==> res.unwrap().val == x.val + rhs.rinto_spec().val
{ unimplemented!() }
#[verifier::external_body]
pub fn verif_checked_sub_SpanYears<R: RInto<ri16>>(x: ri16, rhs: R) -> (res: Option<ri16>)
    requires rhs.rinto_req(),
    ensures res.is_some() <==> in_SpanYears(x.val - rhs.rinto_spec().val), res.is_some() ==> res.unwrap().val == x.val - rhs.rinto_spec().val
{ unimplemented!() }
#[verifier::external_body]
pub fn verif_checked_mul_SpanYears<R: RInto<ri16>>(x: ri16, rhs: R) -> (res: Option<ri16>)
    requires rhs.rinto_req(),
    ensures res.is_some() <==> in_SpanYears(x.val * rhs.rinto_spec().val), res.is_some() ==> res.unwrap().val == x.val * rhs.rinto_spec().val
{ unimplemented!() }
pub type SpanMonths = ri32;
pub open spec fn SpanMonths_MIN() -> int { -239976 }
pub open spec fn SpanMonths_MAX() -> int { 239976 }
pub open spec fn in_SpanMonths(v: int) -> bool { -239976 <= v <= 239976 }
#[verifier::external_body]
pub fn verif_try_rfrom_SpanMonths_8(r: ri8) -> (res: Result<ri32, Error>)
    ensures res.is_ok() <==> in_SpanMonths(r.val as int), res.is_ok() ==> res.unwrap().val == r.val
{ unimplemented!() }
#[verifier::external_body]
pub fn verif_try_rfrom_SpanMonths_16(r: ri16) -> (res: Result<ri32, Error>)
    ensures res.is_ok() <==> in_SpanMonths(r.val as int), res.is_ok() ==> res.unwrap().val == r.val
{ unimplemented!() }
#[verifier::external_body]
pub fn verif_try_rfrom_SpanMonths_32(r: ri32) -> (res: Result<ri32, Error>)
    ensures res.is_ok() <==> in_SpanMonths(r.val as int), res.is_ok() ==> res.unwrap().val == r.val
{ unimplemented!() }
#[verifier::external_body]
pub fn verif_try_rfrom_SpanMonths_64(r: ri64) -> (res: Result<ri32, Error>)
    ensures res.is_ok() <==> in_SpanMonths(r.val as int), res.is_ok() ==> res.unwrap().val == r.val
{ unimplemented!() }
#[verifier::external_body]
pub fn verif_try_rfrom_SpanMonths_128(r: ri128) -> (res: Result<ri32, Error>)
    ensures res.is_ok() <==> in_SpanMonths(r.val as int), res.is_ok() ==> res.unwrap().val == r.val
{ unimplemented!() }
#[verifier::external_body]
pub fn verif_try_new_SpanMonths(v: i64) -> (res: Result<ri32, Error>)
    ensures res.is_ok() <==> in_SpanMonths(v as int), res.is_ok() ==> res.unwrap().val == v
{ unimplemented!() }
#[verifier::external_body]
pub fn verif_try_new128_SpanMonths(v: i128) -> (res: Result<ri32, Error>)
    ensures res.is_ok() <==> in_SpanMonths(v as int), res.is_ok() ==> res.unwrap().val == v
{ unimplemented!() }
// `SpanMonths::MIN` / `SpanMonths::MAX` (associated consts of type i128)
pub fn verif_MIN_SpanMonths() -> (r: i128) ensures r == SpanMonths_MIN() { -239976 }
pub fn verif_MAX_SpanMonths() -> (r: i128) ensures r == SpanMonths_MAX() { 239976 }
// `x.try_checked_mul("what", rhs)` with x: SpanMonths -- Ok iff the exact product lies within SpanMonths::MIN..=MAX
#[verifier::external_body]
pub fn verif_try_checked_mul_SpanMonths<R: RInto<ri32>>(x: ri32, rhs: R) -> (res: Result<ri32, Error>)
    requires rhs.rinto_req(),
    ensures res.is_ok() <==> in_SpanMonths(x.val * rhs.rinto_spec().val), res.is_ok() ==> res.unwrap().val == x.val * rhs.rinto_spec().val
{ unimplemented!() }
// `x.try_checked_add/sub("what", rhs)` and `x.checked_add/sub/mul(rhs)` with x: SpanMonths -- fail iff the exact result leaves SpanMonths::MIN..=MAX
#[verifier::external_body]
pub fn verif_try_checked_add_SpanMonths<R: RInto<ri32>>(x: ri32, rhs: R) -> (res: Result<ri32, Error>)
    requires rhs.rinto_req(),
    ensures res.is_ok() <==> in_SpanMonths(x.val + rhs.rinto_spec().val), res.is_ok() ==> res.unwrap().val == x.val + rhs.rinto_spec().val
{ unimplemented!() }
#[verifier::external_body]
pub fn verif_try_checked_sub_SpanMonths<R: RInto<ri32>>(x: ri32, rhs: R) -> (res: Result<ri32, Error>)
    requires rhs.rinto_req(),
    ensures res.is_ok() <==> in_SpanMonths(x.val - rhs.rinto_spec().val), res.is_ok() ==> res.unwrap().val == x.val - rhs.rinto_spec().val
{ unimplemented!() }
#[verifier::external_body]
pub fn verif_checked_add_SpanMonths<R: RInto<ri32>>(x: ri32, rhs: R) -> (res: Option<ri32>)
    requires rhs.rinto_req(),
    ensures res.is_some() <==> in_SpanMonths(x.val + rhs.rinto_spec().val), res.is_some() ==> res.unwrap().val == x.val + rhs.rinto_spec().val
{ unimplemented!() }
#[verifier::external_body]
pub fn verif_checked_sub_SpanMonths<R: RInto<ri32>>(x: ri32, rhs: R) -> (res: Option<ri32>)
    requires rhs.rinto_req(),
    ensures res.is_some() <==> in_SpanMonths(x.val - rhs.rinto_spec().val), res.is_some() ==> res.unwrap().val == x.val - rhs.rinto_spec().val
{ unimplemented!() }
#[verifier::external_body]
pub fn verif_checked_mul_SpanMonths<R: RInto<ri32>>(x: ri32, rhs: R) -> (res: Option<ri32>)
    requires rhs.rinto_req(),
    ensures res.is_some() <==> in_SpanMonths(x.val * rhs.rinto_spec().val), res.is_some() ==> res.unwrap().val == x.val * rhs.rinto_spec().val
{ unimplemented!() }
pub type SpanWeeks = ri32;
pub open spec fn SpanWeeks_MIN() -> int { -1043497 }
pub open spec fn SpanWeeks_MAX() -> int { 1043497 }
pub open spec fn in_SpanWeeks(v: int) -> bool { -1043497 <= v <= 1043497 }
#[verifier::external_body]
pub fn verif_try_rfrom_SpanWeeks_8(r: ri8) -> (res: Result<ri32, Error>)
    ensures res.is_ok() <==> in_SpanWeeks(r.val as int), res.is_ok() ==> res.unwrap().val == r.val
{ unimplemented!() }
#[verifier::external_body]
pub fn verif_try_rfrom_SpanWeeks_16(r: ri16) -> (res: Result<ri32, Error>)
    ensures res.is_ok() <==> in_SpanWeeks(r.val as int), res.is_ok() ==> res.unwrap().val == r.val
{ unimplemented!() }
#[verifier::external_body]
pub fn verif_try_rfrom_SpanWeeks_32(r: ri32) -> (res: Result<ri32, Error>)
    ensures res.is_ok() <==> in_SpanWeeks(r.val as int), res.is_ok() ==> res.unwrap().val == r.val
{ unimplemented!() }
#[verifier::external_body]
pub fn verif_try_rfrom_SpanWeeks_64(r: ri64) -> (res: Result<ri32, Error>)
    ensures res.is_ok() <==> in_SpanWeeks(r.val as int), res.is_ok() ==> res.unwrap().val == r.val
{ unimplemented!() }
#[verifier::external_body]
pub fn verif_try_rfrom_SpanWeeks_128(r: ri128) -> (res: Result<ri32, Error>)
    ensures res.is_ok() <==> in_SpanWeeks(r.val as int), res.is_ok() ==> res.unwrap().val == r.val
{ unimplemented!() }
#[verifier::external_body]
pub fn verif_try_new_SpanWeeks(v: i64) -> (res: Result<ri32, Error>)
    ensures res.is_ok() <==> in_SpanWeeks(v as int), res.is_ok() ==> res.unwrap().val == v
{ unimplemented!() }
#[verifier::external_body]
pub fn verif_try_new128_SpanWeeks(v: i128) -> (res: Result<ri32, Error>)
    ensures res.is_ok() <==> in_SpanWeeks(v as int), res.is_ok() ==> res.unwrap().val == v
{ unimplemented!() }
// `SpanWeeks::MIN` / `SpanWeeks::MAX` (associated consts of type i128)
pub fn verif_MIN_SpanWeeks() -> (r: i128) ensures r == SpanWeeks_MIN() { -1043497 }
pub fn verif_MAX_SpanWeeks() -> (r: i128) ensures r == SpanWeeks_MAX() { 1043497 }
// `x.try_checked_mul("what", rhs)` with x: SpanWeeks -- Ok iff the exact product lies within SpanWeeks::MIN..=MAX
#[verifier::external_body]
pub fn verif_try_checked_mul_SpanWeeks<R: RInto<ri32>>(x: ri32, rhs: R) -> (res: Result<ri32, Error>)
    requires rhs.rinto_req(),
    ensures res.is_ok() <==> in_SpanWeeks(x.val * rhs.rinto_spec().val), res.is_ok() ==> res.unwrap().val == x.val * rhs.rinto_spec().val
{ unimplemented!() }
// `x.try_checked_add/sub("what", rhs)` and `x.checked_add/sub/mul(rhs)` with x: SpanWeeks -- fail iff the exact result leaves SpanWeeks::MIN..=MAX
#[verifier::external_body]
pub fn verif_try_checked_add_SpanWeeks<R: RInto<ri32>>(x: ri32, rhs: R) -> (res: Result<ri32, Error>)
    requires rhs.rinto_req(),
    ensures res.is_ok() <==> in_SpanWeeks(x.val + rhs.rinto_spec().val), res.is_ok() ==> res.unwrap().val == x.val + rhs.rinto_spec().val
{ unimplemented!() }
#[verifier::external_body]
pub fn verif_try_checked_sub_SpanWeeks<R: RInto<ri32>>(x: ri32, rhs: R) -> (res: Result<ri32, Error>)
    requires rhs.rinto_req(),
    ensures res.is_ok() <==> in_SpanWeeks(x.val - rhs.rinto_spec().val), res.is_ok() ==> res.unwrap().val == x.val - rhs.rinto_spec().val
{ unimplemented!() }
#[verifier::external_body]
pub fn verif_checked_add_SpanWeeks<R: RInto<ri32>>(x: ri32, rhs: R) -> (res: Option<ri32>)
    requires rhs.rinto_req(),
    ensures res.is_some() <==> in_SpanWeeks(x.val + rhs.rinto_spec().val), res.is_some() ==> res.unwrap().val == x.val + rhs.rinto_spec().val
{ unimplemented!() }
#[verifier::external_body]
pub fn verif_checked_sub_SpanWeeks<R: RInto<ri32>>(x: ri32, rhs: R) -> (res: Option<ri32>)
    requires rhs.rinto_req(),
    ensures res.is_some() <==> in_SpanWeeks(x.val - rhs.rinto_spec().val), res.is_some() ==> res.unwrap().val == x.val - rhs.rinto_spec().val
{ unimplemented!() }
#[verifier::external_body]
pub fn verif_checked_mul_SpanWeeks<R: RInto<ri32>>(x: ri32, rhs: R) -> (res: Option<ri32>)
    requires rhs.rinto_req(),
    ensures res.is_some() <==> in_SpanWeeks(x.val * rhs.rinto_spec().val), res.is_some() ==> res.unwrap().val == x.val * rhs.rinto_spec().val
{ unimplemented!() }
pub type SpanDays = ri32;
pub open spec fn SpanDays_MIN() -> int { -7304484 }
pub open spec fn SpanDays_MAX() -> int { 7304484 }
pub open spec fn in_SpanDays(v: int) -> bool { -7304484 <= v <= 7304484 }
#[verifier::external_body]
pub fn verif_try_rfrom_SpanDays_8(r: ri8) -> (res: Result<ri32, Error>)
    ensures res.is_ok() <==> in_SpanDays(r.val as int), res.is_ok() ==> res.unwrap().val == r.val
{ unimplemented!() }
#[verifier::external_body]
pub fn verif_try_rfrom_SpanDays_16(r: ri16) -> (res: Result<ri32, Error>)
    ensures res.is_ok() <==> in_SpanDays(r.val as int), res.is_ok() ==> res.unwrap().val == r.val
{ unimplemented!() }
#[verifier::external_body]
pub fn verif_try_rfrom_SpanDays_32(r: ri32) -> (res: Result<ri32, Error>)
    ensures res.is_ok() <==> in_SpanDays(r.val as int), res.is_ok() ==> res.unwrap().val == r.val
{ unimplemented!() }
#[verifier::external_body]
pub fn verif_try_rfrom_SpanDays_64(r: ri64) -> (res: Result<ri32, Error>)
    ensures res.is_ok() <==> in_SpanDays(r.val as int), res.is_ok() ==> res.unwrap().val == r.val
{ unimplemented!() }
#[verifier::external_body]
pub fn verif_try_rfrom_SpanDays_128(r: ri128) -> (res: Result<ri32, Error>)
    ensures res.is_ok() <==> in_SpanDays(r.val as int), res.is_ok() ==> res.unwrap().val == r.val
{ unimplemented!() }
#[verifier::external_body]
pub fn verif_try_new_SpanDays(v: i64) -> (res: Result<ri32, Error>)
    ensures res.is_ok() <==> in_SpanDays(v as int), res.is_ok() ==> res.unwrap().val == v
{ unimplemented!() }
#[verifier::external_body]
pub fn verif_try_new128_SpanDays(v: i128) -> (res: Result<ri32, Error>)
    ensures res.is_ok() <==> in_SpanDays(v as int), res.is_ok() ==> res.unwrap().val == v
{ unimplemented!() }
// `SpanDays::MIN` / `SpanDays::MAX` (associated consts of type i128)
pub fn verif_MIN_SpanDays() -> (r: i128) ensures r == SpanDays_MIN() { -7304484 }
pub fn verif_MAX_SpanDays() -> (r: i128) ensures r == SpanDays_MAX() { 7304484 }
// `x.try_checked_mul("what", rhs)` with x: SpanDays -- Ok iff the exact product lies within SpanDays::MIN..=MAX
#[verifier::external_body]
pub fn verif_try_checked_mul_SpanDays<R: RInto<ri32>>(x: ri32, rhs: R) -> (res: Result<ri32, Error>)
    requires rhs.rinto_req(),
    ensures res.is_ok() <==> in_SpanDays(x.val * rhs.rinto_spec().val), res.is_ok() ==> res.unwrap().val == x.val * rhs.rinto_spec().val
{ unimplemented!() }
// `x.try_checked_add/sub("what", rhs)` and `x.checked_add/sub/mul(rhs)` with x: SpanDays -- fail iff the exact result leaves SpanDays::MIN..=MAX
#[verifier::external_body]
pub fn verif_try_checked_add_SpanDays<R: RInto<ri32>>(x: ri32, rhs: R) -> (res: Result<ri32, Error>)
    requires rhs.rinto_req(),
    ensures res.is_ok() <==> in_SpanDays(x.val + rhs.rinto_spec().val), res.is_ok() ==> res.unwrap().val == x.val + rhs.rinto_spec().val
{ unimplemented!() }
#[verifier::external_body]
pub fn verif_try_checked_sub_SpanDays<R: RInto<ri32>>(x: ri32, rhs: R) -> (res: Result<ri32, Error>)
    requires rhs.rinto_req(),
    ensures res.is_ok() <==> in_SpanDays(x.val - rhs.rinto_spec().val), res.is_ok() ==> res.unwrap().val == x.val - rhs.rinto_spec().val
{ unimplemented!() }
#[verifier::external_body]
pub fn verif_checked_add_SpanDays<R: RInto<ri32>>(x: ri32, rhs: R) -> (res: Option<ri32>)
    requires rhs.rinto_req(),
    ensures res.is_some() <==> in_SpanDays(x.val + rhs.rinto_spec().val), res.is_some() ==> res.unwrap().val == x.val + rhs.rinto_spec().val
{ unimplemented!() }
#[verifier::external_body]
pub fn verif_checked_sub_SpanDays<R: RInto<ri32>>(x: ri32, rhs: R) -> (res: Option<ri32>)
    requires rhs.rinto_req(),
    ensures res.is_some() <==> in_SpanDays(x.val - rhs.rinto_spec().val), res.is_some() ==> res.unwrap().val == x.val - rhs.rinto_spec().val
{ unimplemented!() }
#[verifier::external_body]
pub fn verif_checked_mul_SpanDays<R: RInto<ri32>>(x: ri32, rhs: R) -> (res: Option<ri32>)
    requires rhs.rinto_req(),
    ensures res.is_some() <==> in_SpanDays(x.val * rhs.rinto_spec().val), res.is_some() ==> res.unwrap().val == x.val * rhs.rinto_spec().val
{ unimplemented!() }
pub type SpanHours = ri32;
pub open spec fn SpanHours_MIN() -> int { -175307616 }
pub open spec fn SpanHours_MAX() -> int { 175307616 }
pub open spec fn in_SpanHours(v: int) -> bool { -175307616 <= v <= 175307616 }
#[verifier::external_body]
pub fn verif_try_rfrom_SpanHours_8(r: ri8) -> (res: Result<ri32, Error>)
    ensures res.is_ok() <==> in_SpanHours(r.val as int), res.is_ok() ==> res.unwrap().val == r.val
{ unimplemented!() }
#[verifier::external_body]
pub fn verif_try_rfrom_SpanHours_16(r: ri16) -> (res: Result<ri32, Error>)
    ensures res.is_ok() <==> in_SpanHours(r.val as int), res.is_ok() ==> res.unwrap().val == r.val
{ unimplemented!() }
#[verifier::external_body]
pub fn verif_try_rfrom_SpanHours_32(r: ri32) -> (res: Result<ri32, Error>)
    ensures res.is_ok() <==> in_SpanHours(r.val as int), res.is_ok() ==> res.unwrap().val == r.val
{ unimplemented!() }
#[verifier::external_body]
pub fn verif_try_rfrom_SpanHours_64(r: ri64) -> (res: Result<ri32, Error>)
    ensures res.is_ok() <==> in_SpanHours(r.val as int), res.is_ok() ==> res.unwrap().val == r.val
{ unimplemented!() }
#[verifier::external_body]
pub fn verif_try_rfrom_SpanHours_128(r: ri128) -> (res: Result<ri32, Error>)
    ensures res.is_ok() <==> in_SpanHours(r.val as int), res.is_ok() ==> res.unwrap().val == r.val
{ unimplemented!() }
#[verifier::external_body]
pub fn verif_try_new_SpanHours(v: i64) -> (res: Result<ri32, Error>)
    ensures res.is_ok() <==> in_SpanHours(v as int), res.is_ok() ==> res.unwrap().val == v
{ unimplemented!() }
#[verifier::external_body]
pub fn verif_try_new128_SpanHours(v: i128) -> (res: Result<ri32, Error>)
    ensures res.is_ok() <==> in_SpanHours(v as int), res.is_ok() ==> res.unwrap().val == v
{ unimplemented!() }
// `SpanHours::MIN` / `SpanHours::MAX` (associated consts of type i128)
pub fn verif_MIN_SpanHours() -> (r: i128) ensures r == SpanHours_MIN() { -175307616 }
pub fn verif_MAX_SpanHours() -> (r: i128) ensures r == SpanHours_MAX() { 175307616 }
// `x.try_checked_mul("what", rhs)` with x: SpanHours -- Ok iff the exact product lies within SpanHours::MIN..=MAX
#[verifier::external_body]
pub fn verif_try_checked_mul_SpanHours<R: RInto<ri32>>(x: ri32, rhs: R) -> (res: Result<ri32, Error>)
    requires rhs.rinto_req(),
    ensures res.is_ok() <==> in_SpanHours(x.val * rhs.rinto_spec().val), res.is_ok() ==> res.unwrap().val == x.val * rhs.rinto_spec().val
{ unimplemented!() }
// `x.try_checked_add/sub("what", rhs)` and `x.checked_add/sub/mul(rhs)` with x: SpanHours -- fail iff the exact result leaves SpanHours::MIN..=MAX
#[verifier::external_body]
pub fn verif_try_checked_add_SpanHours<R: RInto<ri32>>(x: ri32, rhs: R) -> (res: Result<ri32, Error>)
    requires rhs.rinto_req(),
    ensures res.is_ok() <==> in_SpanHours(x.val + rhs.rinto_spec().val), res.is_ok() ==> res.unwrap().val == x.val + rhs.rinto_spec().val
{ unimplemented!() }
#[verifier::external_body]
pub fn verif_try_checked_sub_SpanHours<R: RInto<ri32>>(x: ri32, rhs: R) -> (res: Result<ri32, Error>)
    requires rhs.rinto_req(),
    ensures res.is_ok() <==> in_SpanHours(x.val - rhs.rinto_spec().val), res.is_ok() ==> res.unwrap().val == x.val - rhs.rinto_spec().val
{ unimplemented!() }
#[verifier::external_body]
pub fn verif_checked_add_SpanHours<R: RInto<ri32>>(x: ri32, rhs: R) -> (res: Option<ri32>)
    requires rhs.rinto_req(),
    ensures res.is_some() <==> in_SpanHours(x.val + rhs.rinto_spec().val), res.is_some() ==> res.unwrap().val == x.val + rhs.rinto_spec().val
{ unimplemented!() }
#[verifier::external_body]
pub fn verif_checked_sub_SpanHours<R: RInto<ri32>>(x: ri32, rhs: R) -> (res: Option<ri32>)
    requires rhs.rinto_req(),
    ensures res.is_some() <==> in_SpanHours(x.val - rhs.rinto_spec().val), res.is_some() ==> res.unwrap().val == x.val - rhs.rinto_spec().val
{ unimplemented!() }
#[verifier::external_body]
pub fn verif_checked_mul_SpanHours<R: RInto<ri32>>(x: ri32, rhs: R) -> (res: Option<ri32>)
    requires rhs.rinto_req(),
    ensures res.is_some() <==> in_SpanHours(x.val * rhs.rinto_spec().val), res.is_some() ==> res.unwrap().val == x.val * rhs.rinto_spec().val
{ unimplemented!() }
pub type SpanMinutes = ri64;
pub open spec fn SpanMinutes_MIN() -> int { -10518456960 }
pub open spec fn SpanMinutes_MAX() -> int { 10518456960 }
pub open spec fn in_SpanMinutes(v: int) -> bool { -10518456960 <= v <= 10518456960 }
#[verifier::external_body]
pub fn verif_try_rfrom_SpanMinutes_8(r: ri8) -> (res: Result<ri64, Error>)
    ensures res.is_ok() <==> in_SpanMinutes(r.val as int), res.is_ok() ==> res.unwrap().val == r.val
{ unimplemented!() }
#[verifier::external_body]
pub fn verif_try_rfrom_SpanMinutes_16(r: ri16) -> (res: Result<ri64, Error>)
    ensures res.is_ok() <==> in_SpanMinutes(r.val as int), res.is_ok() ==> res.unwrap().val == r.val
{ unimplemented!() }
#[verifier::external_body]
pub fn verif_try_rfrom_SpanMinutes_32(r: ri32) -> (res: Result<ri64, Error>)
    ensures res.is_ok() <==> in_SpanMinutes(r.val as int), res.is_ok() ==> res.unwrap().val == r.val
{ unimplemented!() }
#[verifier::external_body]
pub fn verif_try_rfrom_SpanMinutes_64(r: ri64) -> (res: Result<ri64, Error>)
    ensures res.is_ok() <==> in_SpanMinutes(r.val as int), res.is_ok() ==> res.unwrap().val == r.val
{ unimplemented!() }
#[verifier::external_body]
pub fn verif_try_rfrom_SpanMinutes_128(r: ri128) -> (res: Result<ri64, Error>)
    ensures res.is_ok() <==> in_SpanMinutes(r.val as int), res.is_ok() ==> res.unwrap().val == r.val
{ unimplemented!() }
#[verifier::external_body]
pub fn verif_try_new_SpanMinutes(v: i64) -> (res: Result<ri64, Error>)
    ensures res.is_ok() <==> in_SpanMinutes(v as int), res.is_ok() ==> res.unwrap().val == v
{ unimplemented!() }
#[verifier::external_body]
pub fn verif_try_new128_SpanMinutes(v: i128) -> (res: Result<ri64, Error>)
    ensures res.is_ok() <==> in_SpanMinutes(v as int), res.is_ok() ==> res.unwrap().val == v
{ unimplemented!() }
// `SpanMinutes::MIN` / `SpanMinutes::MAX` (associated consts of type i128)
pub fn verif_MIN_SpanMinutes() -> (r: i128) ensures r == SpanMinutes_MIN() { -10518456960 }
pub fn verif_MAX_SpanMinutes() -> (r: i128) ensures r == SpanMinutes_MAX() { 10518456960 }
// `x.try_checked_mul("what", rhs)` with x: SpanMinutes -- Ok iff the exact product lies within SpanMinutes::MIN..=MAX
#[verifier::external_body]
pub fn verif_try_checked_mul_SpanMinutes<R: RInto<ri64>>(x: ri64, rhs: R) -> (res: Result<ri64, Error>)
    requires rhs.rinto_req(),
    ensures res.is_ok() <==> in_SpanMinutes(x.val * rhs.rinto_spec().val), res.is_ok() ==> res.unwrap().val == x.val * rhs.rinto_spec().val
{ unimplemented!() }
// `x.try_checked_add/sub("what", rhs)` and `x.checked_add/sub/mul(rhs)` with x: SpanMinutes -- fail iff the exact result leaves SpanMinutes::MIN..=MAX
#[verifier::external_body]
pub fn verif_try_checked_add_SpanMinutes<R: RInto<ri64>>(x: ri64, rhs: R) -> (res: Result<ri64, Error>)
    requires rhs.rinto_req(),
    ensures res.is_ok() <==> in_SpanMinutes(x.val + rhs.rinto_spec().val), res.is_ok() ==> res.unwrap().val == x.val + rhs.rinto_spec().val
{ unimplemented!() }
#[verifier::external_body]
pub fn verif_try_checked_sub_SpanMinutes<R: RInto<ri64>>(x: ri64, rhs: R) -> (res: Result<ri64, Error>)
    requires rhs.rinto_req(),
    ensures res.is_ok() <==> in_SpanMinutes(x.val - rhs.rinto_spec().val), res.is_ok() ==> res.unwrap().val == x.val - rhs.rinto_spec().val
{ unimplemented!() }
#[verifier::external_body]
pub fn verif_checked_add_SpanMinutes<R: RInto<ri64>>(x: ri64, rhs: R) -> (res: Option<ri64>)
    requires rhs.rinto_req(),
    ensures res.is_some() <==> in_SpanMinutes(x.val + rhs.rinto_spec().val), res.is_some() ==> res.unwrap().val == x.val + rhs.rinto_spec().val
{ unimplemented!() }
#[verifier::external_body]
pub fn verif_checked_sub_SpanMinutes<R: RInto<ri64>>(x: ri64, rhs: R) -> (res: Option<ri64>)
    requires rhs.rinto_req(),
    ensures res.is_some() <==> in_SpanMinutes(x.val - rhs.rinto_spec().val), res.is_some() ==> res.unwrap().val == x.val - rhs.rinto_spec().val
{ unimplemented!() }
#[verifier::external_body]
pub fn verif_checked_mul_SpanMinutes<R: RInto<ri64>>(x: ri64, rhs: R) -> (res: Option<ri64>)
    requires rhs.rinto_req(),
    ensures res.is_some() <==> in_SpanMinutes(x.val * rhs.rinto_spec().val), res.is_some() ==> res.unwrap().val == x.val * rhs.rinto_spec().val
{ unimplemented!() }
pub type SpanSeconds = ri64;
pub open spec fn SpanSeconds_MIN() -> int { -631107417600 }
pub open spec fn SpanSeconds_MAX() -> int { 631107417600 }
pub open spec fn in_SpanSeconds(v: int) -> bool { -631107417600 <= v <= 631107417600 }
#[verifier::external_body]
pub fn verif_try_rfrom_SpanSeconds_8(r: ri8) -> (res: Result<ri64, Error>)
    ensures res.is_ok() <==> in_SpanSeconds(r.val as int), res.is_ok() ==> res.unwrap().val == r.val
{ unimplemented!() }
#[verifier::external_body]
pub fn verif_try_rfrom_SpanSeconds_16(r: ri16) -> (res: Result<ri64, Error>)
    ensures res.is_ok() <==> in_SpanSeconds(r.val as int), res.is_ok() ==> res.unwrap().val == r.val
{ unimplemented!() }
#[verifier::external_body]
pub fn verif_try_rfrom_SpanSeconds_32(r: ri32) -> (res: Result<ri64, Error>)
    ensures res.is_ok() <==> in_SpanSeconds(r.val as int), res.is_ok() ==> res.unwrap().val == r.val
{ unimplemented!() }
#[verifier::external_body]
pub fn verif_try_rfrom_SpanSeconds_64(r: ri64) -> (res: Result<ri64, Error>)
    ensures res.is_ok() <==> in_SpanSeconds(r.val as int), res.is_ok() ==> res.unwrap().val == r.val
{ unimplemented!() }
#[verifier::external_body]
pub fn verif_try_rfrom_SpanSeconds_128(r: ri128) -> (res: Result<ri64, Error>)
    ensures res.is_ok() <==> in_SpanSeconds(r.val as int), res.is_ok() ==> res.unwrap().val == r.val
{ unimplemented!() }
#[verifier::external_body]
pub fn verif_try_new_SpanSeconds(v: i64) -> (res: Result<ri64, Error>)
    ensures res.is_ok() <==> in_SpanSeconds(v as int), res.is_ok() ==> res.unwrap().val == v
{ unimplemented!() }
#[verifier::external_body]
pub fn verif_try_new128_SpanSeconds(v: i128) -> (res: Result<ri64, Error>)
    ensures res.is_ok() <==> in_SpanSeconds(v as int), res.is_ok() ==> res.unwrap().val == v
{ unimplemented!() }
// `SpanSeconds::MIN` / `SpanSeconds::MAX` (associated consts of type i128)
pub fn verif_MIN_SpanSeconds() -> (r: i128) ensures r == SpanSeconds_MIN() { -631107417600 }
pub fn verif_MAX_SpanSeconds() -> (r: i128) ensures r == SpanSeconds_MAX() { 631107417600 }
// `x.try_checked_mul("what", rhs)` with x: SpanSeconds -- Ok iff the exact product lies within SpanSeconds::MIN..=MAX
#[verifier::external_body]
pub fn verif_try_checked_mul_SpanSeconds<R: RInto<ri64>>(x: ri64, rhs: R) -> (res: Result<ri64, Error>)
    requires rhs.rinto_req(),
    ensures res.is_ok() <==> in_SpanSeconds(x.val * rhs.rinto_spec().val), res.is_ok() ==> res.unwrap().val == x.val * rhs.rinto_spec().val
{ unimplemented!() }
// `x.try_checked_add/sub("what", rhs)` and `x.checked_add/sub/mul(rhs)` with x: SpanSeconds -- fail iff the exact result leaves SpanSeconds::MIN..=MAX
#[verifier::external_body]
pub fn verif_try_checked_add_SpanSeconds<R: RInto<ri64>>(x: ri64, rhs: R) -> (res: Result<ri64, Error>)
    requires rhs.rinto_req(),
    ensures res.is_ok() <==> in_SpanSeconds(x.val + rhs.rinto_spec().val), res.is_ok() ==> res.unwrap().val == x.val + rhs.rinto_spec().val
{ unimplemented!() }
#[verifier::external_body]
pub fn verif_try_checked_sub_SpanSeconds<R: RInto<ri64>>(x: ri64, rhs: R) -> (res: Result<ri64, Error>)
    requires rhs.rinto_req(),
    ensures res.is_ok() <==> in_SpanSeconds(x.val - rhs.rinto_spec().val), res.is_ok() ==> res.unwrap().val == x.val - rhs.rinto_spec().val
{ unimplemented!() }
#[verifier::external_body]
pub fn verif_checked_add_SpanSeconds<R: RInto<ri64>>(x: ri64, rhs: R) -> (res: Option<ri64>)
    requires rhs.rinto_req(),
    ensures res.is_some() <==> in_SpanSeconds(x.val + rhs.rinto_spec().val), res.is_some() ==> res.unwrap().val == x.val + rhs.rinto_spec().val
{ unimplemented!() }
#[verifier::external_body]
pub fn verif_checked_sub_SpanSeconds<R: RInto<ri64>>(x: ri64, rhs: R) -> (res: Option<ri64>)
    requires rhs.rinto_req(),
    ensures res.is_some() <==> in_SpanSeconds(x.val - rhs.rinto_spec().val), res.is_some() ==> res.unwrap().val == x.val - rhs.rinto_spec().val
{ unimplemented!() }
#[verifier::external_body]
pub fn verif_checked_mul_SpanSeconds<R: RInto<ri64>>(x: ri64, rhs: R) -> (res: Option<ri64>)
    requires rhs.rinto_req(),
    ensures res.is_some() <==> in_SpanSeconds(x.val * rhs.rinto_spec().val), res.is_some() ==> res.unwrap().val == x.val * rhs.rinto_spec().val
{ unimplemented!() }
pub type SpanMilliseconds = ri64;
pub open spec fn SpanMilliseconds_MIN() -> int { -631107417600000 }
pub open spec fn SpanMilliseconds_MAX() -> int { 631107417600000 }
pub open spec fn in_SpanMilliseconds(v: int) -> bool { -631107417600000 <= v <= 631107417600000 }
#[verifier::external_body]
pub fn verif_try_rfrom_SpanMilliseconds_8(r: ri8) -> (res: Result<ri64, Error>)
    ensures res.is_ok() <==> in_SpanMilliseconds(r.val as int), res.is_ok() ==> res.unwrap().val == r.val
{ unimplemented!() }
#[verifier::external_body]
pub fn verif_try_rfrom_SpanMilliseconds_16(r: ri16) -> (res: Result<ri64, Error>)
    ensures res.is_ok() <==> in_SpanMilliseconds(r.val as int), res.is_ok() ==> res.unwrap().val == r.val
{ unimplemented!() }
#[verifier::external_body]
pub fn verif_try_rfrom_SpanMilliseconds_32(r: ri32) -> (res: Result<ri64, Error>)
    ensures res.is_ok() <==> in_SpanMilliseconds(r.val as int), res.is_ok() ==> res.unwrap().val == r.val
{ unimplemented!() }
#[verifier::external_body]
pub fn verif_try_rfrom_SpanMilliseconds_64(r: ri64) -> (res: Result<ri64, Error>)
    ensures res.is_ok() <==> in_SpanMilliseconds(r.val as int), res.is_ok() ==> res.unwrap().val == r.val
{ unimplemented!() }
#[verifier::external_body]
pub fn verif_try_rfrom_SpanMilliseconds_128(r: ri128) -> (res: Result<ri64, Error>)
    ensures res.is_ok() <==> in_SpanMilliseconds(r.val as int), res.is_ok() ==> res.unwrap().val == r.val
{ unimplemented!() }
#[verifier::external_body]
pub fn verif_try_new_SpanMilliseconds(v: i64) -> (res: Result<ri64, Error>)
    ensures res.is_ok() <==> in_SpanMilliseconds(v as int), res.is_ok() ==> res.unwrap().val == v
{ unimplemented!() }
#[verifier::external_body]
pub fn verif_try_new128_SpanMilliseconds(v: i128) -> (res: Result<ri64, Error>)
    ensures res.is_ok() <==> in_SpanMilliseconds(v as int), res.is_ok() ==> res.unwrap().val == v
{ unimplemented!() }
// `SpanMilliseconds::MIN` / `SpanMilliseconds::MAX` (associated consts of type i128)
pub fn verif_MIN_SpanMilliseconds() -> (r: i128) ensures r == SpanMilliseconds_MIN() { -631107417600000 }
pub fn verif_MAX_SpanMilliseconds() -> (r: i128) ensures r == SpanMilliseconds_MAX() { 631107417600000 }
// `x.try_checked_mul("what", rhs)` with x: SpanMilliseconds -- Ok iff the exact product lies within SpanMilliseconds::MIN..=MAX
#[verifier::external_body]
pub fn verif_try_checked_mul_SpanMilliseconds<R: RInto<ri64>>(x: ri64, rhs: R) -> (res: Result<ri64, Error>)
    requires rhs.rinto_req(),
    ensures res.is_ok() <==> in_SpanMilliseconds(x.val * rhs.rinto_spec().val), res.is_ok() ==> res.unwrap().val == x.val * rhs.rinto_spec().val
{ unimplemented!() }
// `x.try_checked_add/sub("what", rhs)` and `x.checked_add/sub/mul(rhs)` with x: SpanMilliseconds -- fail iff the exact result leaves SpanMilliseconds::MIN..=MAX
#[verifier::external_body]
pub fn verif_try_checked_add_SpanMilliseconds<R: RInto<ri64>>(x: ri64, rhs: R) -> (res: Result<ri64, Error>)
    requires rhs.rinto_req(),
    ensures res.is_ok() <==> in_SpanMilliseconds(x.val + rhs.rinto_spec().val), res.is_ok() ==> res.unwrap().val == x.val + rhs.rinto_spec().val
{ unimplemented!() }
#[verifier::external_body]
pub fn verif_try_checked_sub_SpanMilliseconds<R: RInto<ri64>>(x: ri64, rhs: R) -> (res: Result<ri64, Error>)
    requires rhs.rinto_req(),
    ensures res.is_ok() <==> in_SpanMilliseconds(x.val - rhs.rinto_spec().val), res.is_ok() ==> res.unwrap().val == x.val - rhs.rinto_spec().val
{ unimplemented!() }
#[verifier::external_body]
pub fn verif_checked_add_SpanMilliseconds<R: RInto<ri64>>(x: ri64, rhs: R) -> (res: Option<ri64>)
    requires rhs.rinto_req(),
    ensures res.is_some() <==> in_SpanMilliseconds(x.val + rhs.rinto_spec().val), res.is_some() ==> res.unwrap().val == x.val + rhs.rinto_spec().val
{ unimplemented!() }
#[verifier::external_body]
pub fn verif_checked_sub_SpanMilliseconds<R: RInto<ri64>>(x: ri64, rhs: R) -> (res: Option<ri64>)
    requires rhs.rinto_req(),
    ensures res.is_some() <==> in_SpanMilliseconds(x.val - rhs.rinto_spec().val), res.is_some() ==> res.unwrap().val == x.val - rhs.rinto_spec().val
{ unimplemented!() }
#[verifier::external_body]
pub fn verif_checked_mul_SpanMilliseconds<R: RInto<ri64>>(x: ri64, rhs: R) -> (res: Option<ri64>)
    requires rhs.rinto_req(),
    ensures res.is_some() <==> in_SpanMilliseconds(x.val * rhs.rinto_spec().val), res.is_some() ==> res.unwrap().val == x.val * rhs.rinto_spec().val
{ unimplemented!() }
pub type SpanMicroseconds = ri64;
pub open spec fn SpanMicroseconds_MIN() -> int { -631107417600000000 }
pub open spec fn SpanMicroseconds_MAX() -> int { 631107417600000000 }
pub open spec fn in_SpanMicroseconds(v: int) -> bool { -631107417600000000 <= v <= 631107417600000000 }
#[verifier::external_body]
pub fn verif_try_rfrom_SpanMicroseconds_8(r: ri8) -> (res: Result<ri64, Error>)
    ensures res.is_ok() <==> in_SpanMicroseconds(r.val as int), res.is_ok() ==> res.unwrap().val == r.val
{ unimplemented!() }
#[verifier::external_body]
pub fn verif_try_rfrom_SpanMicroseconds_16(r: ri16) -> (res: Result<ri64, Error>)
    ensures res.is_ok() <==> in_SpanMicroseconds(r.val as int), res.is_ok() ==> res.unwrap().val == r.val
{ unimplemented!() }
#[verifier::external_body]
pub fn verif_try_rfrom_SpanMicroseconds_32(r: ri32) -> (res: Result<ri64, Error>)
    ensures res.is_ok() <==> in_SpanMicroseconds(r.val as int), res.is_ok() ==> res.unwrap().val == r.val
{ unimplemented!() }
#[verifier::external_body]
pub fn verif_try_rfrom_SpanMicroseconds_64(r: ri64) -> (res: Result<ri64, Error>)
    ensures res.is_ok() <==> in_SpanMicroseconds(r.val as int), res.is_ok() ==> res.unwrap().val == r.val
{ unimplemented!() }
#[verifier::external_body]
pub fn verif_try_rfrom_SpanMicroseconds_128(r: ri128) -> (res: Result<ri64, Error>)
    ensures res.is_ok() <==> in_SpanMicroseconds(r.val as int), res.is_ok() ==> res.unwrap().val == r.val
{ unimplemented!() }
#[verifier::external_body]
pub fn verif_try_new_SpanMicroseconds(v: i64) -> (res: Result<ri64, Error>)
    ensures res.is_ok() <==> in_SpanMicroseconds(v as int), res.is_ok() ==> res.unwrap().val == v
{ unimplemented!() }
#[verifier::external_body]
pub fn verif_try_new128_SpanMicroseconds(v: i128) -> (res: Result<ri64, Error>)
    ensures res.is_ok() <==> in_SpanMicroseconds(v as int), res.is_ok() ==> res.unwrap().val == v
{ unimplemented!() }
// `SpanMicroseconds::MIN` / `SpanMicroseconds::MAX` (associated consts of type i128)
pub fn verif_MIN_SpanMicroseconds() -> (r: i128) ensures r == SpanMicroseconds_MIN() { -631107417600000000 }
pub fn verif_MAX_SpanMicroseconds() -> (r: i128) ensures r == SpanMicroseconds_MAX() { 631107417600000000 }
// `x.try_checked_mul("what", rhs)` with x: SpanMicroseconds -- Ok iff the exact product lies within SpanMicroseconds::MIN..=MAX
#[verifier::external_body]
pub fn verif_try_checked_mul_SpanMicroseconds<R: RInto<ri64>>(x: ri64, rhs: R) -> (res: Result<ri64, Error>)
    requires rhs.rinto_req(),
    ensures res.is_ok() <==> in_SpanMicroseconds(x.val * rhs.rinto_spec().val), res.is_ok() ==> res.unwrap().val == x.val * rhs.rinto_spec().val
{ unimplemented!() }
// `x.try_checked_add/sub("what", rhs)` and `x.checked_add/sub/mul(rhs)` with x: SpanMicroseconds -- fail iff the exact result leaves SpanMicroseconds::MIN..=MAX
#[verifier::external_body]
pub fn verif_try_checked_add_SpanMicroseconds<R: RInto<ri64>>(x: ri64, rhs: R) -> (res: Result<ri64, Error>)
    requires rhs.rinto_req(),
    ensures res.is_ok() <==> in_SpanMicroseconds(x.val + rhs.rinto_spec().val), res.is_ok() ==> res.unwrap().val == x.val + rhs.rinto_spec().val
{ unimplemented!() }
#[verifier::external_body]
pub fn verif_try_checked_sub_SpanMicroseconds<R: RInto<ri64>>(x: ri64, rhs: R) -> (res: Result<ri64, Error>)
    requires rhs.rinto_req(),
    ensures res.is_ok() <==> in_SpanMicroseconds(x.val - rhs.rinto_spec().val), res.is_ok() ==> res.unwrap().val == x.val - rhs.rinto_spec().val
{ unimplemented!() }
#[verifier::external_body]
pub fn verif_checked_add_SpanMicroseconds<R: RInto<ri64>>(x: ri64, rhs: R) -> (res: Option<ri64>)
    requires rhs.rinto_req(),
    ensures res.is_some() <==> in_SpanMicroseconds(x.val + rhs.rinto_spec().val), res.is_some() ==> res.unwrap().val == x.val + rhs.rinto_spec().val
{ unimplemented!() }
#[verifier::external_body]
pub fn verif_checked_sub_SpanMicroseconds<R: RInto<ri64>>(x: ri64, rhs: R) -> (res: Option<ri64>)
    requires rhs.rinto_req(),
    ensures res.is_some() <==> in_SpanMicroseconds(x.val - rhs.rinto_spec().val), res.is_some() ==> res.unwrap().val == x.val - rhs.rinto_spec().val
{ unimplemented!() }
#[verifier::external_body]
pub fn verif_checked_mul_SpanMicroseconds<R: RInto<ri64>>(x: ri64, rhs: R) -> (res: Option<ri64>)
    requires rhs.rinto_req(),
    ensures res.is_some() <==> in_SpanMicroseconds(x.val * rhs.rinto_spec().val), res.is_some() ==> res.unwrap().val == x.val * rhs.rinto_spec().val
{ unimplemented!() }
pub type SpanNanoseconds = ri64;
pub open spec fn SpanNanoseconds_MIN() -> int { -9223372036854775807 }
pub open spec fn SpanNanoseconds_MAX() -> int { 9223372036854775807 }
pub open spec fn in_SpanNanoseconds(v: int) -> bool { -9223372036854775807 <= v <= 9223372036854775807 }
#[verifier::external_body]
pub fn verif_try_rfrom_SpanNanoseconds_8(r: ri8) -> (res: Result<ri64, Error>)
    ensures res.is_ok() <==> in_SpanNanoseconds(r.val as int), res.is_ok() ==> res.unwrap().val == r.val
{ unimplemented!() }
#[verifier::external_body]
pub fn verif_try_rfrom_SpanNanoseconds_16(r: ri16) -> (res: Result<ri64, Error>)
    ensures res.is_ok() <==> in_SpanNanoseconds(r.val as int), res.is_ok() ==> res.unwrap().val == r.val
{ unimplemented!() }
#[verifier::external_body]
pub fn verif_try_rfrom_SpanNanoseconds_32(r: ri32) -> (res: Result<ri64, Error>)
    ensures res.is_ok() <==> in_SpanNanoseconds(r.val as int), res.is_ok() ==> res.unwrap().val == r.val
{ unimplemented!() }
#[verifier::external_body]
pub fn verif_try_rfrom_SpanNanoseconds_64(r: ri64) -> (res: Result<ri64, Error>)
    ensures res.is_ok() <==> in_SpanNanoseconds(r.val as int), res.is_ok() ==> res.unwrap().val == r.val
{ unimplemented!() }
#[verifier::external_body]
pub fn verif_try_rfrom_SpanNanoseconds_128(r: ri128) -> (res: Result<ri64, Error>)
    ensures res.is_ok() <==> in_SpanNanoseconds(r.val as int), res.is_ok() ==> res.unwrap().val == r.val
{ unimplemented!() }
#[verifier::external_body]
pub fn verif_try_new_SpanNanoseconds(v: i64) -> (res: Result<ri64, Error>)
    ensures res.is_ok() <==> in_SpanNanoseconds(v as int), res.is_ok() ==> res.unwrap().val == v
{ unimplemented!() }
#[verifier::external_body]
pub fn verif_try_new128_SpanNanoseconds(v: i128) -> (res: Result<ri64, Error>)
    ensures res.is_ok() <==> in_SpanNanoseconds(v as int), res.is_ok() ==> res.unwrap().val == v
{ unimplemented!() }
// `SpanNanoseconds::MIN` / `SpanNanoseconds::MAX` (associated consts of type i128)
pub fn verif_MIN_SpanNanoseconds() -> (r: i128) ensures r == SpanNanoseconds_MIN() { -9223372036854775807 }
pub fn verif_MAX_SpanNanoseconds() -> (r: i128) ensures r == SpanNanoseconds_MAX() { 9223372036854775807 }
// `x.try_checked_mul("what", rhs)` with x: SpanNanoseconds -- Ok iff the exact product lies within SpanNanoseconds::MIN..=MAX
#[verifier::external_body]
pub fn verif_try_checked_mul_SpanNanoseconds<R: RInto<ri64>>(x: ri64, rhs: R) -> (res: Result<ri64, Error>)
    requires rhs.rinto_req(),
    ensures res.is_ok() <==> in_SpanNanoseconds(x.val * rhs.rinto_spec().val), res.is_ok() ==> res.unwrap().val == x.val * rhs.rinto_spec().val
{ unimplemented!() }
// `x.try_checked_add/sub("what", rhs)` and `x.checked_add/sub/mul(rhs)` with x: SpanNanoseconds -- fail iff the exact result leaves SpanNanoseconds::MIN..=MAX
#[verifier::external_body]
pub fn verif_try_checked_add_SpanNanoseconds<R: RInto<ri64>>(x: ri64, rhs: R) -> (res: Result<ri64, Error>)
    requires rhs.rinto_req(),
    ensures res.is_ok() <==> in_SpanNanoseconds(x.val + rhs.rinto_spec().val), res.is_ok() ==> res.unwrap().val == x.val + rhs.rinto_spec().val
{ unimplemented!() }
#[verifier::external_body]
pub fn verif_try_checked_sub_SpanNanoseconds<R: RInto<ri64>>(x: ri64, rhs: R) -> (res: Result<ri64, Error>)
    requires rhs.rinto_req(),
    ensures res.is_ok() <==> in_SpanNanoseconds(x.val - rhs.rinto_spec().val), res.is_ok() ==> res.unwrap().val == x.val - rhs.rinto_spec().val
{ unimplemented!() }
#[verifier::external_body]
pub fn verif_checked_add_SpanNanoseconds<R: RInto<ri64>>(x: ri64, rhs: R) -> (res: Option<ri64>)
    requires rhs.rinto_req(),
    ensures res.is_some() <==> in_SpanNanoseconds(x.val + rhs.rinto_spec().val), res.is_some() ==> res.unwrap().val == x.val + rhs.rinto_spec().val
{ unimplemented!() }
#[verifier::external_body]
pub fn verif_checked_sub_SpanNanoseconds<R: RInto<ri64>>(x: ri64, rhs: R) -> (res: Option<ri64>)
    requires rhs.rinto_req(),
    ensures res.is_some() <==> in_SpanNanoseconds(x.val - rhs.rinto_spec().val), res.is_some() ==> res.unwrap().val == x.val - rhs.rinto_spec().val
{ unimplemented!() }
#[verifier::external_body]
pub fn verif_checked_mul_SpanNanoseconds<R: RInto<ri64>>(x: ri64, rhs: R) -> (res: Option<ri64>)
    requires rhs.rinto_req(),
    ensures res.is_some() <==> in_SpanNanoseconds(x.val * rhs.rinto_spec().val), res.is_some() ==> res.unwrap().val == x.val * rhs.rinto_spec().val
{ unimplemented!() }
pub type SpanZoneOffset = ri32;
pub open spec fn SpanZoneOffset_MIN() -> int { -93599 }
pub open spec fn SpanZoneOffset_MAX() -> int { 93599 }
pub open spec fn in_SpanZoneOffset(v: int) -> bool { -93599 <= v <= 93599 }
#[verifier::external_body]
pub fn verif_try_rfrom_SpanZoneOffset_8(r: ri8) -> (res: Result<ri32, Error>)
    ensures res.is_ok() <==> in_SpanZoneOffset(r.val as int), res.is_ok() ==> res.unwrap().val == r.val
{ unimplemented!() }
#[verifier::external_body]
pub fn verif_try_rfrom_SpanZoneOffset_16(r: ri16) -> (res: Result<ri32, Error>)
    ensures res.is_ok() <==> in_SpanZoneOffset(r.val as int), res.is_ok() ==> res.unwrap().val == r.val
{ unimplemented!() }
#[verifier::external_body]
pub fn verif_try_rfrom_SpanZoneOffset_32(r: ri32) -> (res: Result<ri32, Error>)
    ensures res.is_ok() <==> in_SpanZoneOffset(r.val as int), res.is_ok() ==> res.unwrap().val == r.val
{ unimplemented!() }
#[verifier::external_body]
pub fn verif_try_rfrom_SpanZoneOffset_64(r: ri64) -> (res: Result<ri32, Error>)
    ensures res.is_ok() <==> in_SpanZoneOffset(r.val as int), res.is_ok() ==> res.unwrap().val == r.val
{ unimplemented!() }
#[verifier::external_body]
pub fn verif_try_rfrom_SpanZoneOffset_128(r: ri128) -> (res: Result<ri32, Error>)
    ensures res.is_ok() <==> in_SpanZoneOffset(r.val as int), res.is_ok() ==> res.unwrap().val == r.val
{ unimplemented!() }
#[verifier::external_body]
pub fn verif_try_new_SpanZoneOffset(v: i64) -> (res: Result<ri32, Error>)
    ensures res.is_ok() <==> in_SpanZoneOffset(v as int), res.is_ok() ==> res.unwrap().val == v
{ unimplemented!() }
#[verifier::external_body]
pub fn verif_try_new128_SpanZoneOffset(v: i128) -> (res: Result<ri32, Error>)
    ensures res.is_ok() <==> in_SpanZoneOffset(v as int), res.is_ok() ==> res.unwrap().val == v
{ unimplemented!() }
// `SpanZoneOffset::MIN` / `SpanZoneOffset::MAX` (associated consts of type i128)
pub fn verif_MIN_SpanZoneOffset() -> (r: i128) ensures r == SpanZoneOffset_MIN() { -93599 }
pub fn verif_MAX_SpanZoneOffset() -> (r: i128) ensures r == SpanZoneOffset_MAX() { 93599 }
// `x.try_checked_mul("what", rhs)` with x: SpanZoneOffset -- Ok iff the exact product lies within SpanZoneOffset::MIN..=MAX
#[verifier::external_body]
pub fn verif_try_checked_mul_SpanZoneOffset<R: RInto<ri32>>(x: ri32, rhs: R) -> (res: Result<ri32, Error>)
    requires rhs.rinto_req(),
    ensures res.is_ok() <==> in_SpanZoneOffset(x.val * rhs.rinto_spec().val), res.is_ok() ==> res.unwrap().val == x.val * rhs.rinto_spec().val
{ unimplemented!() }
// `x.try_checked_add/sub("what", rhs)` and `x.checked_add/sub/mul(rhs)` with x: SpanZoneOffset -- fail iff the exact result leaves SpanZoneOffset::MIN..=MAX
#[verifier::external_body]
pub fn verif_try_checked_add_SpanZoneOffset<R: RInto<ri32>>(x: ri32, rhs: R) -> (res: Result<ri32, Error>)
    requires rhs.rinto_req(),
    ensures res.is_ok() <==> in_SpanZoneOffset(x.val + rhs.rinto_spec().val), res.is_ok() ==> res.unwrap().val == x.val + rhs.rinto_spec().val
{ unimplemented!() }
#[verifier::external_body]
pub fn verif_try_checked_sub_SpanZoneOffset<R: RInto<ri32>>(x: ri32, rhs: R) -> (res: Result<ri32, Error>)
    requires rhs.rinto_req(),
    ensures res.is_ok() <==> in_SpanZoneOffset(x.val - rhs.rinto_spec().val), res.is_ok() ==> res.unwrap().val == x.val - rhs.rinto_spec().val
{ unimplemented!() }
#[verifier::external_body]
pub fn verif_checked_add_SpanZoneOffset<R: RInto<ri32>>(x: ri32, rhs: R) -> (res: Option<ri32>)
    requires rhs.rinto_req(),
    ensures res.is_some() <==> in_SpanZoneOffset(x.val + rhs.rinto_spec().val), res.is_some() ==> res.unwrap().val == x.val + rhs.rinto_spec().val
{ unimplemented!() }
#[verifier::external_body]
pub fn verif_checked_sub_SpanZoneOffset<R: RInto<ri32>>(x: ri32, rhs: R) -> (res: Option<ri32>)
    requires rhs.rinto_req(),
    ensures res.is_some() <==> in_SpanZoneOffset(x.val - rhs.rinto_spec().val), res.is_some() ==> res.unwrap().val == x.val - rhs.rinto_spec().val
{ unimplemented!() }
#[verifier::external_body]
pub fn verif_checked_mul_SpanZoneOffset<R: RInto<ri32>>(x: ri32, rhs: R) -> (res: Option<ri32>)
    requires rhs.rinto_req(),
    ensures res.is_some() <==> in_SpanZoneOffset(x.val * rhs.rinto_spec().val), res.is_some() ==> res.unwrap().val == x.val * rhs.rinto_spec().val
{ unimplemented!() }
pub type FractionalNanosecond = ri32;
pub open spec fn FractionalNanosecond_MIN() -> int { -999999999 }
pub open spec fn FractionalNanosecond_MAX() -> int { 999999999 }
pub open spec fn in_FractionalNanosecond(v: int) -> bool { -999999999 <= v <= 999999999 }
#[verifier::external_body]
pub fn verif_try_rfrom_FractionalNanosecond_8(r: ri8) -> (res: Result<ri32, Error>)
    ensures res.is_ok() <==> in_FractionalNanosecond(r.val as int), res.is_ok() ==> res.unwrap().val == r.val
{ unimplemented!() }
#[verifier::external_body]
pub fn verif_try_rfrom_FractionalNanosecond_16(r: ri16) -> (res: Result<ri32, Error>)
    ensures res.is_ok() <==> in_FractionalNanosecond(r.val as int), res.is_ok() ==> res.unwrap().val == r.val
{ unimplemented!() }
#[verifier::external_body]
pub fn verif_try_rfrom_FractionalNanosecond_32(r: ri32) -> (res: Result<ri32, Error>)
    ensures res.is_ok() <==> in_FractionalNanosecond(r.val as int), res.is_ok() ==> res.unwrap().val == r.val
{ unimplemented!() }
#[verifier::external_body]
pub fn verif_try_rfrom_FractionalNanosecond_64(r: ri64) -> (res: Result<ri32, Error>)
    ensures res.is_ok() <==> in_FractionalNanosecond(r.val as int), res.is_ok() ==> res.unwrap().val == r.val
{ unimplemented!() }
#[verifier::external_body]
pub fn verif_try_rfrom_FractionalNanosecond_128(r: ri128) -> (res: Result<ri32, Error>)
    ensures res.is_ok() <==> in_FractionalNanosecond(r.val as int), res.is_ok() ==> res.unwrap().val == r.val
{ unimplemented!() }
#[verifier::external_body]
pub fn verif_try_new_FractionalNanosecond(v: i64) -> (res: Result<ri32, Error>)
    ensures res.is_ok() <==> in_FractionalNanosecond(v as int), res.is_ok() ==> res.unwrap().val == v
{ unimplemented!() }
#[verifier::external_body]
pub fn verif_try_new128_FractionalNanosecond(v: i128) -> (res: Result<ri32, Error>)
    ensures res.is_ok() <==> in_FractionalNanosecond(v as int), res.is_ok() ==> res.unwrap().val == v
{ unimplemented!() }
// `FractionalNanosecond::MIN` / `FractionalNanosecond::MAX` (associated consts of type i128)
pub fn verif_MIN_FractionalNanosecond() -> (r: i128) ensures r == FractionalNanosecond_MIN() { -999999999 }
pub fn verif_MAX_FractionalNanosecond() -> (r: i128) ensures r == FractionalNanosecond_MAX() { 999999999 }
// `x.try_checked_mul("what", rhs)` with x: FractionalNanosecond -- Ok iff the exact product lies within FractionalNanosecond::MIN..=MAX
#[verifier::external_body]
pub fn verif_try_checked_mul_FractionalNanosecond<R: RInto<ri32>>(x: ri32, rhs: R) -> (res: Result<ri32, Error>)
    requires rhs.rinto_req(),
    ensures res.is_ok() <==> in_FractionalNanosecond(x.val * rhs.rinto_spec().val), res.is_ok() ==> res.unwrap().val == x.val * rhs.rinto_spec().val
{ unimplemented!() }
// `x.try_checked_add/sub("what", rhs)` and `x.checked_add/sub/mul(rhs)` with x: FractionalNanosecond -- fail iff the exact result leaves FractionalNanosecond::MIN..=MAX
#[verifier::external_body]
pub fn verif_try_checked_add_FractionalNanosecond<R: RInto<ri32>>(x: ri32, rhs: R) -> (res: Result<ri32, Error>)
    requires rhs.rinto_req(),
    ensures res.is_ok() <==> in_FractionalNanosecond(x.val + rhs.rinto_spec().val), res.is_ok() ==> res.unwrap().val == x.val + rhs.rinto_spec().val
{ unimplemented!() }
#[verifier::external_body]
pub fn verif_try_checked_sub_FractionalNanosecond<R: RInto<ri32>>(x: ri32, rhs: R) -> (res: Result<ri32, Error>)
    requires rhs.rinto_req(),
    ensures res.is_ok() <==> in_FractionalNanosecond(x.val - rhs.rinto_spec().val), res.is_ok() ==> res.unwrap().val == x.val - rhs.rinto_spec().val
{ unimplemented!() }
#[verifier::external_body]
pub fn verif_checked_add_FractionalNanosecond<R: RInto<ri32>>(x: ri32, rhs: R) -> (res: Option<ri32>)
    requires rhs.rinto_req(),
    ensures res.is_some() <==> in_FractionalNanosecond(x.val + rhs.rinto_spec().val), res.is_some() ==> res.unwrap().val == x.val + rhs.rinto_spec().val
{ unimplemented!() }
#[verifier::external_body]
pub fn verif_checked_sub_FractionalNanosecond<R: RInto<ri32>>(x: ri32, rhs: R) -> (res: Option<ri32>)
    requires rhs.rinto_req(),
    ensures res.is_some() <==> in_FractionalNanosecond(x.val - rhs.rinto_spec().val), res.is_some() ==> res.unwrap().val == x.val - rhs.rinto_spec().val
{ unimplemented!() }
#[verifier::external_body]
pub fn verif_checked_mul_FractionalNanosecond<R: RInto<ri32>>(x: ri32, rhs: R) -> (res: Option<ri32>)
    requires rhs.rinto_req(),
    ensures res.is_some() <==> in_FractionalNanosecond(x.val * rhs.rinto_spec().val), res.is_some() ==> res.unwrap().val == x.val * rhs.rinto_spec().val
{ unimplemented!() }
pub type ZonedDayNanoseconds = ri64;
pub open spec fn ZonedDayNanoseconds_MIN() -> int { 1000000000 }
pub open spec fn ZonedDayNanoseconds_MAX() -> int { 604800000000000 }
pub open spec fn in_ZonedDayNanoseconds(v: int) -> bool { 1000000000 <= v <= 604800000000000 }
#[verifier::external_body]
pub fn verif_try_rfrom_ZonedDayNanoseconds_8(r: ri8) -> (res: Result<ri64, Error>)
    ensures res.is_ok() <==> in_ZonedDayNanoseconds(r.val as int), res.is_ok() ==> res.unwrap().val == r.val
{ unimplemented!() }
#[verifier::external_body]
pub fn verif_try_rfrom_ZonedDayNanoseconds_16(r: ri16) -> (res: Result<ri64, Error>)
    ensures res.is_ok() <==> in_ZonedDayNanoseconds(r.val as int), res.is_ok() ==> res.unwrap().val == r.val
{ unimplemented!() }
#[verifier::external_body]
pub fn verif_try_rfrom_ZonedDayNanoseconds_32(r: ri32) -> (res: Result<ri64, Error>)
    ensures res.is_ok() <==> in_ZonedDayNanoseconds(r.val as int), res.is_ok() ==> res.unwrap().val == r.val
{ unimplemented!() }
#[verifier::external_body]
pub fn verif_try_rfrom_ZonedDayNanoseconds_64(r: ri64) -> (res: Result<ri64, Error>)
    ensures res.is_ok() <==> in_ZonedDayNanoseconds(r.val as int), res.is_ok() ==> res.unwrap().val == r.val
{ unimplemented!() }
#[verifier::external_body]
pub fn verif_try_rfrom_ZonedDayNanoseconds_128(r: ri128) -> (res: Result<ri64, Error>)
    ensures res.is_ok() <==> in_ZonedDayNanoseconds(r.val as int), res.is_ok() ==> res.unwrap().val == r.val
{ unimplemented!() }
#[verifier::external_body]
pub fn verif_try_new_ZonedDayNanoseconds(v: i64) -> (res: Result<ri64, Error>)
    ensures res.is_ok() <==> in_ZonedDayNanoseconds(v as int), res.is_ok() ==> res.unwrap().val == v
{ unimplemented!() }
#[verifier::external_body]
pub fn verif_try_new128_ZonedDayNanoseconds(v: i128) -> (res: Result<ri64, Error>)
    ensures res.is_ok() <==> in_ZonedDayNanoseconds(v as int), res.is_ok() ==> res.unwrap().val == v
{ unimplemented!() }
// `ZonedDayNanoseconds::MIN` / `ZonedDayNanoseconds::MAX` (associated consts of type i128)
pub fn verif_MIN_ZonedDayNanoseconds() -> (r: i128) ensures r == ZonedDayNanoseconds_MIN() { 1000000000 }
pub fn verif_MAX_ZonedDayNanoseconds() -> (r: i128) ensures r == ZonedDayNanoseconds_MAX() { 604800000000000 }
// `x.try_checked_mul("what", rhs)` with x: ZonedDayNanoseconds -- Ok iff the exact product lies within ZonedDayNanoseconds::MIN..=MAX
#[verifier::external_body]
pub fn verif_try_checked_mul_ZonedDayNanoseconds<R: RInto<ri64>>(x: ri64, rhs: R) -> (res: Result<ri64, Error>)
    requires rhs.rinto_req(),
    ensures res.is_ok() <==> in_ZonedDayNanoseconds(x.val * rhs.rinto_spec().val), res.is_ok() ==> res.unwrap().val == x.val * rhs.rinto_spec().val
{ unimplemented!() }
// `x.try_checked_add/sub("what", rhs)` and `x.checked_add/sub/mul(rhs)` with x: ZonedDayNanoseconds -- fail iff the exact result leaves ZonedDayNanoseconds::MIN..=MAX
#[verifier::external_body]
pub fn verif_try_checked_add_ZonedDayNanoseconds<R: RInto<ri64>>(x: ri64, rhs: R) -> (res: Result<ri64, Error>)
    requires rhs.rinto_req(),
    ensures res.is_ok() <==> in_ZonedDayNanoseconds(x.val + rhs.rinto_spec().val), res.is_ok() ==> res.unwrap().val == x.val + rhs.rinto_spec().val
{ unimplemented!() }
#[verifier::external_body]
pub fn verif_try_checked_sub_ZonedDayNanoseconds<R: RInto<ri64>>(x: ri64, rhs: R) -> (res: Result<ri64, Error>)
    requires rhs.rinto_req(),
    ensures res.is_ok() <==> in_ZonedDayNanoseconds(x.val - rhs.rinto_spec().val), res.is_ok() ==> res.unwrap().val == x.val - rhs.rinto_spec().val
{ unimplemented!() }
#[verifier::external_body]
pub fn verif_checked_add_ZonedDayNanoseconds<R: RInto<ri64>>(x: ri64, rhs: R) -> (res: Option<ri64>)
    requires rhs.rinto_req(),
    ensures res.is_some() <==> in_ZonedDayNanoseconds(x.val + rhs.rinto_spec().val), res.is_some() ==> res.unwrap().val == x.val + rhs.rinto_spec().val
{ unimplemented!() }
#[verifier::external_body]
pub fn verif_checked_sub_ZonedDayNanoseconds<R: RInto<ri64>>(x: ri64, rhs: R) -> (res: Option<ri64>)
    requires rhs.rinto_req(),
    ensures res.is_some() <==> in_ZonedDayNanoseconds(x.val - rhs.rinto_spec().val), res.is_some() ==> res.unwrap().val == x.val - rhs.rinto_spec().val
{ unimplemented!() }
#[verifier::external_body]
pub fn verif_checked_mul_ZonedDayNanoseconds<R: RInto<ri64>>(x: ri64, rhs: R) -> (res: Option<ri64>)
    requires rhs.rinto_req(),
    ensures res.is_some() <==> in_ZonedDayNanoseconds(x.val * rhs.rinto_spec().val), res.is_some() ==> res.unwrap().val == x.val * rhs.rinto_spec().val
{ unimplemented!() }
#[allow(non_camel_case_types)]
pub trait TryRInto_SpanYears: Sized {
    spec fn try_rinto_val(self) -> int;
    fn try_rinto(self, what: &'static str) -> (res: Result<ri16, Error>)
        ensures res.is_ok() <==> in_SpanYears(self.try_rinto_val()), res.is_ok() ==> res.unwrap().val == self.try_rinto_val();
}
impl TryRInto_SpanYears for ri8 {
    open spec fn try_rinto_val(self) -> int { self.val as int }
    fn try_rinto(self, what: &'static str) -> (res: Result<ri16, Error>) { verif_try_rfrom_SpanYears_8(self) }
}
impl TryRInto_SpanYears for ri16 {
    open spec fn try_rinto_val(self) -> int { self.val as int }
    fn try_rinto(self, what: &'static str) -> (res: Result<ri16, Error>) { verif_try_rfrom_SpanYears_16(self) }
}
impl TryRInto_SpanYears for ri32 {
    open spec fn try_rinto_val(self) -> int { self.val as int }
    fn try_rinto(self, what: &'static str) -> (res: Result<ri16, Error>) { verif_try_rfrom_SpanYears_32(self) }
}
impl TryRInto_SpanYears for ri64 {
    open spec fn try_rinto_val(self) -> int { self.val as int }
    fn try_rinto(self, what: &'static str) -> (res: Result<ri16, Error>) { verif_try_rfrom_SpanYears_64(self) }
}
impl TryRInto_SpanYears for ri128 {
    open spec fn try_rinto_val(self) -> int { self.val as int }
    fn try_rinto(self, what: &'static str) -> (res: Result<ri16, Error>) { verif_try_rfrom_SpanYears_128(self) }
}
#[allow(non_camel_case_types)]
pub trait TryRInto_SpanMonths: Sized {
    spec fn try_rinto_val(self) -> int;
    fn try_rinto(self, what: &'static str) -> (res: Result<ri32, Error>)
        ensures res.is_ok() <==> in_SpanMonths(self.try_rinto_val()), res.is_ok() ==> res.unwrap().val == self.try_rinto_val();
}
impl TryRInto_SpanMonths for ri8 {
    open spec fn try_rinto_val(self) -> int { self.val as int }
    fn try_rinto(self, what: &'static str) -> (res: Result<ri32, Error>) { verif_try_rfrom_SpanMonths_8(self) }
}
impl TryRInto_SpanMonths for ri16 {
    open spec fn try_rinto_val(self) -> int { self.val as int }
    fn try_rinto(self, what: &'static str) -> (res: Result<ri32, Error>) { verif_try_rfrom_SpanMonths_16(self) }
}
impl TryRInto_SpanMonths for ri32 {
    open spec fn try_rinto_val(self) -> int { self.val as int }
    fn try_rinto(self, what: &'static str) -> (res: Result<ri32, Error>) { verif_try_rfrom_SpanMonths_32(self) }
}
impl TryRInto_SpanMonths for ri64 {
    open spec fn try_rinto_val(self) -> int { self.val as int }
    fn try_rinto(self, what: &'static str) -> (res: Result<ri32, Error>) { verif_try_rfrom_SpanMonths_64(self) }
}
impl TryRInto_SpanMonths for ri128 {
    open spec fn try_rinto_val(self) -> int { self.val as int }
    fn try_rinto(self, what: &'static str) -> (res: Result<ri32, Error>) { verif_try_rfrom_SpanMonths_128(self) }
}
#[allow(non_camel_case_types)]
pub trait TryRInto_SpanWeeks: Sized {
    spec fn try_rinto_val(self) -> int;
    fn try_rinto(self, what: &'static str) -> (res: Result<ri32, Error>)
        ensures res.is_ok() <==> in_SpanWeeks(self.try_rinto_val()), res.is_ok() ==> res.unwrap().val == self.try_rinto_val();
}
impl TryRInto_SpanWeeks for ri8 {
    open spec fn try_rinto_val(self) -> int { self.val as int }
    fn try_rinto(self, what: &'static str) -> (res: Result<ri32, Error>) { verif_try_rfrom_SpanWeeks_8(self) }
}
impl TryRInto_SpanWeeks for ri16 {
    open spec fn try_rinto_val(self) -> int { self.val as int }
    fn try_rinto(self, what: &'static str) -> (res: Result<ri32, Error>) { verif_try_rfrom_SpanWeeks_16(self) }
}
impl TryRInto_SpanWeeks for ri32 {
    open spec fn try_rinto_val(self) -> int { self.val as int }
    fn try_rinto(self, what: &'static str) -> (res: Result<ri32, Error>) { verif_try_rfrom_SpanWeeks_32(self) }
}
impl TryRInto_SpanWeeks for ri64 {
    open spec fn try_rinto_val(self) -> int { self.val as int }
    fn try_rinto(self, what: &'static str) -> (res: Result<ri32, Error>) { verif_try_rfrom_SpanWeeks_64(self) }
}
impl TryRInto_SpanWeeks for ri128 {
    open spec fn try_rinto_val(self) -> int { self.val as int }
    fn try_rinto(self, what: &'static str) -> (res: Result<ri32, Error>) { verif_try_rfrom_SpanWeeks_128(self) }
}
#[allow(non_camel_case_types)]
pub trait TryRInto_SpanDays: Sized {
    spec fn try_rinto_val(self) -> int;
    fn try_rinto(self, what: &'static str) -> (res: Result<ri32, Error>)
        ensures res.is_ok() <==> in_SpanDays(self.try_rinto_val()), res.is_ok() ==> res.unwrap().val == self.try_rinto_val();
}
impl TryRInto_SpanDays for ri8 {
    open spec fn try_rinto_val(self) -> int { self.val as int }
    fn try_rinto(self, what: &'static str) -> (res: Result<ri32, Error>) { verif_try_rfrom_SpanDays_8(self) }
}
impl TryRInto_SpanDays for ri16 {
    open spec fn try_rinto_val(self) -> int { self.val as int }
    fn try_rinto(self, what: &'static str) -> (res: Result<ri32, Error>) { verif_try_rfrom_SpanDays_16(self) }
}
impl TryRInto_SpanDays for ri32 {
    open spec fn try_rinto_val(self) -> int { self.val as int }
    fn try_rinto(self, what: &'static str) -> (res: Result<ri32, Error>) { verif_try_rfrom_SpanDays_32(self) }
}
impl TryRInto_SpanDays for ri64 {
    open spec fn try_rinto_val(self) -> int { self.val as int }
    fn try_rinto(self, what: &'static str) -> (res: Result<ri32, Error>) { verif_try_rfrom_SpanDays_64(self) }
}
impl TryRInto_SpanDays for ri128 {
    open spec fn try_rinto_val(self) -> int { self.val as int }
    fn try_rinto(self, what: &'static str) -> (res: Result<ri32, Error>) { verif_try_rfrom_SpanDays_128(self) }
}
#[allow(non_camel_case_types)]
pub trait TryRInto_SpanHours: Sized {
    spec fn try_rinto_val(self) -> int;
    fn try_rinto(self, what: &'static str) -> (res: Result<ri32, Error>)
        ensures res.is_ok() <==> in_SpanHours(self.try_rinto_val()), res.is_ok() ==> res.unwrap().val == self.try_rinto_val();
}
impl TryRInto_SpanHours for ri8 {
    open spec fn try_rinto_val(self) -> int { self.val as int }
    fn try_rinto(self, what: &'static str) -> (res: Result<ri32, Error>) { verif_try_rfrom_SpanHours_8(self) }
}
impl TryRInto_SpanHours for ri16 {
    open spec fn try_rinto_val(self) -> int { self.val as int }
    fn try_rinto(self, what: &'static str) -> (res: Result<ri32, Error>) { verif_try_rfrom_SpanHours_16(self) }
}
impl TryRInto_SpanHours for ri32 {
    open spec fn try_rinto_val(self) -> int { self.val as int }
    fn try_rinto(self, what: &'static str) -> (res: Result<ri32, Error>) { verif_try_rfrom_SpanHours_32(self) }
}
impl TryRInto_SpanHours for ri64 {
    open spec fn try_rinto_val(self) -> int { self.val as int }
    fn try_rinto(self, what: &'static str) -> (res: Result<ri32, Error>) { verif_try_rfrom_SpanHours_64(self) }
}
impl TryRInto_SpanHours for ri128 {
    open spec fn try_rinto_val(self) -> int { self.val as int }
    fn try_rinto(self, what: &'static str) -> (res: Result<ri32, Error>) { verif_try_rfrom_SpanHours_128(self) }
}
#[allow(non_camel_case_types)]
pub trait TryRInto_SpanMinutes: Sized {
    spec fn try_rinto_val(self) -> int;
    fn try_rinto(self, what: &'static str) -> (res: Result<ri64, Error>)
        ensures res.is_ok() <==> in_SpanMinutes(self.try_rinto_val()), res.is_ok() ==> res.unwrap().val == self.try_rinto_val();
}
impl TryRInto_SpanMinutes for ri8 {
    open spec fn try_rinto_val(self) -> int { self.val as int }
    fn try_rinto(self, what: &'static str) -> (res: Result<ri64, Error>) { verif_try_rfrom_SpanMinutes_8(self) }
}
impl TryRInto_SpanMinutes for ri16 {
    open spec fn try_rinto_val(self) -> int { self.val as int }
    fn try_rinto(self, what: &'static str) -> (res: Result<ri64, Error>) { verif_try_rfrom_SpanMinutes_16(self) }
}
impl TryRInto_SpanMinutes for ri32 {
    open spec fn try_rinto_val(self) -> int { self.val as int }
    fn try_rinto(self, what: &'static str) -> (res: Result<ri64, Error>) { verif_try_rfrom_SpanMinutes_32(self) }
}
impl TryRInto_SpanMinutes for ri64 {
    open spec fn try_rinto_val(self) -> int { self.val as int }
    fn try_rinto(self, what: &'static str) -> (res: Result<ri64, Error>) { verif_try_rfrom_SpanMinutes_64(self) }
}
impl TryRInto_SpanMinutes for ri128 {
    open spec fn try_rinto_val(self) -> int { self.val as int }
    fn try_rinto(self, what: &'static str) -> (res: Result<ri64, Error>) { verif_try_rfrom_SpanMinutes_128(self) }
}
#[allow(non_camel_case_types)]
pub trait TryRInto_SpanSeconds: Sized {
    spec fn try_rinto_val(self) -> int;
    fn try_rinto(self, what: &'static str) -> (res: Result<ri64, Error>)
        ensures res.is_ok() <==> in_SpanSeconds(self.try_rinto_val()), res.is_ok() ==> res.unwrap().val == self.try_rinto_val();
}
impl TryRInto_SpanSeconds for ri8 {
    open spec fn try_rinto_val(self) -> int { self.val as int }
    fn try_rinto(self, what: &'static str) -> (res: Result<ri64, Error>) { verif_try_rfrom_SpanSeconds_8(self) }
}
impl TryRInto_SpanSeconds for ri16 {
    open spec fn try_rinto_val(self) -> int { self.val as int }
    fn try_rinto(self, what: &'static str) -> (res: Result<ri64, Error>) { verif_try_rfrom_SpanSeconds_16(self) }
}
impl TryRInto_SpanSeconds for ri32 {
    open spec fn try_rinto_val(self) -> int { self.val as int }
    fn try_rinto(self, what: &'static str) -> (res: Result<ri64, Error>) { verif_try_rfrom_SpanSeconds_32(self) }
}
impl TryRInto_SpanSeconds for ri64 {
    open spec fn try_rinto_val(self) -> int { self.val as int }
    fn try_rinto(self, what: &'static str) -> (res: Result<ri64, Error>) { verif_try_rfrom_SpanSeconds_64(self) }
}
impl TryRInto_SpanSeconds for ri128 {
    open spec fn try_rinto_val(self) -> int { self.val as int }
    fn try_rinto(self, what: &'static str) -> (res: Result<ri64, Error>) { verif_try_rfrom_SpanSeconds_128(self) }
}
#[allow(non_camel_case_types)]
pub trait TryRInto_SpanMilliseconds: Sized {
    spec fn try_rinto_val(self) -> int;
    fn try_rinto(self, what: &'static str) -> (res: Result<ri64, Error>)
        ensures res.is_ok() <==> in_SpanMilliseconds(self.try_rinto_val()), res.is_ok() ==> res.unwrap().val == self.try_rinto_val();
}
impl TryRInto_SpanMilliseconds for ri8 {
    open spec fn try_rinto_val(self) -> int { self.val as int }
    fn try_rinto(self, what: &'static str) -> (res: Result<ri64, Error>) { verif_try_rfrom_SpanMilliseconds_8(self) }
}
impl TryRInto_SpanMilliseconds for ri16 {
    open spec fn try_rinto_val(self) -> int { self.val as int }
    fn try_rinto(self, what: &'static str) -> (res: Result<ri64, Error>) { verif_try_rfrom_SpanMilliseconds_16(self) }
}
impl TryRInto_SpanMilliseconds for ri32 {
    open spec fn try_rinto_val(self) -> int { self.val as int }
    fn try_rinto(self, what: &'static str) -> (res: Result<ri64, Error>) { verif_try_rfrom_SpanMilliseconds_32(self) }
}
impl TryRInto_SpanMilliseconds for ri64 {
    open spec fn try_rinto_val(self) -> int { self.val as int }
    fn try_rinto(self, what: &'static str) -> (res: Result<ri64, Error>) { verif_try_rfrom_SpanMilliseconds_64(self) }
}
impl TryRInto_SpanMilliseconds for ri128 {
    open spec fn try_rinto_val(self) -> int { self.val as int }
    fn try_rinto(self, what: &'static str) -> (res: Result<ri64, Error>) { verif_try_rfrom_SpanMilliseconds_128(self) }
}
#[allow(non_camel_case_types)]
pub trait TryRInto_SpanMicroseconds: Sized {
    spec fn try_rinto_val(self) -> int;
    fn try_rinto(self, what: &'static str) -> (res: Result<ri64, Error>)
        ensures res.is_ok() <==> in_SpanMicroseconds(self.try_rinto_val()), res.is_ok() ==> res.unwrap().val == self.try_rinto_val();
}
impl TryRInto_SpanMicroseconds for ri8 {
    open spec fn try_rinto_val(self) -> int { self.val as int }
    fn try_rinto(self, what: &'static str) -> (res: Result<ri64, Error>) { verif_try_rfrom_SpanMicroseconds_8(self) }
}
impl TryRInto_SpanMicroseconds for ri16 {
    open spec fn try_rinto_val(self) -> int { self.val as int }
    fn try_rinto(self, what: &'static str) -> (res: Result<ri64, Error>) { verif_try_rfrom_SpanMicroseconds_16(self) }
}
impl TryRInto_SpanMicroseconds for ri32 {
    open spec fn try_rinto_val(self) -> int { self.val as int }
    fn try_rinto(self, what: &'static str) -> (res: Result<ri64, Error>) { verif_try_rfrom_SpanMicroseconds_32(self) }
}
impl TryRInto_SpanMicroseconds for ri64 {
    open spec fn try_rinto_val(self) -> int { self.val as int }
    fn try_rinto(self, what: &'static str) -> (res: Result<ri64, Error>) { verif_try_rfrom_SpanMicroseconds_64(self) }
}
impl TryRInto_SpanMicroseconds for ri128 {
    open spec fn try_rinto_val(self) -> int { self.val as int }
    fn try_rinto(self, what: &'static str) -> (res: Result<ri64, Error>) { verif_try_rfrom_SpanMicroseconds_128(self) }
}
#[allow(non_camel_case_types)]
pub trait TryRInto_SpanNanoseconds: Sized {
    spec fn try_rinto_val(self) -> int;
    fn try_rinto(self, what: &'static str) -> (res: Result<ri64, Error>)
        ensures res.is_ok() <==> in_SpanNanoseconds(self.try_rinto_val()), res.is_ok() ==> res.unwrap().val == self.try_rinto_val();
}
impl TryRInto_SpanNanoseconds for ri8 {
    open spec fn try_rinto_val(self) -> int { self.val as int }
    fn try_rinto(self, what: &'static str) -> (res: Result<ri64, Error>) { verif_try_rfrom_SpanNanoseconds_8(self) }
}
impl TryRInto_SpanNanoseconds for ri16 {
    open spec fn try_rinto_val(self) -> int { self.val as int }
    fn try_rinto(self, what: &'static str) -> (res: Result<ri64, Error>) { verif_try_rfrom_SpanNanoseconds_16(self) }
}
impl TryRInto_SpanNanoseconds for ri32 {
    open spec fn try_rinto_val(self) -> int { self.val as int }
    fn try_rinto(self, what: &'static str) -> (res: Result<ri64, Error>) { verif_try_rfrom_SpanNanoseconds_32(self) }
}
impl TryRInto_SpanNanoseconds for ri64 {
    open spec fn try_rinto_val(self) -> int { self.val as int }
    fn try_rinto(self, what: &'static str) -> (res: Result<ri64, Error>) { verif_try_rfrom_SpanNanoseconds_64(self) }
}
impl TryRInto_SpanNanoseconds for ri128 {
    open spec fn try_rinto_val(self) -> int { self.val as int }
    fn try_rinto(self, what: &'static str) -> (res: Result<ri64, Error>) { verif_try_rfrom_SpanNanoseconds_128(self) }
}
#[allow(non_camel_case_types)]
pub trait TryRInto_SpanZoneOffset: Sized {
    spec fn try_rinto_val(self) -> int;
    fn try_rinto(self, what: &'static str) -> (res: Result<ri32, Error>)
        ensures res.is_ok() <==> in_SpanZoneOffset(self.try_rinto_val()), res.is_ok() ==> res.unwrap().val == self.try_rinto_val();
}
impl TryRInto_SpanZoneOffset for ri8 {
    open spec fn try_rinto_val(self) -> int { self.val as int }
    fn try_rinto(self, what: &'static str) -> (res: Result<ri32, Error>) { verif_try_rfrom_SpanZoneOffset_8(self) }
}
impl TryRInto_SpanZoneOffset for ri16 {
    open spec fn try_rinto_val(self) -> int { self.val as int }
    fn try_rinto(self, what: &'static str) -> (res: Result<ri32, Error>) { verif_try_rfrom_SpanZoneOffset_16(self) }
}
impl TryRInto_SpanZoneOffset for ri32 {
    open spec fn try_rinto_val(self) -> int { self.val as int }
    fn try_rinto(self, what: &'static str) -> (res: Result<ri32, Error>) { verif_try_rfrom_SpanZoneOffset_32(self) }
}
impl TryRInto_SpanZoneOffset for ri64 {
    open spec fn try_rinto_val(self) -> int { self.val as int }
    fn try_rinto(self, what: &'static str) -> (res: Result<ri32, Error>) { verif_try_rfrom_SpanZoneOffset_64(self) }
}
impl TryRInto_SpanZoneOffset for ri128 {
    open spec fn try_rinto_val(self) -> int { self.val as int }
    fn try_rinto(self, what: &'static str) -> (res: Result<ri32, Error>) { verif_try_rfrom_SpanZoneOffset_128(self) }
}

#[verifier::external_body] #[derive(Clone, Copy)] pub struct Timestamp { _p: () }
#[verifier::external_body] #[derive(Clone, Copy)] pub struct DateTime { _p: () }
#[verifier::external_body] #[derive(Clone, Copy)] pub struct Offset { _p: () }
#[verifier::external_body] pub struct TimeZone { _p: () }
#[verifier::external_body] pub struct Zoned { _p: () }
#[verifier::external_body] #[derive(Clone, Copy)] pub struct Span { _p: () }
#[verifier::external_body] #[derive(Clone, Copy, Debug)] pub struct DateTimeRound { _p: () }
#[derive(Clone, Copy, PartialEq, Eq, Structural)]
pub enum RoundMode { Ceil, Floor, Expand, Trunc, HalfCeil, HalfFloor, HalfExpand, HalfTrunc, HalfEven }
#[derive(Clone, Copy, PartialEq, Eq, Structural)]
pub enum Unit { Year, Month, Week, Day, Hour, Minute, Second, Millisecond, Microsecond, Nanosecond }
impl vstd::std_specs::cmp::PartialEqSpecImpl for Offset { open spec fn obeys_eq_spec() -> bool { true } open spec fn eq_spec(&self, o: &Offset) -> bool { *self == *o } }
impl PartialEq for Offset { #[verifier::external_body] fn eq(&self, o: &Offset) -> bool { unimplemented!() } }
pub enum AmbiguousOffset {
    Unambiguous { offset: Offset },
    Gap { before: Offset, after: Offset },
    Fold { before: Offset, after: Offset },
}
// ---- abstract semantics (each is the contract of a unit named in the comment)
pub uninterp spec fn tz_amb(tz: TimeZone, dt: DateTime) -> AmbiguousOffset;          // C04 (tzif, posix)
pub uninterp spec fn off_to_ts(o: Offset, dt: DateTime) -> Option<Timestamp>;        // C02 (itime, c02_wrappers)
pub uninterp spec fn zoned_of(ts: Timestamp, tz: TimeZone) -> Zoned;                 // C13 (zoned): Zoned::new
pub uninterp spec fn dt_round(cfg: DateTimeRound, dt: DateTime) -> Option<DateTime>; // C10 (rounders): DateTimeRound::round
pub uninterp spec fn ts_ns(ts: Timestamp) -> int;                                    // instant in nanoseconds
pub uninterp spec fn ts_of_ns(n: int) -> Timestamp;
pub uninterp spec fn start_of_day_ts(z: &Zoned) -> Option<Timestamp>;                // C06 (zoned): Zoned::start_of_day
pub uninterp spec fn add_one_day_ts(ts: Timestamp, tz: TimeZone) -> Option<Timestamp>; // C06 (zoned): checked_add of one calendar day
pub open spec fn in_ts_range(n: int) -> bool { in_UnixNanoseconds(n) }
/// C10: the nine-mode rounding of q to a multiple of inc (lib/roundspec.vrs `round_ok`), abstract here; unique by lemma_round_unique
pub uninterp spec fn round_val(mode: RoundMode, q: int, inc: int) -> int;

pub struct AmbiguousTimestamp { pub dt: DateTime, pub offset: AmbiguousOffset }
pub struct AmbiguousZoned { pub ts: AmbiguousTimestamp, pub tz: TimeZone }
impl AmbiguousTimestamp {
    pub fn new(dt: DateTime, kind: AmbiguousOffset) -> (r: AmbiguousTimestamp) ensures r.dt == dt, r.offset == kind { AmbiguousTimestamp { dt, offset: kind } }
    #[verifier::external_body] pub fn offset(&self) -> (r: AmbiguousOffset) ensures r == self.offset { unimplemented!() }
    pub fn into_ambiguous_zoned(self, tz: TimeZone) -> (r: AmbiguousZoned) ensures r.ts == self, r.tz == tz { AmbiguousZoned { ts: self, tz } }
}
pub open spec fn pick_compatible(a: AmbiguousOffset) -> Offset {
    match a { AmbiguousOffset::Unambiguous { offset } => offset, AmbiguousOffset::Gap { before, after } => before, AmbiguousOffset::Fold { before, after } => before }
}
impl AmbiguousZoned {
    // unit ambig
    #[verifier::external_body] pub fn compatible(self) -> (r: Result<Zoned, Error>)
        ensures r.is_ok() == off_to_ts(pick_compatible(self.ts.offset), self.ts.dt).is_some(),
                r.is_ok() ==> r.unwrap() == zoned_of(off_to_ts(pick_compatible(self.ts.offset), self.ts.dt).unwrap(), self.tz) { unimplemented!() }
}
impl TimeZone {
    #[verifier::external_body] pub fn clone(&self) -> (r: TimeZone) ensures r == *self { unimplemented!() }
    #[verifier::external_body] pub fn to_ambiguous_timestamp(&self, dt: DateTime) -> (r: AmbiguousTimestamp) ensures r.dt == dt, r.offset == tz_amb(*self, dt) { unimplemented!() }
    #[verifier::external_body] pub fn into_ambiguous_zoned(self, dt: DateTime) -> (r: AmbiguousZoned) ensures r.ts.dt == dt, r.ts.offset == tz_amb(self, dt), r.tz == self { unimplemented!() }
    #[verifier::external_body] pub fn diagnostic_name(&self) -> (r: &'static str) { unimplemented!() }
}
impl DateTimeRound {
    #[verifier::external_body] pub fn get_smallest(&self) -> (r: Unit) ensures r == cfg_smallest(*self) { unimplemented!() }
    #[verifier::external_body] pub fn get_increment(&self) -> (r: i64) ensures r == cfg_increment(*self) { unimplemented!() }
    #[verifier::external_body] pub fn get_mode(&self) -> (r: RoundMode) ensures r == cfg_mode(*self) { unimplemented!() }
    #[verifier::external_body] pub fn round(&self, dt: DateTime) -> (r: Result<DateTime, Error>)
        ensures r.is_ok() == dt_round(*self, dt).is_some(), r.is_ok() ==> r.unwrap() == dt_round(*self, dt).unwrap() { unimplemented!() }
}
pub uninterp spec fn cfg_smallest(c: DateTimeRound) -> Unit;
pub uninterp spec fn cfg_increment(c: DateTimeRound) -> i64;
pub uninterp spec fn cfg_mode(c: DateTimeRound) -> RoundMode;
pub mod increment {
    use super::*;
    // c10_increment / rounders: for Unit::Day only increment 1 is legal
    #[verifier::external_body] pub fn for_datetime(unit: Unit, increment: i64) -> (r: Result<ri128, Error>)
        ensures unit == Unit::Day ==> (r.is_ok() <==> increment == 1) { unimplemented!() }
}
impl RoundMode {
    // RoundMode::round (units round, rounders): result is THE value satisfying round_ok
    #[verifier::external_body] pub fn verif_round(self, quantity: ri128, increment: ri64) -> (r: ri128)
        requires 0 < increment.val, -0x4000_0000_0000_0000_0000_0000 <= quantity.val <= 0x4000_0000_0000_0000_0000_0000,
        ensures r.val == round_val(self, quantity.val as int, increment.val as int),
                // consequences of round_ok used here: within one increment of the quantity
                -increment.val < r.val - quantity.val < increment.val { unimplemented!() }
}
impl Zoned {
    pub uninterp spec fn ts(&self) -> Timestamp;
    pub uninterp spec fn dt(&self) -> DateTime;
    pub uninterp spec fn off(&self) -> Offset;
    pub uninterp spec fn tz(&self) -> TimeZone;
    #[verifier::external_body] pub fn timestamp(&self) -> (r: Timestamp) ensures r == self.ts() { unimplemented!() }
    #[verifier::external_body] pub fn datetime(&self) -> (r: DateTime) ensures r == self.dt() { unimplemented!() }
    #[verifier::external_body] pub fn offset(&self) -> (r: Offset) ensures r == self.off() { unimplemented!() }
    #[verifier::external_body] pub fn time_zone(&self) -> (r: &TimeZone) ensures *r == self.tz() { unimplemented!() }
    // unit zoned
    #[verifier::external_body] pub fn start_of_day(&self) -> (r: Result<Zoned, Error>)
        ensures r.is_ok() == start_of_day_ts(self).is_some(), r.is_ok() ==> r.unwrap() == zoned_of(start_of_day_ts(self).unwrap(), self.tz()) && r.unwrap().ts() == start_of_day_ts(self).unwrap() && r.unwrap().tz() == self.tz() { unimplemented!() }
    #[verifier::external_body] pub fn checked_add(&self, s: Span) -> (r: Result<Zoned, Error>)
        requires s == span_one_day(),
        ensures r.is_ok() == add_one_day_ts(self.ts(), self.tz()).is_some(), r.is_ok() ==> r.unwrap().ts() == add_one_day_ts(self.ts(), self.tz()).unwrap() { unimplemented!() }
}
pub uninterp spec fn span_one_day() -> Span;
pub uninterp spec fn span_ns(s: Span) -> int;
#[verifier::external_body] pub fn verif_span_one_day() -> (r: Span) ensures r == span_one_day() { unimplemented!() }
impl Span {
    #[verifier::external_body] pub fn get_nanoseconds_ranged(&self) -> (r: SpanNanoseconds) ensures r.val == span_ns(*self) { unimplemented!() }
}
impl Timestamp {
    // unit tsarith: until with largest unit Nanosecond is the exact distance, Err iff it exceeds the nanosecond limit of a Span
    #[verifier::external_body] pub fn until_nanoseconds(self, other: Timestamp) -> (r: Result<Span, Error>)
        ensures r.is_ok() <==> in_SpanNanoseconds(ts_ns(other) - ts_ns(self)), r.is_ok() ==> span_ns(r.unwrap()) == ts_ns(other) - ts_ns(self) { unimplemented!() }
    #[verifier::external_body] pub fn as_nanosecond_ranged(self) -> (r: UnixNanoseconds) ensures r.val == ts_ns(self), in_ts_range(ts_ns(self)) { unimplemented!() }
    #[verifier::external_body] pub fn from_nanosecond_ranged(n: UnixNanoseconds) -> (r: Timestamp)
        requires in_ts_range(n.val as int), ensures ts_ns(r) == n.val, r == ts_of_ns(n.val as int) { unimplemented!() }
    #[verifier::external_body] pub fn to_zoned(self, tz: TimeZone) -> (r: Zoned) ensures r == zoned_of(self, tz) { unimplemented!() }
}
impl ri128 {
    pub fn verif_m_try_checked_add_UnixNanoseconds(self, rhs: ri128) -> (res: Result<ri128, Error>)
        ensures res.is_ok() <==> in_UnixNanoseconds(self.val + rhs.val), res.is_ok() ==> res.unwrap().val == self.val + rhs.val
    { verif_try_checked_add_UnixNanoseconds(self, rhs) }
}
pub trait VerifCtx: Sized { fn verif_with_context(self) -> Self; }
impl<T> VerifCtx for Result<T, Error> {
    #[verifier::external_body]
    fn verif_with_context(self) -> (r: Self) ensures r.is_ok() == self.is_ok(), self.is_ok() ==> r.unwrap() == self.unwrap() { unimplemented!() }
}

// ---- C10 / C09, from the statements ----
/// the original offset is still valid for civil time `dt` in `tz`
pub open spec fn offset_valid(tz: TimeZone, dt: DateTime, given: Offset) -> bool {
    match tz_amb(tz, dt) {
        AmbiguousOffset::Unambiguous { offset } => given == offset,
        AmbiguousOffset::Fold { before, after } => given == before || given == after,
        AmbiguousOffset::Gap { before, after } => false,
    }
}
/// "re-resolves it in the zone, keeping the original offset whenever that offset is still valid"
pub open spec fn reresolve(tz: TimeZone, dt: DateTime, given: Offset) -> Option<Timestamp> {
    if offset_valid(tz, dt, given) { off_to_ts(given, dt) } else { off_to_ts(pick_compatible(tz_amb(tz, dt)), dt) }
}

// ==== extracted from /repo ====
#[derive(Clone, Copy, Debug)]

pub enum OffsetConflict {
    
    
    
    
    
    
    
    
    
    
    
    
    
    AlwaysOffset,
    
    
    
    
    
    
    
    
    
    
    
    
    
    
    AlwaysTimeZone,
    
    
    
    
    
    
    
    PreferOffset,
    
    
    
    
    
    
    Reject,
}

impl OffsetConflict {
// @fn OffsetConflict::resolve @src src/tz/offset.rs:1828
#[verifier::spinoff_prover]
pub fn resolve(
        self,
        dt: DateTime,
        offset: Offset,
        tz: TimeZone,
    ) -> (r: Result<AmbiguousZoned, Error>)
    ensures
        self == OffsetConflict::PreferOffset ==> r.is_ok() && r.unwrap().tz == tz && r.unwrap().ts.dt == dt
        && off_to_ts(pick_compatible(r.unwrap().ts.offset), dt) == reresolve(tz, dt, offset),
    self == OffsetConflict::Reject ==> (r.is_ok() <==> offset_valid(tz, dt, offset)),
{
        self.resolve_with(dt, offset, tz, |off1: Offset, off2: Offset| -> (r: bool) ensures r == (off1 == off2) { off1 == off2 })
    }
}

impl OffsetConflict {
// @fn OffsetConflict::resolve_with @src src/tz/offset.rs:1943
#[verifier::spinoff_prover]
pub fn resolve_with<F>(
        self,
        dt: DateTime,
        offset: Offset,
        tz: TimeZone,
        is_equal: F,
    ) -> (r: Result<AmbiguousZoned, Error>)
    where
        F: Fn(Offset, Offset) -> bool,
    requires
        forall|a: Offset, b: Offset, x: bool| is_equal.ensures((a, b), x) ==> x == (a == b), forall|a: Offset, b: Offset| is_equal.requires((a, b)),
    ensures
        self == OffsetConflict::PreferOffset ==> r.is_ok() && r.unwrap().tz == tz && r.unwrap().ts.dt == dt
        && off_to_ts(pick_compatible(r.unwrap().ts.offset), dt) == reresolve(tz, dt, offset),
    self == OffsetConflict::AlwaysOffset ==> r.is_ok() && r.unwrap().ts.offset == (AmbiguousOffset::Unambiguous { offset }),
    self == OffsetConflict::AlwaysTimeZone ==> r.is_ok() && r.unwrap().ts.offset == tz_amb(tz, dt),
    self == OffsetConflict::Reject ==> (r.is_ok() <==> offset_valid(tz, dt, offset)),
{
        match self {
            
            
            OffsetConflict::AlwaysOffset => {
                let kind = AmbiguousOffset::Unambiguous { offset };
                Ok(AmbiguousTimestamp::new(dt, kind).into_ambiguous_zoned(tz))
            }
            
            
            OffsetConflict::AlwaysTimeZone => Ok(tz.into_ambiguous_zoned(dt)),
            
            
            OffsetConflict::PreferOffset => Ok(
                OffsetConflict::resolve_via_prefer(dt, offset, tz, is_equal),
            ),
            
            
            OffsetConflict::Reject => {
                OffsetConflict::resolve_via_reject(dt, offset, tz, is_equal)
            }
        }
    }
}

impl OffsetConflict {
// @fn OffsetConflict::resolve_via_prefer @src src/tz/offset.rs:1985
#[verifier::spinoff_prover]
pub fn resolve_via_prefer(
        dt: DateTime,
        given: Offset,
        tz: TimeZone,
        is_equal: impl Fn(Offset, Offset) -> bool,
    ) -> (r: AmbiguousZoned)
    requires
        forall|a: Offset, b: Offset, x: bool| is_equal.ensures((a, b), x) ==> x == (a == b), forall|a: Offset, b: Offset| is_equal.requires((a, b)),
    ensures
        r.tz == tz, r.ts.dt == dt,
    // the candidate set handed to the strategy: the given offset alone when it is one of a fold's two, else the zone's own answer
    r.ts.offset == (match tz_amb(tz, dt) {
        AmbiguousOffset::Fold { before, after } => if given == before || given == after { AmbiguousOffset::Unambiguous { offset: given } } else { tz_amb(tz, dt) },
        _ => tz_amb(tz, dt) }),
{
        use AmbiguousOffset::*;

        let amb = tz.to_ambiguous_timestamp(dt);
        match amb.offset() {
            
            
            
            
            Fold { before, after }
                if is_equal(given, before) || is_equal(given, after) =>
            {
                let kind = Unambiguous { offset: given };
                AmbiguousTimestamp::new(dt, kind)
            }
            _ => amb,
        }
        .into_ambiguous_zoned(tz)
    }
}

impl OffsetConflict {
// @fn OffsetConflict::resolve_via_reject @src src/tz/offset.rs:2022
#[verifier::spinoff_prover]
pub fn resolve_via_reject(
        dt: DateTime,
        given: Offset,
        tz: TimeZone,
        is_equal: impl Fn(Offset, Offset) -> bool,
    ) -> (r: Result<AmbiguousZoned, Error>)
    requires
        forall|a: Offset, b: Offset, x: bool| is_equal.ensures((a, b), x) ==> x == (a == b), forall|a: Offset, b: Offset| is_equal.requires((a, b)),
    ensures
        r.is_ok() <==> offset_valid(tz, dt, given),
    r.is_ok() ==> r.unwrap().tz == tz && r.unwrap().ts.dt == dt
        && r.unwrap().ts.offset == (match tz_amb(tz, dt) { AmbiguousOffset::Fold { before, after } => AmbiguousOffset::Unambiguous { offset: given }, _ => tz_amb(tz, dt) }),
{
        use AmbiguousOffset::*;

        let amb = tz.to_ambiguous_timestamp(dt);
        match amb.offset() {
            Unambiguous { offset } if !is_equal(given, offset) => Err(verif_err()),
            Unambiguous { .. } => Ok(amb.into_ambiguous_zoned(tz)),
            Gap { before, after } => {
                
                
                
                
                
                
                
                
                
                
                Err(verif_err())
            }
            Fold { before, after }
                if !is_equal(given, before) && !is_equal(given, after) =>
            {
                Err(verif_err())
            }
            Fold { .. } => {
                let kind = Unambiguous { offset: given };
                Ok(AmbiguousTimestamp::new(dt, kind).into_ambiguous_zoned(tz))
            }
        }
    }
}

#[derive(Clone, Copy, Debug)]
pub struct ZonedRound {
    pub round: DateTimeRound,
}

impl ZonedRound {
// @fn ZonedRound::round @src src/zoned.rs:4249
#[verifier::spinoff_prover]
pub fn round(&self, zdt: &Zoned) -> (r: Result<Zoned, Error>)
    ensures
        // sub-day units: round the civil datetime (C10 contract of DateTimeRound::round), then re-resolve keeping the original offset when still valid
    cfg_smallest(self.round) != Unit::Day ==> (match dt_round(self.round, zdt.dt()) {
        None => r.is_err(),
        Some(end) => r.is_ok() == reresolve(zdt.tz(), end, zdt.off()).is_some()
            && (r.is_ok() ==> r.unwrap() == zoned_of(reresolve(zdt.tz(), end, zdt.off()).unwrap(), zdt.tz())),
    }),
{
        let start = zdt.datetime();
        if self.round.get_smallest() == Unit::Day {
            return self.round_days(zdt);
        }
        let end = self.round.round(start)?;
        
        
        
        let amb = OffsetConflict::PreferOffset.resolve(
            end,
            zdt.offset(),
            zdt.time_zone().clone(),
        )?;
        amb.compatible()
    }
}

impl ZonedRound {
// @fn ZonedRound::round_days @src src/zoned.rs:4271
#[verifier::spinoff_prover]
pub fn round_days(&self, zdt: &Zoned) -> (r: Result<Zoned, Error>)
    requires
        cfg_smallest(self.round) == Unit::Day,
    ensures
        // days: the start of this civil day plus the mode-rounded elapsed time, in units of that day's REAL length
    r.is_ok() ==> cfg_increment(self.round) == 1 && start_of_day_ts(zdt).is_some()
        && add_one_day_ts(start_of_day_ts(zdt).unwrap(), zdt.tz()).is_some()
        && ({ let s = ts_ns(start_of_day_ts(zdt).unwrap()); let e = ts_ns(add_one_day_ts(start_of_day_ts(zdt).unwrap(), zdt.tz()).unwrap());
              in_ZonedDayNanoseconds(e - s)
              && r.unwrap() == zoned_of(ts_of_ns(s + round_val(cfg_mode(self.round), ts_ns(zdt.ts()) - s, e - s)), zdt.tz()) }),
    cfg_increment(self.round) != 1 ==> r.is_err(),
{
        { let verif_da: bool = (self.round.get_smallest()) == (Unit::Day); assert(verif_da); };

        
        
        
        increment::for_datetime(Unit::Day, self.round.get_increment())?;

        
        
        
        
        
        let start = zdt.start_of_day().verif_with_context()?;
        let end = start
            .checked_add(verif_span_one_day())
            .verif_with_context()?;
        let span = start
            .timestamp()
            .until_nanoseconds(end.timestamp())
            .verif_with_context()?;
        let nanos = span.get_nanoseconds_ranged();
        let day_length =
            verif_try_rfrom_ZonedDayNanoseconds_64(nanos)
                .verif_with_context()?;
        let progress = zdt.timestamp().as_nanosecond_ranged()
            - start.timestamp().as_nanosecond_ranged();
        let rounded = self.round.get_mode().verif_round(progress, day_length);
        let nanos = start
            .timestamp()
            .as_nanosecond_ranged()
            .verif_m_try_checked_add_UnixNanoseconds(rounded)?;
        Ok(Timestamp::from_nanosecond_ranged(nanos)
            .to_zoned(zdt.time_zone().clone()))
    }
}

// ==== end extracted ====


} // verus!
fn main() {}
